from common import *
for body in ["x = 1 {1-p} 2", "x = 1 {1-p} 2 {p}", "x = 1 {p+q} 2", "x = 1 {p+q} 2 {1-p-q}", "x = 1 {3/2} 2", "x = 1 {0.7} 2 {0.7} 3", "x = 1 {-1/2} 2"]:
    src = f"""
x = 0
while true:
    {body}
end
"""
    try:
        e, ex, p = closed(src, "x")
        print(body, '=>', [str(a) for a in p.loop_body], '| E(x)=', e.args[-1][0])
    except Exception as ex:
        print(body, '=> EXC', type(ex).__name__, ex)
