from common import *
import signal
signal.alarm(60)
for name, src, goal, truth in [
 ("hang", "x = 1\ny = x\ny = 5\nwhile true:\n    a = x + y\n    x = 3 - x\nend", "a", "?,6,7,6"),
 ("c=x folded", "x = 2\nc = x\nwhile true:\n    x = x + c\nend", "x", "2,4,6,8"),
 ("x=1;y=x;x=2", "x = 1\ny = x\nx = 2\nwhile true:\n    y = y + x\nend", "y", "1,3,5,7"),
 ("c=1;c=c+1", "c = 1\nc = c + 1\ny = 0\nwhile true:\n    y = y + c\nend", "y", "0,2,4,6"),
 ("c=p", "c = p\ny = 0\nwhile true:\n    y = y + c\nend", "y", "0,p,2p"),
]:
    try:
        e, ex, p = closed(src, goal); print(name, '=>', vals(e,4), 'truth', truth)
    except Exception as ex: print(name, "EXC", type(ex).__name__, ex)
