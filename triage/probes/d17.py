from common import *
import settings
src = """
x = 0
b = 0
while true:
    b = Bernoulli(1/2)
    if b == 1:
        x = Normal(x, 1)
    end
end
"""
for c2a in [False, True]:
    settings.cond2arithm = c2a
    try:
        e, ex, p = closed(src, "x**2")
        print(c2a, e)
    except Exception as err:
        print(c2a, "EXC", type(err).__name__, err)
