from common import *
from cli.common import get_moment_given_termination, transform_to_after_loop
from argparse import Namespace
def after(src, goal):
    p = Parser().parse_string(src)
    p = normalize_program(p)
    rb = RecBuilder(p)
    args = Namespace(solvability_check=False)
    m, ex = get_moment_given_termination(sympify(goal), {}, rb, args, p)
    return p, m, transform_to_after_loop(m)
src = """
stop = 0
c = Bernoulli(1/2)
x = 0
while stop == 0:
    if c == 1:
        stop = Bernoulli(1/2)
        x = x + 1
    end
end
"""
p, m, a = after(src, "x")
print(p); print("orig guard:", p.original_loop_guard); print("given term:", sympy.simplify(m)); print("after loop:", a)
# truth: with c==0 (prob 1/2) loop never terminates; given termination c==1: x = geometric(1/2) => E = 2
src2 = """
stop = 0
c = Bernoulli(1/2)
x = 0
d = 0
while stop == 0:
    d = 0
    if c == 1:
        stop = Bernoulli(1/2)
        x = x + 1
    end
end
"""
p, m, a = after(src2, "x")
print("orig guard:", p.original_loop_guard); print("given term:", sympy.simplify(m)); print("after loop:", a)
