from common import *
for name in ["e", "pi", "oo", "zoo", "nan", "i", "gamma", "beta", "lambda", "n", "t", "_k", "x0"]:
    src = f"""
{name} = 2
y = 0
while true:
    y = y + {name}
    {name} = {name} + 1
end
"""
    try:
        ex, _, p = closed(src, "y")
        print(name, '=>', [str(a) for a in p.loop_body], vals(ex, 4))
    except Exception as e:
        print(name, '=> EXC', type(e).__name__, str(e)[:100])
