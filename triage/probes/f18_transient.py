"""F18: nilpotent transients. a, b, c = b, c, 7 : a takes 1, 2, 3, 7, 7, ...; a*b takes 2, 6, 21, 49, 49, ..."""
import sys, os
sys.path.insert(0, os.environ.get("POLAR", os.getcwd()))
import sympy
from inputparser import Parser
from program import normalize_program
from recurrences import RecBuilder
from recurrences.solver import RecurrenceSolver
from symengine.lib.symengine_wrapper import sympify

SRC = """
a = 1
b = 2
c = 3
while true:
    a, b, c = b, c, 7
end
"""
SRC2 = """
a = 1
b = 2
c = 3
x = 0
while true:
    a, b, c = b, c, 7
    x = 2*x + a
end
"""
n = sympy.Symbol("n", integer=True)
bad = 0
def check(src, mon, truth, force):
    global bad
    p = normalize_program(Parser().parse_string(src))
    m = sympify(mon)
    s = RecurrenceSolver(RecBuilder(p).get_recurrences(m), False, False, 0, force_cyclic_solver=force)
    sol = s.get(m)
    got = [sympy.simplify(sol.subs({n: i})) for i in range(len(truth))]
    ok = got == truth
    print("cyclic " if force else "acyclic", mon, got, "ok" if ok else f"WRONG, expected {truth}")
    bad += not ok
def xs(k):
    a, b, c, x = 1, 2, 3, 0
    out = [x]
    for _ in range(k):
        a, b, c = b, c, 7
        x = 2 * x + a
        out.append(x)
    return out
for force in (False, True):
    check(SRC, "a", [1, 2, 3, 7, 7, 7], force)
    check(SRC, "a*b", [2, 6, 21, 49, 49, 49], force)
    check(SRC2, "x", xs(7), force)
sys.exit(1 if bad else 0)
