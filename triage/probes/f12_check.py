from common import *
from cli.common import get_moment_given_termination
from argparse import Namespace
src = """
stop = 0
x = 0
while stop == 0:
    stop = Bernoulli(1/2)
    x = x + 1
end
"""
p = Parser().parse_string(src); p = normalize_program(p)
rb = RecBuilder(p)
m, ex = get_moment_given_termination(sympify("x"), {}, rb, Namespace(solvability_check=False), p)
print(p); print("orig guard", p.original_loop_guard)
n = sympy.Symbol('n', integer=True)
print("reported E(x | stopped by n):", [sympy.nsimplify(sympy.simplify(m.subs(n,i))) for i in range(1,6)])
# truth: P(stop at iteration k)=2^-k, x=k.  E(x | stopped by n) = sum_{k<=n} k 2^-k / (1-2^-n)
import fractions
F=fractions.Fraction
print("truth:", [sum(F(k,2**k) for k in range(1,i+1))/(1-F(1,2**i)) for i in range(1,6)])
from invariants.exponent_lattice import ExponentLattice
print(ExponentLattice([sympy.Integer(4), sympy.Integer(8)]).compute_basis())
