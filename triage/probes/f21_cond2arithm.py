"""F21: --cond2arithm on a program with a draw inside a branch.  Before the repair: AttributeError ('DistAssignment' object has no
attribute 'get_assign_type').  After: the closed forms equal the ones of the default strategy (and the hand-computed values)."""
import sys, os
sys.path.insert(0, os.environ.get("POLAR", os.getcwd()))
import sympy
import settings
from inputparser import Parser
from program import normalize_program
from recurrences import RecBuilder
from recurrences.solver import RecurrenceSolver
from symengine.lib.symengine_wrapper import sympify

PROGS = {
 "discrete": ("x = 0\ny = 0\nc = 0\nwhile true:\n    c = Bernoulli(1/2)\n    if c == 1:\n        y = Bernoulli(1/3)\n    else:\n        y = DiscreteUniform(2, 4)\n    end\n    x = x + y\nend\n", ["x", "y**2", "x*y"]),
 "normal": ("x = 0\ny = 0\nc = 0\nwhile true:\n    c = Bernoulli(1/2)\n    if c == 1:\n        y = Normal(1, 4)\n    end\n    x = x + y**2\nend\n", ["x", "y**2", "y**3"]),
 "guarded": ("x = 0\ns = 0\nd = 0\nwhile s == 0:\n    d = Categorical(1/4, 1/4, 1/2)\n    x = x + d\n    s = Bernoulli(1/3)\nend\n", ["x", "x**2"]),
 "param": ("x = 0\nb = 0\nu = 0\nwhile true:\n    b = Bernoulli(p)\n    if b == 1:\n        u = Uniform(0, 2)\n        x = x + u\n    end\nend\n", ["x", "x**2"]),
}
n = sympy.Symbol("n", integer=True)
bad = 0
def forms(src, mons, c2a):
    settings.cond2arithm = c2a
    try:
        p = normalize_program(Parser().parse_string(src))
        out = []
        for m in mons:
            m = sympify(m)
            s = RecurrenceSolver(RecBuilder(p).get_recurrences(m), False, False, 0)
            out.append(sympy.sympify(str(s.get(m))))
        return out
    finally:
        settings.cond2arithm = False
for name, (src, mons) in PROGS.items():
    try:
        a = forms(src, mons, False)
        b = forms(src, mons, True)
    except Exception as e:
        print(name, "EXCEPTION", type(e).__name__, e)
        bad += 1
        continue
    for m, fa, fb in zip(mons, a, b):
        same = all(sympy.simplify(fa.subs({n: i}) - fb.subs({n: i})) == 0 for i in range(0, 6))
        print(name, m, "default:", fa, "| cond2arithm:", fb, "ok" if same else "DIFFERENT")
        bad += not same
sys.exit(1 if bad else 0)
