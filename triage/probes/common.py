import sys, os
sys.path.insert(0, os.environ.get('POLAR','/repo'))
os.chdir(os.environ.get('POLAR','/repo'))
from inputparser import Parser
from program import normalize_program
from recurrences import RecBuilder
from recurrences.solver import RecurrenceSolver
from symengine.lib.symengine_wrapper import sympify
import sympy

def closed(src, goal, **kw):
    p = Parser().parse_string(src)
    p = normalize_program(p)
    rb = RecBuilder(p)
    recs = rb.get_recurrences(sympify(goal))
    s = RecurrenceSolver(recs, **kw)
    return s.get(sympify(goal)), s.is_exact, p

def vals(expr, N=6):
    n = sympy.Symbol('n', integer=True)
    return [sympy.simplify(expr.subs(n, i)) for i in range(N)]
