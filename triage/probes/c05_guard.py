from common import *
src = """
x = 0
stop = 0
while stop == 0:
    x = 5
    x = x + 1
    stop = Bernoulli(1/2)
end
"""
e, ex, p = closed(src, "x")
print(p); print(e); print(vals(e, 5), "truth 0,6,6,6,6")
