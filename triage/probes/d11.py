from common import *
import settings
settings.exact_func_moments = True
src = """
x = 0
s = 0
b = 0
while true:
    b = Bernoulli(1/2)
    x = Normal(0,1)
    if b == 1:
        s = Cos(x)
    end
end
"""
for c2a in [False, True]:
    settings.cond2arithm = c2a
    try:
        e, ex, p = closed(src, "s")
        print("cond2arithm", c2a, [str(a) for a in p.loop_body]); print("  E(s)=", e, [sympy.N(v,5) for v in vals(e,4)])
    except Exception as err:
        print("cond2arithm", c2a, "EXC", type(err).__name__, err)
settings.cond2arithm = False
# D14
src = """
x = 0
x = x + 1
y = 0
while true:
    if x == 1:
        y = y + 1
    end
    x = x*x
end
"""
e, ex, p = closed(src, "y")
print(p); print(e, vals(e, 4), "truth [0,1,2,3]")
