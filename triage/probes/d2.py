from common import *
src = """
x = 2
c = x
while true:
    x = x + c
end
"""
e, ex, p = closed(src, "x")
print(p); print(e, vals(e))
src = """
x = 2
c = x + 1
y = 0
while true:
    x = x + 1
    y = y + c
end
"""
e, ex, p = closed(src, "y")
print(p); print(e, vals(e))
