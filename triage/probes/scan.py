import ast, glob, os
root='/repo'
files=[f for f in glob.glob(root+'/**/*.py', recursive=True) if '/tests/' not in f and '/benchmarks/' not in f]
for f in files:
    src=open(f).read(); tree=ast.parse(src)
    rel=os.path.relpath(f,root)
    for node in ast.walk(tree):
        if isinstance(node, ast.BoolOp):
            dumps=[ast.dump(v) for v in node.values]
            if len(set(dumps))<len(dumps): print('DUP-OPERAND', rel, node.lineno)
        if isinstance(node, ast.Compare) and len(node.comparators)==1 and ast.dump(node.left)==ast.dump(node.comparators[0]):
            print('SELF-COMPARE', rel, node.lineno)
        if isinstance(node, ast.Expr) and isinstance(node.value, ast.Call) and isinstance(node.value.func, ast.Attribute):
            name=node.value.func.attr
            if name in ('subs','xreplace','expand','simplify','copy','union','difference','intersection','strip','replace','lower','upper','row_del','row_insert','col_insert'):
                print('DISCARDED-RESULT', rel, node.lineno, ast.unparse(node.value)[:80])
        if isinstance(node, ast.FunctionDef):
            # mutable default args
            for d in node.args.defaults+node.args.kw_defaults:
                if d is not None and isinstance(d,(ast.Call,ast.List,ast.Dict,ast.Set)):
                    print('MUTABLE-DEFAULT', rel, node.lineno, node.name, ast.unparse(d))
            # code after raise
    for node in ast.walk(tree):
        if isinstance(node,(ast.FunctionDef,ast.If,ast.For,ast.While,ast.Try,ast.ExceptHandler,ast.With)):
            for body in [getattr(node,'body',[]), getattr(node,'orelse',[])]:
                for i,st in enumerate(body[:-1]):
                    if isinstance(st,(ast.Raise,ast.Return,ast.Continue,ast.Break)):
                        print('DEAD-CODE-AFTER', rel, st.lineno)
