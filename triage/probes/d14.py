from common import *
import settings
settings.exact_func_moments = False
src = """
x = 0
s = 0
while true:
    x = Normal(0,1)
    s = Cos(x)
end
"""
e, ex, p = closed(src, "s")
print("rounded mode: E(s) =", e.args[-1][0], "is_exact flag:", ex)
src = """
c = 2
s = 0
while true:
    s = Sin(c)
end
"""
try:
    e, ex, p = closed(src, "s"); print(e, ex)
except Exception as err:
    print("Sin(c) with const var: EXC", type(err).__name__, err)
src = """
s = 0
while true:
    x = Normal(0,1)
    s = Sin(x)
    x = Normal(0,4)
end
"""
try:
    e, ex, p = closed(src, "s"); print(p); print(e, ex)
except Exception as err:
    print("renamed arg: EXC", type(err).__name__, err)
