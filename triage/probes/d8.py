from common import *
src = """
x = 1
y = 0
while true:
    x, y = 0-y, x
end
"""
e, ex, p = closed(src, "x", force_cyclic_solver=True)
print("exact:", e.args[-1][0], ex, vals(e, 8))
e, ex, p = closed(src, "x", numeric_roots=True, force_cyclic_solver=True)
print("numeric:", e.args[-1][0], ex, vals(e, 8))
src = """
a = 1
b = 1
c = 0
while true:
    a, b, c = b, c, a + b/2
end
"""
for kw in [dict(), dict(numeric_roots=True), dict(numeric_croots=True)]:
    try:
        e, ex, p = closed(src, "a", **kw)
        print(kw, "is_exact", ex, [sympy.N(v, 6) for v in vals(e, 9)])
    except Exception as err:
        print(kw, "EXC", type(err).__name__, err)
