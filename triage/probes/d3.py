from common import *
import settings
settings.exact_func_moments = True
src = """
x = 0
s = 0
w = 0
z = 0
while true:
    x = Normal(0,1)
    s = Sin(x)
    w = Exp(x)
    z = s*w
end
"""
try:
    ex, _, p = closed(src, "z")
    print(p); print(ex)
except Exception as e:
    import traceback; traceback.print_exc()
# truth: E[sin(X) e^X] = Im E[e^{(1+i)X}] = Im exp((1+i)^2/2) = Im exp(i) = sin(1)
