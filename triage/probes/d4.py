from common import *
from program.distribution import TruncNormal, Bernoulli, DiscreteUniform, Uniform
d = TruncNormal(["1","4","0","2"])
s = [d.sample({}) for _ in range(2000)]
print("TruncNormal(1,4,0,2) support", d.get_support(), "sample min/max", min(s), max(s), "mean", sum(s)/len(s), "moment1", float(d.get_moment(1)))
print("Bernoulli moment0", Bernoulli(["1/3"]).get_moment(0))
du = DiscreteUniform(["1","3"])
print("DU cf(0)", du.cf(0), "mgf(0)", du.mgf(0))
import sympy
t = sympy.Symbol('t')
print("Uniform d/dt cf at 0:", sympy.diff(Uniform(["0","1"]).cf(t), t, 1).xreplace({t:0}))
