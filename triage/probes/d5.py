from common import *
src = """
y = 0
x = 0
while true:
    x = y
    y = 5
end
"""
e, ex, p = closed(src, "x")
print(e, vals(e), "truth [0,0,5,5,5,5]")
e2, ex, p = closed(src, "x", force_cyclic_solver=True)
print("cyclic:", e2, vals(e2))
# D6
src = """
x = 1
y = 2
w = 3
v = 5
u = 7
while true:
    x, y, w, v, u = y + w, x, v, u, 0
end
"""
e, ex, p = closed(src, "x")
print(p)
print(e, vals(e, 9))
# truth by simulation
x,y,w,v,u = 1,2,3,5,7
tr=[x]
for i in range(8):
    x,y,w,v,u = y+w, x, v, u, 0
    tr.append(x)
print("truth", tr)
