from common import *
from invariants.exponent_lattice import ExponentLattice
import sympy
for bases in [[4,8],[4,sympy.Rational(1,2)],[2,4,8],[-2,4],[1,3],[sympy.Rational(2,3), sympy.Rational(4,9)], [-1, 1], [-1,-1], [9, 27, 3]]:
    try:
        b = ExponentLattice([sympy.sympify(x) for x in bases]).compute_basis()
        chk = [sympy.prod([sympy.sympify(x)**e for x,e in zip(bases, v)]) for v in b]
        print(bases, '=>', b, 'products', chk)
    except Exception as e:
        print(bases, 'EXC', type(e).__name__, e)
