from common import *
import settings
settings.exact_func_moments = True
for dist, goal in [("DiscreteUniform(1,3)", "c**2"), ("Uniform(0,1)", "c**2"), ("Uniform(0,1)", "x*c**2"), ("Normal(0,1)", "x*c**2"), ("Bernoulli(1/2)", "c**2"), ("DiscreteUniform(0,6)", "c")]:
    src = f"""
x = 0
c = 0
while true:
    x = {dist}
    c = Cos(x)
end
"""
    try:
        ex, _, p = closed(src, goal)
        print(dist, goal, '=>', ex.args[-1][0])
    except Exception as e:
        print(dist, goal, '=> EXC', type(e).__name__, str(e)[:150])
