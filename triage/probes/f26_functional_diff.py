"""F26: recurrences of the functional benchmarks before / after the placeholder repair are identical (unconditioned functional
assignments), and the conditioned case agrees with the hand-computed value.   usage (cwd = a tree): python f26_functional_diff.py > out"""
import sys, os, glob
sys.path.insert(0, os.getcwd())
from inputparser import Parser
from program import normalize_program
from recurrences import RecBuilder
from symengine.lib.symengine_wrapper import sympify
files = sorted(set(glob.glob("benchmarks/trig_benchmarks/*.prob") + glob.glob("benchmarks/exp_benchmarks/*.prob") + glob.glob("tests/benchmarks/*trig*.prob") +
                   glob.glob("tests/benchmarks/*exp*.prob") + glob.glob("tests/benchmarks/turning*.prob") + glob.glob("tests/benchmarks/uncertain*.prob") + glob.glob("benchmarks/bellairs/robot*.prob")))
for f in files:
    try:
        p = normalize_program(Parser().parse_file(f))
        rb = RecBuilder(p)
        vs = sorted(p.variables, key=str)[:8]
        for v in vs:
            for k in (1, 2):
                try:
                    r = rb.get_recurrence(sympify(v) ** k)
                    print(f, v, k, r)
                except Exception as e:
                    print(f, v, k, "EXC", type(e).__name__, str(e)[:80])
    except Exception as e:
        print(f, "EXC", type(e).__name__, str(e)[:80])
