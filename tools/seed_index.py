#!/usr/bin/env python3
"""Re-evaluate every kept seeded change (seeded/<id>/) and (re)write its meta.json and seeded/INDEX.md.
usage: python3 tools/seed_index.py [--tests] [ids...]"""
import json, os, subprocess, sys, re
VERIF = os.path.dirname(os.path.dirname(os.path.abspath(__file__)))
args = [a for a in sys.argv[1:] if not a.startswith("--")]
tests = "--tests" in sys.argv
ids = args or sorted(d for d in os.listdir(os.path.join(VERIF, "seeded")) if os.path.isdir(os.path.join(VERIF, "seeded", d)))
from concurrent.futures import ThreadPoolExecutor
def run(i):
    d = os.path.join(VERIF, "seeded", i)
    cmd = ["python3", os.path.join(VERIF, "tools", "seed_eval.py"), d] + (["--tests"] if tests else [])
    out = subprocess.run(cmd, stdout=subprocess.PIPE, stderr=subprocess.STDOUT, text=True).stdout
    try:
        r = json.loads(out[out.index("{"):])
    except Exception:
        r = {"error": out[-500:]}
    meta_p = os.path.join(d, "meta.json")
    meta = json.load(open(meta_p)) if os.path.exists(meta_p) else {}
    prop = i.split("-")[0]
    notes = open(os.path.join(d, "notes.md")).read() if os.path.exists(os.path.join(d, "notes.md")) else ""
    meta.setdefault("id", i)
    meta["breaks_property"] = prop
    meta.setdefault("origin", "sub-agent that saw only the property text and a private worktree")
    meta.setdefault("needs_to_manifest", "")
    meta["confirmed"] = {"demo_exit_clean_tree": r.get("demo_clean_rc"), "demo_exit_changed_tree": r.get("demo_changed_rc"),
                         "compiles": r.get("compile_rc") == 0, **({"suite": r.get("tests_summary"), "unexpected_test_failures": r.get("tests_unexpected_failures")} if tests else meta.get("confirmed", {}).get("suite") and {"suite": meta["confirmed"]["suite"], "unexpected_test_failures": meta["confirmed"].get("unexpected_test_failures")} or {})}
    meta["what_was_run"] = "tools/seed_eval.py: scratch git worktree of /repo HEAD; demo.py before/after `git apply patch.diff`; pinned suite with -n 8 (flaky synthesis tests re-run alone); every claimed property's quick check with --root <scratch>"
    meta["checks_reporting_it"] = r.get("fired", [])
    meta["analysis_errors"] = r.get("analysis_errors", [])
    meta["reports"] = r.get("details", {})
    json.dump(meta, open(meta_p, "w"), indent=1)
    return i, meta
with ThreadPoolExecutor(max_workers=4 if tests else 8) as ex:
    res = list(ex.map(run, ids))
# index over all seeds
rows = []
for i in sorted(d for d in os.listdir(os.path.join(VERIF, "seeded")) if os.path.isdir(os.path.join(VERIF, "seeded", d))):
    p = os.path.join(VERIF, "seeded", i, "meta.json")
    if not os.path.exists(p):
        continue
    m = json.load(open(p))
    own = m["breaks_property"] in m.get("checks_reporting_it", [])
    rows.append(f"| {i} | {m['breaks_property']} | {m.get('summary','')} | {'yes' if own else 'NO'} | {', '.join(m.get('checks_reporting_it', [])) or '-'} | {m.get('static_reach','')} |")
with open(os.path.join(VERIF, "seeded", "INDEX.md"), "w") as f:
    f.write("# Seeded behaviour-breaking changes\n\nEach directory holds patch.diff (applies to /repo HEAD), demo.py (exit 0 before / non-zero after), notes.md (author's notes) and meta.json.\n"
            "Regenerate with `python3 tools/seed_index.py [--tests]`.\n\n| id | property | change | caught by its property's check | all checks reporting it | remark |\n|---|---|---|---|---|---|\n" + "\n".join(rows) + "\n")
for i, m in res:
    print(i, m["confirmed"], m["checks_reporting_it"], m["analysis_errors"])
