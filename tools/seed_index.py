#!/usr/bin/env python3
"""Re-evaluate every kept seeded change (seeded/<id>/) and (re)write its meta.json and seeded/INDEX.md.
usage: python3 tools/seed_index.py [--tests] [ids...]"""
import json, os, subprocess, sys, re
VERIF = os.path.dirname(os.path.dirname(os.path.abspath(__file__)))
args = [a for a in sys.argv[1:] if not a.startswith("--")]
tests = "--tests" in sys.argv
ids = args or sorted(d for d in os.listdir(os.path.join(VERIF, "seeded")) if os.path.isdir(os.path.join(VERIF, "seeded", d)))
from concurrent.futures import ThreadPoolExecutor
def run(i):
    d = os.path.join(VERIF, "seeded", i)
    mp0 = os.path.join(d, "meta.json")
    if os.path.exists(mp0) and json.load(open(mp0)).get("retired"):
        return i, json.load(open(mp0))
    cmd = ["python3", os.path.join(VERIF, "tools", "seed_eval.py"), d] + (["--tests"] if tests else [])
    out = subprocess.run(cmd, stdout=subprocess.PIPE, stderr=subprocess.STDOUT, text=True).stdout
    try:
        r = json.loads(out[out.index("{"):])
    except Exception:
        r = {"error": out[-500:]}
    meta_p = os.path.join(d, "meta.json")
    meta = json.load(open(meta_p)) if os.path.exists(meta_p) else {}
    prop = i.split("-")[0]
    notes = open(os.path.join(d, "notes.md")).read() if os.path.exists(os.path.join(d, "notes.md")) else ""
    meta.setdefault("id", i)
    meta["breaks_property"] = prop
    meta.setdefault("origin", "sub-agent that saw only the property text and a private worktree")
    meta.setdefault("needs_to_manifest", "")
    meta["confirmed"] = {"demo_exit_clean_tree": r.get("demo_clean_rc"), "demo_exit_changed_tree": r.get("demo_changed_rc"),
                         "compiles": r.get("compile_rc") == 0, **({"suite": r.get("tests_summary"), "unexpected_test_failures": r.get("tests_unexpected_failures")} if tests else meta.get("confirmed", {}).get("suite") and {"suite": meta["confirmed"]["suite"], "unexpected_test_failures": meta["confirmed"].get("unexpected_test_failures")} or {})}
    meta["what_was_run"] = "tools/seed_eval.py: scratch git worktree of /repo HEAD; demo.py before/after `git apply patch.diff`; pinned suite with -n 8 (flaky synthesis tests re-run alone); every claimed property's quick check with --root <scratch>"
    meta["checks_reporting_it"] = r.get("fired", [])
    meta["analysis_errors"] = r.get("analysis_errors", [])
    meta["reports"] = r.get("details", {})
    json.dump(meta, open(meta_p, "w"), indent=1)
    return i, meta
with ThreadPoolExecutor(max_workers=4 if tests else 8) as ex:
    res = list(ex.map(run, ids))
# index over all seeds
import re as _re
first = {}
fp = os.path.join(VERIF, "seeded", "first_evaluation.json")
if os.path.exists(fp):
    first = json.load(open(fp))
rows = []
for i in sorted(d for d in os.listdir(os.path.join(VERIF, "seeded")) if os.path.isdir(os.path.join(VERIF, "seeded", d))):
    p = os.path.join(VERIF, "seeded", i, "meta.json")
    if not os.path.exists(p):
        continue
    m = json.load(open(p))
    npath = os.path.join(VERIF, "seeded", i, "notes.md")
    title = m.get("summary", "")
    if not title and os.path.exists(npath):
        for line in open(npath):
            line = line.strip().lstrip("#").strip()
            if line:
                title = _re.sub(r"^(C\d\d\s*[/,-]?\s*)?(seed(ed)?|change|demo)\s*\d*\s*[-:–—]*\s*", "", line, flags=_re.I)[:140]
                break
    prop = m["breaks_property"]
    if m.get("retired"):
        rows.append(f"| {i} | {prop} | {title} | retired | - | {m['retired'][:160]} |")
        continue
    own = prop in m.get("checks_reporting_it", [])
    rules = sorted(set(_re.findall(r"\[([A-Za-z0-9-]+)\]", " ".join(m.get("reports", {}).get(prop, [])))))
    others = [c for c in m.get("checks_reporting_it", []) if c != prop]
    fe = first.get(i)
    fe_txt = "" if fe is None else ("yes" if prop in fe else "no")
    conf = m.get("confirmed", {})
    okc = conf.get("demo_exit_clean_tree") == 0 and conf.get("demo_exit_changed_tree") not in (0, None) and conf.get("compiles")
    suite = conf.get("unexpected_test_failures")
    rows.append(f"| {i} | {prop} | {title} | {'yes' if own else 'NO'} ({', '.join(rules) or '-'}) | {', '.join(others) or '-'} | first evaluation: {fe_txt or 'n/a'}; demo {'ok' if okc else 'NOT CONFIRMED'}; suite {'passes' if suite == [] else ('n/a' if suite is None else 'FAILS ' + str(suite))} |")
with open(os.path.join(VERIF, "seeded", "INDEX.md"), "w") as f:
    f.write("# Seeded behaviour-breaking changes\n\nEach directory holds patch.diff (applies to /repo HEAD), demo.py (exit 0 before / non-zero after), notes.md (author's notes) and meta.json.\n"
            "Regenerate with `python3 tools/seed_index.py [--tests]`.  `first evaluation` = whether the property's own check reported the change when it was first run against it "
            "(before any strengthening; recorded per seed from round 2b on, in aggregate for the earlier rounds: see DESIGN.md section 12).\n\n"
            "| id | property | change | caught by its property's check now (rules) | other checks reporting it | confirmation |\n|---|---|---|---|---|---|\n" + "\n".join(rows) + "\n")
for i, m in res:
    print(i, m["confirmed"], m["checks_reporting_it"], m["analysis_errors"])
