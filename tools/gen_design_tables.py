#!/usr/bin/env python3
"""Regenerate the generated part of DESIGN.md section 4.0 (rule composition per property, rule table with today's instance
counts) from check.py and a run of every rule on /repo.   usage: python3 tools/gen_design_tables.py"""
import os, re, sys
VERIF = os.path.dirname(os.path.dirname(os.path.abspath(__file__)))
sys.path.insert(0, VERIF)
import check  # noqa
from polarlint.model import Repo  # noqa
repo = Repo(os.environ.get("POLAR_ROOT", "/repo"))
lines = []
for pid, pr in check.PROPERTIES.items():
    parts = []
    for sp in pr["specs"]:
        pat = getattr(sp.include, "pattern", sp.include)
        parts.append(f"`{sp.rid}`" + (f" (only `{pat}`)" if sp.include else ""))
    lines.append(f"**{pid}** — " + ", ".join(parts) + "\n")
lines.append("")
lines.append("| rule id | reports as | instances today (floor) | necessary condition it decides |")
lines.append("|---|---|---|---|")
used = {sp.rid for pr in check.PROPERTIES.values() for sp in pr["specs"]}
for rid in sorted(check.R):
    if rid not in used:
        continue
    r = check.R[rid]
    obs = r.run(repo)
    fam = sorted({o.rule for o in obs})
    lines.append(f"| `{rid}` | {', '.join(fam) or r.id} | {len(obs)} ({r.floor}) | {r.doc} |")
block = "\n".join(lines) + "\n"
p = os.path.join(VERIF, "DESIGN.md")
s = open(p).read()
m = re.search(r"(\*\*C01\*\* — .*?\n)(\n\n### C01 )", s, re.S)
start = s.index("**C01** — ")
end = s.index("\n\n### C01 ")
s = s[:start] + block + s[end:]
open(p, "w").write(s)
print("section 4.0 regenerated:", len(used), "rules,", len(check.PROPERTIES), "properties")
