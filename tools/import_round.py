#!/usr/bin/env python3
"""Import sub-agent deliveries:  python3 tools/import_round.py seeded|benign <prop> <srcdir>   (srcdir holds 1/ 2/ [3/])
Copies patch.diff + demo.py|equiv.py + notes.md (+ harness.py) to the next free <kind>/<prop>-k and prints the new ids."""
import os, shutil, sys
VERIF = os.path.dirname(os.path.dirname(os.path.abspath(__file__)))
kind, prop, src = sys.argv[1:4]
base = os.path.join(VERIF, kind)
have = [int(d.split("-")[1]) for d in os.listdir(base) if d.startswith(prop + "-") and d.split("-")[1].isdigit()]
nxt = max(have, default=0) + 1
new = []
for k in sorted(d for d in os.listdir(src) if d.isdigit()):
    s = os.path.join(src, k)
    if not os.path.isfile(os.path.join(s, "patch.diff")):
        continue
    d = os.path.join(base, f"{prop}-{nxt}")
    os.makedirs(d)
    for f in ("patch.diff", "demo.py", "equiv.py", "notes.md", "harness.py"):
        if os.path.isfile(os.path.join(s, f)):
            shutil.copy(os.path.join(s, f), d)
    if os.path.isfile(os.path.join(src, "harness.py")):
        shutil.copy(os.path.join(src, "harness.py"), d)
    new.append(f"{prop}-{nxt}")
    nxt += 1
print(" ".join(new))
