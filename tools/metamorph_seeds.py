#!/usr/bin/env python3
"""Robustness of *detection* (development aid, not a registered check): every kept seeded change is combined with every
behaviour-preserving transformation of tools/metamorph.py applied to the files the seed touches; the property's rules
must still report the seed.  A lost detection shows a rule that recognises the broken shape only in one spelling.
usage: python3 tools/metamorph_seeds.py [seed ids...]"""
import ast, json, os, sys, multiprocessing as mp
VERIF = os.path.dirname(os.path.dirname(os.path.abspath(__file__)))
sys.path.insert(0, VERIF)
sys.path.insert(0, os.path.join(VERIF, "tools"))
sys.argv, ARGS = sys.argv[:1], sys.argv[1:]
import metamorph as M  # noqa  (computes the clean baseline on import)
import check  # noqa
from polarlint.model import Repo, AnalysisError  # noqa
from polarlint.patch import overrides_from_patch, PatchError  # noqa

repo = M.repo
TASKS = []
BASES = {}
for vid in sorted(os.listdir(os.path.join(VERIF, "seeded"))):
    d = os.path.join(VERIF, "seeded", vid)
    pp = os.path.join(d, "patch.diff")
    if not os.path.isfile(pp) or (ARGS and vid not in ARGS):
        continue
    mpth = os.path.join(d, "meta.json")
    if os.path.isfile(mpth) and json.load(open(mpth)).get("retired"):
        continue
    prop = vid.split("-")[0]
    if prop not in check.PROPERTIES:
        continue
    try:
        ov = overrides_from_patch(repo.root, open(pp).read(), {})
    except PatchError as e:
        print("skip", vid, e)
        continue
    kinds = sorted(M.TRANSFORMS)
    if os.environ.get("METAMORPH_PAIRS"):
        import random
        rnd = random.Random(hash(vid) % 1000 + int(os.environ["METAMORPH_PAIRS"]))
        kinds = ["+".join(rnd.sample(sorted(M.TRANSFORMS), 3)) for _ in range(8)]
    for kind in kinds:
        TASKS.append((vid, prop, kind, ov))


def base_of(prop):
    if prop not in BASES:
        BASES[prop] = check._selected_violations(repo, check.PROPERTIES[prop]["specs"])
    return BASES[prop]


def work(i):
    vid, prop, kind, ov = TASKS[i]
    specs = check.PROPERTIES[prop]["specs"]
    out = dict(ov)
    applied = False
    for rp, text in ov.items():
        if not rp.endswith(".py") or text is None:
            continue
        try:
            tree = ast.parse(text)
            hit = False
            for k1 in kind.split("+"):
                hit = M.TRANSFORMS[k1](tree, M._All()) or hit
            if hit:
                ast.fix_missing_locations(tree)
                new = ast.unparse(tree)
                ast.parse(new)
                out[rp] = new
                applied = True
        except Exception:
            pass
    if not applied:
        return vid, kind, None, ""
    try:
        plain = check._selected_violations(Repo(repo.root, overrides=ov), specs) - base_of(prop)
        if not plain:
            return vid, kind, None, "seed not detected even untransformed"
        new = check._selected_violations(Repo(repo.root, overrides=out), specs) - base_of(prop)
    except AnalysisError as e:
        return vid, kind, True, f"analysis error (fails closed): {e}"
    return vid, kind, bool(new), "" if new else "lost: " + sorted(plain)[0][:150]


if __name__ == "__main__":
    for p in {t[1] for t in TASKS}:
        base_of(p)
    with mp.get_context("fork").Pool(16) as pool:
        res = pool.map(work, range(len(TASKS)), chunksize=2)
    lost = [(v, k, d) for v, k, ok, d in res if ok is False]
    for v, k, d in lost:
        print(f"{v:8s} {k:9s} {d}")
    print("seed x transformation pairs:", len(res), "applied:", sum(1 for r in res if r[2] is not None), "detection lost:", len(lost))
