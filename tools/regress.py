#!/usr/bin/env python3
"""Regression over all kept variants: seeded/<id> must be reported by the check of the property it breaks,
benign/<id> must be reported by nobody and cause no analysis error.
usage: python3 tools/regress.py [ids...] [-v]"""
import json, os, subprocess, sys
from concurrent.futures import ThreadPoolExecutor
VERIF = os.path.dirname(os.path.dirname(os.path.abspath(__file__)))
verbose = "-v" in sys.argv
want = [a for a in sys.argv[1:] if not a.startswith("-")]
items = []
for kind in ("seeded", "benign"):
    base = os.path.join(VERIF, kind)
    if os.path.isdir(base):
        for i in sorted(os.listdir(base)):
            if os.path.isfile(os.path.join(base, i, "patch.diff")) and (not want or i in want or kind in want):
                mp = os.path.join(base, i, "meta.json")
                if os.path.isfile(mp) and json.load(open(mp)).get("retired"):
                    print(f"{kind:7s} {i:8s} retired: {json.load(open(mp))['retired'][:120]}")
                    continue
                items.append((kind, i))
def run(it):
    kind, i = it
    d = os.path.join(VERIF, kind, i)
    # demo is not re-run here (fast path): temporarily hide it by passing a copy dir? seed_eval runs demo if present -> acceptable for seeds; skip for speed
    tmp = os.path.join("/tmp", f"regress_{kind}_{i}")
    os.makedirs(tmp, exist_ok=True)
    subprocess.run(["cp", os.path.join(d, "patch.diff"), tmp])
    out = subprocess.run(["python3", os.path.join(VERIF, "tools", "seed_eval.py"), tmp], stdout=subprocess.PIPE, stderr=subprocess.STDOUT, text=True).stdout
    subprocess.run(["rm", "-rf", tmp])
    try:
        r = json.loads(out[out.index("{"):])
    except Exception:
        r = {"error": out[-300:]}
    return kind, i, r
bad = 0
with ThreadPoolExecutor(max_workers=6) as ex:
    for kind, i, r in ex.map(run, items):
        fired, errs = r.get("fired", []), r.get("analysis_errors", [])
        if r.get("error"):
            status = "ERROR " + r["error"][:100]; bad += 1
        elif kind == "seeded":
            prop = i.split("-")[0]
            ok = prop in fired
            status = ("caught" if ok else "MISSED") + f" fired={fired}" + (f" ERR={errs}" if errs else "")
            bad += (not ok) or bool(errs)
        else:
            ok = not fired and not errs
            status = ("silent" if ok else "FALSE-ALARM") + (f" fired={fired}" if fired else "") + (f" ERR={errs}" if errs else "")
            bad += not ok
        print(f"{kind:7s} {i:8s} {status}")
        if verbose and (fired or errs):
            for p, ds in r.get("details", {}).items():
                if kind == "benign" or p in errs:
                    for dline in ds:
                        print("         ", p, dline[:200])
print("problems:", bad)
