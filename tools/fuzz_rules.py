#!/usr/bin/env python3
"""Robustness fuzzing of the rules (development aid, not a registered check): random syntactic edits of /repo's
sources (statement deletion, operand swap, comparison flip, literal change, early return insertion) are analysed in
memory; any rule that ends in a Python exception other than AnalysisError is reported.
usage: python3 tools/fuzz_rules.py [N] [seed]"""
import ast, os, random, sys, traceback, multiprocessing as mp
VERIF = os.path.dirname(os.path.dirname(os.path.abspath(__file__)))
sys.path.insert(0, VERIF)
import check  # noqa
from polarlint.model import Repo, AnalysisError  # noqa

N = int(sys.argv[1]) if len(sys.argv) > 1 else 200
SEED = int(sys.argv[2]) if len(sys.argv) > 2 else 1
repo = Repo("/repo")
files = set()
for rid, r in check.R.items():
    try:
        files |= {o.file for o in r.run(repo) if o.file.endswith(".py")}
    except Exception:
        pass
files = sorted(files)


def mutate(src, rng):
    tree = ast.parse(src)
    nodes = list(ast.walk(tree))
    kind = rng.choice(["del", "swap", "cmp", "const", "ret", "rename", "boolop", "unwrap"])
    try:
        if kind == "del":
            owners = [(n, f) for n in nodes for f in ("body", "orelse", "finalbody") if isinstance(getattr(n, f, None), list) and len(getattr(n, f)) > 1]
            n, f = rng.choice(owners)
            blk = getattr(n, f)
            del blk[rng.randrange(len(blk))]
        elif kind == "swap":
            b = rng.choice([n for n in nodes if isinstance(n, ast.BinOp)])
            b.left, b.right = b.right, b.left
        elif kind == "cmp":
            c = rng.choice([n for n in nodes if isinstance(n, ast.Compare)])
            c.ops = [rng.choice([ast.Lt, ast.LtE, ast.Gt, ast.GtE, ast.Eq, ast.NotEq, ast.In, ast.NotIn, ast.Is])() for _ in c.ops]
        elif kind == "const":
            c = rng.choice([n for n in nodes if isinstance(n, ast.Constant)])
            c.value = rng.choice([0, 1, -1, 2, "x", None, True, False, 0.5])
        elif kind == "ret":
            fn = rng.choice([n for n in nodes if isinstance(n, ast.FunctionDef)])
            fn.body.insert(rng.randrange(len(fn.body) + 1), ast.Return(value=rng.choice([None, ast.Constant(value=None), ast.Name(id="self", ctx=ast.Load())])))
        elif kind == "rename":
            names = [n for n in nodes if isinstance(n, ast.Name)]
            a, b = rng.choice(names), rng.choice(names)
            a.id = b.id
        elif kind == "boolop":
            b = rng.choice([n for n in nodes if isinstance(n, ast.BoolOp)])
            b.op = ast.Or() if isinstance(b.op, ast.And) else ast.And()
        elif kind == "unwrap":
            c = rng.choice([n for n in nodes if isinstance(n, ast.Call) and n.args])
            for p in nodes:
                for f, v in ast.iter_fields(p):
                    if v is c:
                        setattr(p, f, c.args[0])
                    elif isinstance(v, list) and c in v:
                        v[v.index(c)] = c.args[0]
        ast.fix_missing_locations(tree)
        out = ast.unparse(tree)
        ast.parse(out)
        return kind, out
    except Exception:
        return None, None


def work(i):
    rng = random.Random(SEED * 100003 + i)
    rp = rng.choice(files)
    kind, out = mutate(repo.modules[rp].source if hasattr(repo.modules[rp], "source") else open(os.path.join("/repo", rp)).read(), rng)
    if out is None:
        return []
    res = []
    try:
        variant = Repo("/repo", overrides={rp: out})
    except Exception as e:
        return [(rp, kind, "<model>", type(e).__name__ + ": " + str(e)[:150])]
    for rid, r in check.R.items():
        try:
            r.run(variant)
        except AnalysisError:
            pass
        except Exception as e:
            tb = traceback.extract_tb(e.__traceback__)[-1]
            res.append((rp, kind, rid, f"{type(e).__name__}: {str(e)[:100]} @ {os.path.basename(tb.filename)}:{tb.lineno}"))
    return res


if __name__ == "__main__":
    with mp.get_context("fork").Pool(16) as pool:
        allres = pool.map(work, range(N), chunksize=2)
    crashes = {}
    for lst in allres:
        for rp, kind, rid, msg in lst:
            crashes.setdefault((rid, msg), []).append((rp, kind))
    for (rid, msg), where in sorted(crashes.items(), key=lambda kv: -len(kv[1])):
        print(f"{len(where):4d}  {rid:14s} {msg}   e.g. {where[0]}")
    print("mutants:", N, "applied:", sum(1 for l in allres if l is not None), "files:", len(files), "distinct crash signatures:", len(crashes))
