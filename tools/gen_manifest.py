#!/usr/bin/env python3
"""Rewrite the per-property texts of MANIFEST.json from check.py (clauses, techniques) and the fix census from known_findings.json."""
import json, os, sys
VERIF = os.path.dirname(os.path.dirname(os.path.abspath(__file__)))
sys.path.insert(0, VERIF)
import check  # noqa
m = json.load(open(os.path.join(VERIF, "MANIFEST.json")))
k = json.load(open(os.path.join(VERIF, "known_findings.json")))
have = {c["property_id"] for c in m["checks"]}
for pid in check.PROPERTIES:
    if pid not in have:
        m["checks"].append({"property_id": pid, "quick_cmd": f"python3 check.py {pid} --tier quick", "thorough_cmd": f"python3 check.py {pid} --tier thorough",
                            "evidence_file": f"/verif/evidence/{pid}.json", "replay_cmd_template": f"python3 check.py {pid} --replay {{path}}", "engine": "polarlint",
                            "level_claimed": {"category": "other", "text": "", "design_ref": f"DESIGN.md section 4 ({pid}), section 3 (rule families)"},
                            "level_note": m["checks"][0]["level_note"], "technique": ""})
m["checks"].sort(key=lambda c: c["property_id"])
m["not_applicable"] = [e for e in m["not_applicable"] if e["property_id"] not in check.PROPERTIES]
m["engines"][0]["serves_properties"] = sorted(check.PROPERTIES)
for c in m["checks"]:
    pid = c["property_id"]
    pr = check.PROPERTIES[pid]
    c["level_claimed"]["text"] = ("Static analysis of the current source tree (no execution): decides the structural clauses listed in DESIGN.md section 4 for this property, exhaustively over all "
                                  "instances in the tree. It is a sound decision of those clauses (necessary conditions of the property), not of the value-level behaviour: " + pr["clause"] +
                                  " A construct the rules cannot read is reported as INCONCLUSIVE (not discharged, not a violation).")
    c["technique"] = pr.get("technique", c["technique"])
commits = sorted({e["commit"] for e in k["fixed"] if e.get("commit")})
m["notes"] = ("Deciding step of every check is static analysis of /repo's working tree ($POLAR_ROOT / --root overrides). Exit 0 held / known findings only; 1 + VIOLATION line; 2 + ANALYSIS-ERROR. "
              f"/repo carries {len(commits)} 'fix:' commits (see known_findings.json 'fixed'); {len(k['known'])} known-finding entries remain ({', '.join(sorted({e['id'] for e in k['known']}))}).")
m["engines"][0]["kind_free_text"] = ("repository-specific static analyser on Python ast: class/field model, statement CFG with dominators and control dependence, def-use closure, helper-following with parameter binding, "
                                     "finite-domain evaluation of method bodies, exact rational-function normal form of source arithmetic, text-template model; rule families A-H, L, M, N (DESIGN.md section 3); "
                                     "positive-evidence policy (unreadable constructs are INCONCLUSIVE, never a violation)")
json.dump(m, open(os.path.join(VERIF, "MANIFEST.json"), "w"), indent=1)
print("MANIFEST.json rewritten:", len(m["checks"]), "checks;", len(commits), "fix commits")
