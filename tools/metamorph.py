#!/usr/bin/env python3
"""Metamorphic test of the checker (development aid, not a registered check): provably behaviour-preserving source
transformations are applied to /repo's files in memory and every rule is re-run; a violation that is not present on
the untransformed tree is a false alarm of the checker.

transformations
  swap    if c: A else: B            ->  if not c: B else: A
  rename  consistent renaming of the local variables of a function (not parameters, not globals/nonlocals)
  temp    return <expr>              ->  _r = <expr>; return _r
  unelse  if c: ...return  else: B   ->  if c: ...return ;  B
  alias   n_ = self.n at the top of a method and the loads of self.n replaced (only for attributes the method never stores)
  hoist   operands of arithmetic named first
  demorgan  not (a and b) <-> (not a) or (not b) on `if` tests
usage: python3 tools/metamorph.py [N] [seed]"""
import ast, copy, os, random, sys, multiprocessing as mp
VERIF = os.path.dirname(os.path.dirname(os.path.abspath(__file__)))
sys.path.insert(0, VERIF)
import check  # noqa
from polarlint.model import Repo, AnalysisError  # noqa

N = int(sys.argv[1]) if len(sys.argv) > 1 else 200
SEED = int(sys.argv[2]) if len(sys.argv) > 2 else 1
repo = Repo("/repo")
BASE = set()
FILES = set()
for rid, r in check.R.items():
    try:
        obs = r.run(repo)
    except Exception:
        continue
    BASE |= {o.full_key() for o in obs if not o.ok}
    FILES |= {o.file for o in obs if o.file.endswith(".py")}
FILES = sorted(FILES)


def funcs(tree):
    return [n for n in ast.walk(tree) if isinstance(n, (ast.FunctionDef, ast.AsyncFunctionDef))]


def t_swap(tree, rng):
    ifs = [n for n in ast.walk(tree) if isinstance(n, ast.If) and n.orelse and not (len(n.orelse) == 1 and isinstance(n.orelse[0], ast.If))]
    if not ifs:
        return False
    for n in rng.sample(ifs, max(1, len(ifs) // 2)):
        n.test = n.test.operand if isinstance(n.test, ast.UnaryOp) and isinstance(n.test.op, ast.Not) else ast.UnaryOp(op=ast.Not(), operand=n.test)
        n.body, n.orelse = n.orelse, n.body
    return True


def t_rename(tree, rng):
    fs = funcs(tree)
    if not fs:
        return False
    done = False
    for f in rng.sample(fs, max(1, len(fs) // 2)):
        inner = [n for n in ast.walk(f) if isinstance(n, (ast.FunctionDef, ast.AsyncFunctionDef, ast.Lambda, ast.ClassDef)) and n is not f]
        if inner:
            continue       # closures: renaming needs scope analysis
        params = {a.arg for a in f.args.posonlyargs + f.args.args + f.args.kwonlyargs} | ({f.args.vararg.arg} if f.args.vararg else set()) | ({f.args.kwarg.arg} if f.args.kwarg else set())
        glob = {nm for n in ast.walk(f) if isinstance(n, (ast.Global, ast.Nonlocal)) for nm in n.names}
        stored = {n.id for n in ast.walk(f) if isinstance(n, ast.Name) and isinstance(n.ctx, ast.Store)} - params - glob
        comp_targets = {n.id for c in ast.walk(f) if isinstance(c, ast.comprehension) for n in ast.walk(c.target) if isinstance(n, ast.Name)}
        stored -= comp_targets     # comprehension scopes
        loaded_before = set()
        if not stored:
            continue
        mapping = {nm: nm + "_r" for nm in stored}
        for n in ast.walk(f):
            if isinstance(n, ast.Name) and n.id in mapping:
                n.id = mapping[n.id]
            if isinstance(n, ast.ExceptHandler) and n.name in mapping:
                n.name = mapping[n.name]
        done = True
    return done


def t_temp(tree, rng):
    done = False
    for f in funcs(tree):
        for owner in ast.walk(f):
            for fld in ("body", "orelse", "finalbody"):
                blk = getattr(owner, fld, None)
                if not isinstance(blk, list):
                    continue
                for i, st in enumerate(list(blk)):
                    if isinstance(st, ast.Return) and st.value is not None and not isinstance(st.value, (ast.Constant, ast.Name)) and rng.random() < 0.5:
                        j = blk.index(st)
                        blk[j:j + 1] = [ast.Assign(targets=[ast.Name(id="_ret_value", ctx=ast.Store())], value=st.value), ast.Return(value=ast.Name(id="_ret_value", ctx=ast.Load()))]
                        done = True
    return done


def t_unelse(tree, rng):
    done = False
    for owner in ast.walk(tree):
        for fld in ("body", "orelse", "finalbody"):
            blk = getattr(owner, fld, None)
            if not isinstance(blk, list):
                continue
            for st in list(blk):
                if isinstance(st, ast.If) and st.orelse and st.body and isinstance(st.body[-1], (ast.Return, ast.Raise, ast.Continue)) and rng.random() < 0.6:
                    j = blk.index(st)
                    tail = st.orelse
                    st.orelse = []
                    blk[j + 1:j + 1] = tail
                    done = True
    return done


def t_alias(tree, rng):
    done = False
    for f in funcs(tree):
        if not f.args.args or f.args.args[0].arg != "self":
            continue
        if any(isinstance(n, (ast.FunctionDef, ast.Lambda)) and n is not f for n in ast.walk(f)):
            continue
        stores = {n.attr for n in ast.walk(f) if isinstance(n, ast.Attribute) and isinstance(n.ctx, (ast.Store, ast.Del)) and isinstance(n.value, ast.Name) and n.value.id == "self"}
        calls = {n.func.attr for n in ast.walk(f) if isinstance(n, ast.Call) and isinstance(n.func, ast.Attribute) and isinstance(n.func.value, ast.Name) and n.func.value.id == "self"}
        loads = [n for n in ast.walk(f) if isinstance(n, ast.Attribute) and isinstance(n.ctx, ast.Load) and isinstance(n.value, ast.Name) and n.value.id == "self" and n.attr not in stores and n.attr not in calls]
        # only attributes that are read (no call on self between reads can rebind them in general: restrict to functions without self-method calls)
        if calls or not loads:
            continue
        attr = rng.choice(sorted({n.attr for n in loads}))
        # do not alias something that is mutated in place
        name = "_" + attr + "_alias"
        class R(ast.NodeTransformer):
            def visit_Attribute(self, n):
                self.generic_visit(n)
                if isinstance(n.ctx, ast.Load) and isinstance(n.value, ast.Name) and n.value.id == "self" and n.attr == attr:
                    return ast.copy_location(ast.Name(id=name, ctx=ast.Load()), n)
                return n
        new_body = [R().visit(s) for s in f.body]
        doc = 1 if new_body and isinstance(new_body[0], ast.Expr) and isinstance(new_body[0].value, ast.Constant) and isinstance(new_body[0].value.value, str) else 0
        new_body.insert(doc, ast.Assign(targets=[ast.Name(id=name, ctx=ast.Store())], value=ast.Attribute(value=ast.Name(id="self", ctx=ast.Load()), attr=attr, ctx=ast.Load())))
        f.body = new_body
        done = True
        if rng.random() < 0.5:
            break
    return done


def t_demorgan(tree, rng):
    done = False
    for n in ast.walk(tree):
        if isinstance(n, (ast.If, ast.While)) and isinstance(n.test, ast.BoolOp) and rng.random() < 0.6:
            b = n.test
            inner = ast.BoolOp(op=ast.Or() if isinstance(b.op, ast.And) else ast.And(),
                               values=[v.operand if isinstance(v, ast.UnaryOp) and isinstance(v.op, ast.Not) else ast.UnaryOp(op=ast.Not(), operand=v) for v in b.values])
            n.test = ast.UnaryOp(op=ast.Not(), operand=inner)
            done = True
    return done


def t_forcomp(tree, rng):
    """xs = []; for v in it: [if c:] xs.append(e)   ->   xs = [e for v in it if c]"""
    done = False
    for owner in ast.walk(tree):
        for fld in ("body", "orelse", "finalbody"):
            blk = getattr(owner, fld, None)
            if not isinstance(blk, list):
                continue
            i = 0
            while i + 1 < len(blk):
                a, b = blk[i], blk[i + 1]
                if isinstance(a, ast.Assign) and len(a.targets) == 1 and isinstance(a.targets[0], ast.Name) and isinstance(a.value, ast.List) and not a.value.elts \
                        and isinstance(b, ast.For) and not b.orelse and len(b.body) == 1:
                    name = a.targets[0].id
                    inner = b.body[0]
                    cond = None
                    if isinstance(inner, ast.If) and not inner.orelse and len(inner.body) == 1:
                        cond, inner = inner.test, inner.body[0]
                    if isinstance(inner, ast.Expr) and isinstance(inner.value, ast.Call) and isinstance(inner.value.func, ast.Attribute) and inner.value.func.attr == "append" \
                            and isinstance(inner.value.func.value, ast.Name) and inner.value.func.value.id == name and len(inner.value.args) == 1 \
                            and not any(isinstance(x, ast.Name) and x.id == name for x in ast.walk(inner.value.args[0])) \
                            and not any(isinstance(x, ast.Name) and x.id == name for x in ast.walk(b.iter)) \
                            and not any(isinstance(x, (ast.Yield, ast.Await, ast.NamedExpr)) for x in ast.walk(b)):
                        comp = ast.ListComp(elt=inner.value.args[0], generators=[ast.comprehension(target=b.target, iter=b.iter, ifs=[cond] if cond is not None else [], is_async=0)])
                        blk[i:i + 2] = [ast.copy_location(ast.Assign(targets=[ast.Name(id=name, ctx=ast.Store())], value=comp), a)]
                        done = True
                        continue
                i += 1
    return done


def t_fstr(tree, rng):
    done = False
    class R(ast.NodeTransformer):
        def visit_JoinedStr(self, n):
            nonlocal done
            self.generic_visit(n)
            if any(isinstance(v, ast.FormattedValue) and (v.format_spec is not None or v.conversion != -1) for v in n.values):
                return n
            text, args = "", []
            for v in n.values:
                if isinstance(v, ast.Constant):
                    text += str(v.value).replace("{", "{{").replace("}", "}}")
                else:
                    text += "{}"
                    args.append(v.value)
            done = True
            return ast.copy_location(ast.Call(func=ast.Attribute(value=ast.Constant(value=text), attr="format", ctx=ast.Load()), args=args, keywords=[]), n)
    R().visit(tree)
    return done


def t_augassign(tree, rng):
    done = False
    class R(ast.NodeTransformer):
        def visit_AugAssign(self, n):
            nonlocal done
            if isinstance(n.target, ast.Name) and isinstance(n.op, (ast.Add, ast.Mult, ast.Sub)) and rng.random() < 0.7:
                done = True
                return ast.copy_location(ast.Assign(targets=[ast.Name(id=n.target.id, ctx=ast.Store())], value=ast.BinOp(left=ast.Name(id=n.target.id, ctx=ast.Load()), op=n.op, right=n.value)), n)
            return n
    R().visit(tree)
    return done


def t_ternary(tree, rng):
    done = False
    for owner in ast.walk(tree):
        for fld in ("body", "orelse", "finalbody"):
            blk = getattr(owner, fld, None)
            if not isinstance(blk, list):
                continue
            for j, st in enumerate(list(blk)):
                if isinstance(st, ast.If) and len(st.body) == 1 and len(st.orelse) == 1 and isinstance(st.body[0], ast.Assign) and isinstance(st.orelse[0], ast.Assign) \
                        and len(st.body[0].targets) == 1 and len(st.orelse[0].targets) == 1 and ast.dump(st.body[0].targets[0]) == ast.dump(st.orelse[0].targets[0]):
                    k = blk.index(st)
                    blk[k] = ast.copy_location(ast.Assign(targets=st.body[0].targets, value=ast.IfExp(test=st.test, body=st.body[0].value, orelse=st.orelse[0].value)), st)
                    done = True
    return done


def t_elif(tree, rng):
    """if a: ...return  elif b: X    ->   if a: ...return ;  if b: X"""
    done = False
    for owner in ast.walk(tree):
        for fld in ("body", "orelse", "finalbody"):
            blk = getattr(owner, fld, None)
            if not isinstance(blk, list):
                continue
            for st in list(blk):
                while isinstance(st, ast.If) and len(st.orelse) == 1 and isinstance(st.orelse[0], ast.If) and st.body and isinstance(st.body[-1], (ast.Return, ast.Raise)):
                    k = blk.index(st)
                    nxt = st.orelse[0]
                    st.orelse = []
                    blk.insert(k + 1, nxt)
                    st = nxt
                    done = True
    return done


def t_hoist(tree, rng):
    """operands of arithmetic in a return / assignment are named first:  return a(k) / (f(k) * s ** k)  ->  _h1 = a(k); _h2 = f(k); return _h1 / (_h2 * s ** k)
    (only operands reached through BinOp / UnaryOp from the statement's value, so nothing conditional is hoisted)"""
    done = False
    counter = [max([int(n.id[2:]) for n in ast.walk(tree) if isinstance(n, ast.Name) and n.id.startswith("_h") and n.id[2:].isdigit()], default=0)]
    for f in funcs(tree):
        for owner in ast.walk(f):
            if isinstance(owner, (ast.Lambda, ast.ClassDef)):
                continue
            for fld in ("body", "orelse", "finalbody"):
                blk = getattr(owner, fld, None)
                if not isinstance(blk, list):
                    continue
                for st in list(blk):
                    if not isinstance(st, (ast.Return, ast.Assign, ast.AugAssign)) or st.value is None or not isinstance(st.value, ast.BinOp):
                        continue
                    pre = []

                    def walk(e):
                        for fldname in ("left", "right", "operand"):
                            c = getattr(e, fldname, None)
                            if c is None:
                                continue
                            if isinstance(c, (ast.BinOp, ast.UnaryOp)):
                                walk(c)
                            elif isinstance(c, (ast.Call, ast.Subscript)) and rng.random() < 0.5:
                                counter[0] += 1
                                nm = f"_h{counter[0]}"
                                pre.append(ast.Assign(targets=[ast.Name(id=nm, ctx=ast.Store())], value=c))
                                setattr(e, fldname, ast.Name(id=nm, ctx=ast.Load()))
                    walk(st.value)
                    if pre:
                        j = next(k for k, x in enumerate(blk) if x is st)
                        blk[j:j] = pre
                        done = True
    return done


def t_flipcmp(tree, rng):
    """a < b -> b > a  (single comparisons whose operands are names, attributes, constants or subscripts: no evaluation-order effect)"""
    flip = {ast.Lt: ast.Gt, ast.Gt: ast.Lt, ast.LtE: ast.GtE, ast.GtE: ast.LtE, ast.Eq: ast.Eq, ast.NotEq: ast.NotEq}
    simple = (ast.Name, ast.Attribute, ast.Constant, ast.Subscript)
    done = False
    for n in ast.walk(tree):
        if isinstance(n, ast.Compare) and len(n.ops) == 1 and type(n.ops[0]) in flip and isinstance(n.left, simple) and isinstance(n.comparators[0], simple) and rng.random() < 0.5:
            n.left, n.comparators[0] = n.comparators[0], n.left
            n.ops[0] = flip[type(n.ops[0])]()
            done = True
    return done


def t_commute(tree, rng):
    """a * b -> b * a for call-free operands (numbers and commutative sympy expressions are what the analysed code multiplies)"""
    done = False
    for n in ast.walk(tree):
        if isinstance(n, ast.BinOp) and isinstance(n.op, ast.Mult) and not any(isinstance(x, (ast.Call, ast.Constant, ast.JoinedStr, ast.List, ast.Tuple)) and not (isinstance(x, ast.Constant) and isinstance(x.value, (int, float)))
                                                                                  for side in (n.left, n.right) for x in ast.walk(side)) and rng.random() < 0.5:
            n.left, n.right = n.right, n.left
            done = True
    return done


def t_reorder(tree, rng):
    """two adjacent assignments of call-free expressions to different plain names, neither reading the other's target, are exchanged"""
    done = False
    for owner in ast.walk(tree):
        for fld in ("body", "orelse", "finalbody"):
            blk = getattr(owner, fld, None)
            if not isinstance(blk, list):
                continue
            i = 0
            while i + 1 < len(blk):
                a, b = blk[i], blk[i + 1]
                ok = all(isinstance(x, ast.Assign) and len(x.targets) == 1 and isinstance(x.targets[0], ast.Name) and not any(isinstance(y, (ast.Call, ast.Subscript, ast.Await, ast.NamedExpr)) for y in ast.walk(x.value)) for x in (a, b))
                if ok and a.targets[0].id != b.targets[0].id:
                    na, nb = a.targets[0].id, b.targets[0].id
                    ra = {y.id for y in ast.walk(a.value) if isinstance(y, ast.Name)}
                    rb = {y.id for y in ast.walk(b.value) if isinstance(y, ast.Name)}
                    if na not in rb and nb not in ra and rng.random() < 0.5:
                        blk[i], blk[i + 1] = b, a
                        done = True
                        i += 2
                        continue
                i += 1
    return done


def t_addelse(tree, rng):
    """if c: ...return ;  B   ->   if c: ...return  else: B"""
    done = False
    for owner in ast.walk(tree):
        for fld in ("body", "orelse", "finalbody"):
            blk = getattr(owner, fld, None)
            if not isinstance(blk, list):
                continue
            for j, st in enumerate(blk):
                if isinstance(st, ast.If) and not st.orelse and st.body and isinstance(st.body[-1], (ast.Return, ast.Raise)) and j + 1 < len(blk) and rng.random() < 0.6:
                    st.orelse = blk[j + 1:]
                    del blk[j + 1:]
                    done = True
                    break
    return done


def _next_index(tree, prefix):
    """first free number for generated helper names (a transformation may be applied twice to one file)"""
    import re as _re
    used = [int(m.group(1)) for n in ast.walk(tree) if isinstance(n, ast.FunctionDef) for m in [_re.fullmatch(_re.escape(prefix) + r"(?:block_)?(\d+)", n.name)] if m]
    return max(used, default=0)


def _locals_of(fn):
    names = {a.arg for a in fn.args.posonlyargs + fn.args.args + fn.args.kwonlyargs}
    if fn.args.vararg:
        names.add(fn.args.vararg.arg)
    if fn.args.kwarg:
        names.add(fn.args.kwarg.arg)
    for n in ast.walk(fn):
        if isinstance(n, ast.Name) and isinstance(n.ctx, ast.Store):
            names.add(n.id)
        if isinstance(n, ast.ExceptHandler) and n.name:
            names.add(n.name)
    return names


def t_extract(tree, rng):
    """extract method: the value of `return <expr>` / `x = <expr>` (a call-bearing expression without comprehension, lambda, yield, walrus)
    moves into a new private helper of the same class (or module) that takes the locals it reads as parameters"""
    done = False
    counter = [_next_index(tree, "_extracted_")]
    for cls in [n for n in ast.walk(tree) if isinstance(n, ast.ClassDef)] + [tree]:
        new_defs = []
        for fn in [n for n in cls.body if isinstance(n, (ast.FunctionDef,))]:
            decos = [ast.unparse(d) for d in fn.decorator_list]
            if any(isinstance(x, (ast.FunctionDef, ast.AsyncFunctionDef, ast.Lambda, ast.ClassDef, ast.Global, ast.Nonlocal)) for x in ast.walk(fn) if x is not fn):
                continue
            is_method = isinstance(cls, ast.ClassDef)
            static = "staticmethod" in decos
            if is_method and not static and not fn.args.args:
                continue
            recv = fn.args.args[0].arg if is_method and not static else None
            if is_method and not static and recv not in ("self", "cls"):
                continue
            if any(d.endswith(".register") or d == "property" or d.endswith(".setter") or "abstract" in d for d in decos):
                continue
            loc = _locals_of(fn)
            for owner in ast.walk(fn):
                for fld in ("body", "orelse", "finalbody"):
                    blk = getattr(owner, fld, None)
                    if not isinstance(blk, list):
                        continue
                    for st in blk:
                        if not isinstance(st, (ast.Return, ast.Assign)) or st.value is None:
                            continue
                        v = st.value
                        if not any(isinstance(x, ast.Call) for x in ast.walk(v)) or isinstance(v, (ast.Name, ast.Constant)):
                            continue
                        if any(isinstance(x, (ast.ListComp, ast.SetComp, ast.DictComp, ast.GeneratorExp, ast.Lambda, ast.Yield, ast.YieldFrom, ast.Await, ast.NamedExpr, ast.Starred)) for x in ast.walk(v)):
                            continue
                        if any(isinstance(x, ast.Call) and isinstance(x.func, ast.Name) and x.func.id == "super" for x in ast.walk(v)):
                            continue
                        if rng.random() >= 0.4:
                            continue
                        reads = []
                        for x in ast.walk(v):
                            if isinstance(x, ast.Name) and isinstance(x.ctx, ast.Load) and x.id in loc and x.id != recv and x.id not in reads:
                                reads.append(x.id)
                        counter[0] += 1
                        hname = f"_extracted_{counter[0]}"
                        params = ([ast.arg(arg=recv)] if recv else []) + [ast.arg(arg=r) for r in reads]
                        hdef = ast.FunctionDef(name=hname, args=ast.arguments(posonlyargs=[], args=params, kwonlyargs=[], kw_defaults=[], defaults=[]),
                                               body=[ast.Return(value=v)], decorator_list=([ast.Name(id="classmethod", ctx=ast.Load())] if recv == "cls" else
                                                                                           [ast.Name(id="staticmethod", ctx=ast.Load())] if is_method and static else []), returns=None, type_params=[])
                        if is_method and static:
                            func = ast.Attribute(value=ast.Name(id=cls.name, ctx=ast.Load()), attr=hname, ctx=ast.Load())
                        elif recv:
                            func = ast.Attribute(value=ast.Name(id=recv, ctx=ast.Load()), attr=hname, ctx=ast.Load())
                        else:
                            func = ast.Name(id=hname, ctx=ast.Load())
                        st.value = ast.Call(func=func, args=[ast.Name(id=r, ctx=ast.Load()) for r in reads], keywords=[])
                        new_defs.append(hdef)
                        done = True
        if isinstance(cls, ast.ClassDef):
            cls.body.extend(new_defs)
        else:
            # module level helpers must exist before use at import time only if called at import; append at the end
            cls.body.extend(new_defs)
    return done


def t_match(tree, rng):
    """if s == 'a': A elif s == 'b': B else: C   ->   match s: case 'a': A; case 'b': B; case _: C   (literal constants only)"""
    done = False

    def chain(n):
        arms, cur = [], n
        subj = None
        while isinstance(cur, ast.If):
            t = cur.test
            if not (isinstance(t, ast.Compare) and len(t.ops) == 1 and isinstance(t.ops[0], ast.Eq) and isinstance(t.comparators[0], ast.Constant)
                    and isinstance(t.comparators[0].value, (str, int)) and not isinstance(t.comparators[0].value, bool) and isinstance(t.left, (ast.Name, ast.Attribute))):
                return None
            if subj is None:
                subj = ast.unparse(t.left)
            elif subj != ast.unparse(t.left):
                return None
            arms.append((t.left, t.comparators[0], cur.body))
            if len(cur.orelse) == 1 and isinstance(cur.orelse[0], ast.If):
                cur = cur.orelse[0]
            else:
                return arms, cur.orelse
        return None
    for owner in ast.walk(tree):
        for fld in ("body", "orelse", "finalbody"):
            blk = getattr(owner, fld, None)
            if not isinstance(blk, list):
                continue
            for i, st in enumerate(blk):
                if isinstance(st, ast.If):
                    r = chain(st)
                    if r and len(r[0]) >= 2:
                        arms, default = r
                        cases = [ast.match_case(pattern=ast.MatchValue(value=c), guard=None, body=b) for _, c, b in arms]
                        if default:
                            cases.append(ast.match_case(pattern=ast.MatchAs(pattern=None, name=None), guard=None, body=default))
                        blk[i] = ast.copy_location(ast.Match(subject=arms[0][0], cases=cases), st)
                        done = True
    return done


def t_kwargs(tree, rng):
    """positional arguments of calls to methods of the same class become keyword arguments"""
    done = False
    for cls in [n for n in ast.walk(tree) if isinstance(n, ast.ClassDef)]:
        sigs = {}
        for fn in cls.body:
            if isinstance(fn, ast.FunctionDef) and not fn.args.vararg and not fn.args.posonlyargs:
                decos = [ast.unparse(d) for d in fn.decorator_list]
                if any(d.endswith(".register") for d in decos) or fn.name in sigs:
                    sigs[fn.name] = None
                    continue
                sigs[fn.name] = [a.arg for a in fn.args.args][(0 if "staticmethod" in decos else 1):]
        for c in ast.walk(cls):
            if isinstance(c, ast.Call) and isinstance(c.func, ast.Attribute) and isinstance(c.func.value, ast.Name) and c.func.value.id in ("self", "cls") \
                    and sigs.get(c.func.attr) and c.args and not any(isinstance(a, ast.Starred) for a in c.args) and len(c.args) <= len(sigs[c.func.attr]) and rng.random() < 0.6:
                names = sigs[c.func.attr]
                c.keywords = [ast.keyword(arg=names[i], value=a) for i, a in enumerate(c.args)] + c.keywords
                c.args = []
                done = True
    return done


def t_inline(tree, rng):
    """x = <expr>; <next statement reads x exactly once and x is read nowhere else>   ->   the next statement with <expr> in place of x"""
    done = False
    for fn in funcs(tree):
        if any(isinstance(x, (ast.FunctionDef, ast.AsyncFunctionDef, ast.Lambda, ast.ClassDef)) for x in ast.walk(fn) if x is not fn):
            continue
        loads, stores = {}, {}
        for n in ast.walk(fn):
            if isinstance(n, ast.Name):
                d = loads if isinstance(n.ctx, ast.Load) else stores
                d[n.id] = d.get(n.id, 0) + 1
        for owner in ast.walk(fn):
            for fld in ("body", "orelse", "finalbody"):
                blk = getattr(owner, fld, None)
                if not isinstance(blk, list):
                    continue
                i = 0
                while i + 1 < len(blk):
                    a, b = blk[i], blk[i + 1]
                    if isinstance(a, ast.Assign) and len(a.targets) == 1 and isinstance(a.targets[0], ast.Name) and isinstance(b, (ast.Return, ast.Assign, ast.AugAssign, ast.Expr)):
                        nm = a.targets[0].id
                        uses = [x for x in ast.walk(b.value) if isinstance(x, ast.Name) and x.id == nm and isinstance(x.ctx, ast.Load)] if b.value is not None else []
                        in_comp = any(isinstance(c, (ast.ListComp, ast.SetComp, ast.DictComp, ast.GeneratorExp, ast.IfExp, ast.BoolOp)) for c in ast.walk(b.value)) if b.value is not None else True
                        if loads.get(nm, 0) == 1 and stores.get(nm, 0) == 1 and len(uses) == 1 and not in_comp and rng.random() < 0.6:
                            class R(ast.NodeTransformer):
                                def visit_Name(self, n):
                                    return a.value if (n.id == nm and isinstance(n.ctx, ast.Load)) else n
                            b.value = R().visit(b.value)
                            del blk[i]
                            done = True
                            continue
                    i += 1
    return done


def t_guard(tree, rng):
    """for ...: if c: BODY   ->   for ...: if not c: continue; BODY      (the if is the whole loop body, no else)"""
    done = False
    for n in ast.walk(tree):
        if isinstance(n, (ast.For, ast.While)) and len(n.body) == 1 and isinstance(n.body[0], ast.If) and not n.body[0].orelse and rng.random() < 0.7:
            iff = n.body[0]
            t = iff.test.operand if isinstance(iff.test, ast.UnaryOp) and isinstance(iff.test.op, ast.Not) else ast.UnaryOp(op=ast.Not(), operand=iff.test)
            n.body = [ast.copy_location(ast.If(test=t, body=[ast.Continue()], orelse=[]), iff)] + iff.body
            done = True
    return done


def t_extractblock(tree, rng):
    """extract method for a whole compound statement: an if / for / while / with statement of a method (without return, break, continue,
    yield at any depth) moves into a new private method; the locals it reads and writes become parameters, the ones it writes are
    returned and re-bound at the call site (only statements all of whose written names are bound before, so nothing can be unbound)"""
    done = False
    counter = [_next_index(tree, "_extracted_block_")]
    for cls in [n for n in ast.walk(tree) if isinstance(n, ast.ClassDef)]:
        new_defs = []
        for fn in [n for n in cls.body if isinstance(n, ast.FunctionDef)]:
            decos = [ast.unparse(d) for d in fn.decorator_list]
            if decos or not fn.args.args or fn.args.args[0].arg != "self":
                continue
            if any(isinstance(x, (ast.FunctionDef, ast.AsyncFunctionDef, ast.Lambda, ast.ClassDef, ast.Global, ast.Nonlocal, ast.Yield, ast.YieldFrom)) for x in ast.walk(fn) if x is not fn):
                continue
            loc = _locals_of(fn)
            bound = {a.arg for a in fn.args.args}
            for i, st in enumerate(list(fn.body)):
                stores_here = {x.id for x in ast.walk(st) if isinstance(x, ast.Name) and isinstance(x.ctx, ast.Store)}
                if isinstance(st, (ast.If, ast.For, ast.While, ast.With)) and not any(isinstance(x, (ast.Return, ast.Break, ast.Continue, ast.Try, ast.Raise)) for x in ast.walk(st)) \
                        and not any(isinstance(x, ast.Call) and isinstance(x.func, ast.Name) and x.func.id == "super" for x in ast.walk(st)):
                    comp_targets = {y.id for x in ast.walk(st) if isinstance(x, ast.comprehension) for y in ast.walk(x.target) if isinstance(y, ast.Name)}
                    writes = sorted(stores_here - comp_targets)
                    later_reads = {x.id for later in fn.body[i + 1:] for x in ast.walk(later) if isinstance(x, ast.Name) and isinstance(x.ctx, ast.Load)}
                    out_names = [w for w in writes if w in later_reads]
                    if all(w in bound for w in out_names) and rng.random() < 0.5:
                        reads = []
                        for x in ast.walk(st):
                            if isinstance(x, ast.Name) and x.id in loc and x.id != "self" and x.id not in comp_targets and x.id not in reads and (x.id in bound):
                                reads.append(x.id)
                        counter[0] += 1
                        hname = f"_extracted_block_{counter[0]}"
                        body = [st]
                        if out_names:
                            body.append(ast.Return(value=ast.Tuple(elts=[ast.Name(id=w, ctx=ast.Load()) for w in out_names], ctx=ast.Load()) if len(out_names) > 1 else ast.Name(id=out_names[0], ctx=ast.Load())))
                        hdef = ast.FunctionDef(name=hname, args=ast.arguments(posonlyargs=[], args=[ast.arg(arg="self")] + [ast.arg(arg=r) for r in reads], kwonlyargs=[], kw_defaults=[], defaults=[]),
                                               body=body, decorator_list=[], returns=None, type_params=[])
                        call = ast.Call(func=ast.Attribute(value=ast.Name(id="self", ctx=ast.Load()), attr=hname, ctx=ast.Load()), args=[ast.Name(id=r, ctx=ast.Load()) for r in reads], keywords=[])
                        if out_names:
                            tgt = ast.Tuple(elts=[ast.Name(id=w, ctx=ast.Store()) for w in out_names], ctx=ast.Store()) if len(out_names) > 1 else ast.Name(id=out_names[0], ctx=ast.Store())
                            new_st = ast.Assign(targets=[tgt], value=call)
                        else:
                            new_st = ast.Expr(value=call)
                        fn.body[i] = ast.copy_location(new_st, st)
                        new_defs.append(hdef)
                        done = True
                bound |= stores_here if not isinstance(st, (ast.If, ast.For, ast.While, ast.With, ast.Try)) else set()
        cls.body.extend(new_defs)
    return done


TRANSFORMS = {"extractblock": t_extractblock, "extract": t_extract, "match": t_match, "kwargs": t_kwargs, "inline": t_inline, "guard": t_guard, "flipcmp": t_flipcmp, "commute": t_commute, "reorder": t_reorder, "addelse": t_addelse, "hoist": t_hoist, "forcomp": t_forcomp, "fstr": t_fstr, "augassign": t_augassign, "ternary": t_ternary, "elif": t_elif, "swap": t_swap, "rename": t_rename, "temp": t_temp, "unelse": t_unelse, "alias": t_alias, "demorgan": t_demorgan}


class _All:
    """pseudo generator that applies a transformation at every applicable site"""
    def random(self):
        return 0.0

    def sample(self, xs, k):
        return list(xs)

    def choice(self, xs):
        return sorted(xs)[0] if xs else None


EXHAUSTIVE = os.environ.get("METAMORPH_ALL") == "1"
COMPOSE = int(os.environ.get("METAMORPH_COMPOSE", "1"))
if EXHAUSTIVE:
    PAIRS = [(rp, kind) for rp in FILES for kind in sorted(TRANSFORMS)]
    N = len(PAIRS)


def work(i):
    if EXHAUSTIVE:
        rp, kind = PAIRS[i]
        rng = _All()
    else:
        rng = random.Random(SEED * 7919 + i)
        rp = rng.choice(FILES)
        kind = rng.choice(sorted(TRANSFORMS))
    src0 = open(os.path.join("/repo", rp)).read()
    tree = ast.parse(src0)
    try:
        if COMPOSE > 1 and not EXHAUSTIVE:
            kinds = [rng.choice(sorted(TRANSFORMS)) for _ in range(COMPOSE)]
            applied = [k for k in kinds if TRANSFORMS[k](tree, rng)]
            if not applied:
                return None
            kind = "+".join(applied)
        elif not TRANSFORMS[kind](tree, rng):
            return None
        ast.fix_missing_locations(tree)
        out = ast.unparse(tree)
        ast.parse(out)
    except Exception as e:
        return None
    if os.environ.get("METAMORPH_SHOW") == str(i):
        import difflib
        sys.stdout.write("".join(difflib.unified_diff(ast.unparse(ast.parse(src0)).splitlines(True), out.splitlines(True), rp, rp + " (variant)", n=2)))
    variant = Repo("/repo", overrides={rp: out})
    res = []
    for rid, r in check.R.items():
        try:
            obs = r.run(variant)
        except AnalysisError as e:
            res.append((rp, kind, rid, "ANALYSIS-ERROR " + str(e)[:120]))
            continue
        for o in obs:
            if not o.ok and o.full_key() not in BASE:
                res.append((rp, kind, rid, f"[variant {i}] {o.file}:{o.line} {o.msg[:140]}"))
    return res


if __name__ == "__main__":
    if os.environ.get("METAMORPH_SHOW"):
        print(work(int(os.environ["METAMORPH_SHOW"])))
        sys.exit(0)
    with mp.get_context("fork").Pool(16) as pool:
        allres = pool.map(work, range(N), chunksize=2)
    applied = sum(1 for r in allres if r is not None)
    alarms = {}
    for lst in allres:
        for rp, kind, rid, msg in (lst or []):
            alarms.setdefault((rid, kind, rp), []).append(msg)
    for (rid, kind, rp), msgs in sorted(alarms.items()):
        print(f"{rid:14s} {kind:9s} {rp}: {msgs[0]}  (x{len(msgs)})")
    print("variants:", N, "applied:", applied, "distinct false-alarm sites:", len(alarms))
