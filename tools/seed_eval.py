#!/usr/bin/env python3
"""Confirm a seeded breaking change and run the checks against it.

usage: python3 tools/seed_eval.py <dir with patch.diff [demo.py]> [--tests] [--props C02,C05] [--keep]

Works in a scratch git worktree of /repo under /tmp (never in /repo), which is removed afterwards:
 1. demo.py on the clean tree must exit 0
 2. `git apply patch.diff`; the tree must still byte-compile
 3. demo.py on the changed tree must exit non-zero
 4. (--tests) the pinned test suite must still pass on the changed tree
 5. every claimed property's quick check is run with --root <scratch>; the ones that report a VIOLATION are listed
Prints one JSON object.
"""
import argparse
import json
import os
import re
import subprocess
import sys
import tempfile

VERIF = os.path.dirname(os.path.dirname(os.path.abspath(__file__)))
ALWAYS_FAIL = {"test_mildew_medium", "test_case"}
FLAKY_XDIST = {"test_squares", "test_non_lin_markov"}


def sh(cmd, cwd=None, timeout=1800):
    p = subprocess.run(cmd, shell=True, cwd=cwd, stdout=subprocess.PIPE, stderr=subprocess.STDOUT, text=True, timeout=timeout)
    return p.returncode, p.stdout


def main():
    ap = argparse.ArgumentParser()
    ap.add_argument("dir")
    ap.add_argument("--tests", action="store_true")
    ap.add_argument("--props", default="")
    ap.add_argument("--keep", action="store_true")
    ap.add_argument("--tier", default="quick")
    a = ap.parse_args()
    d = os.path.abspath(a.dir)
    patch = os.path.join(d, "patch.diff")
    demo = os.path.join(d, "demo.py")
    wt = tempfile.mkdtemp(prefix="wt_eval_", dir="/tmp")
    os.rmdir(wt)
    out = {"dir": d}
    try:
        rc, o = sh(f"git -C /repo worktree add -q --detach {wt} HEAD")
        if rc:
            out["error"] = "worktree: " + o
            return out
        if os.path.exists(demo):
            rc, o = sh(f"/venv/bin/python {demo}", cwd=wt, timeout=600)
            out["demo_clean_rc"] = rc
            if rc:
                out["demo_clean_tail"] = o[-600:]
        rc, o = sh(f"git apply {patch}", cwd=wt)
        out["apply_rc"] = rc
        if rc:
            out["error"] = "apply: " + o[-500:]
            return out
        rc, o = sh("/venv/bin/python -m compileall -q . -x '(tests|benchmarks)/' >/dev/null", cwd=wt)
        out["compile_rc"] = rc
        if os.path.exists(demo):
            rc, o = sh(f"/venv/bin/python {demo}", cwd=wt, timeout=600)
            out["demo_changed_rc"] = rc
            out["demo_changed_tail"] = o[-400:]
        if a.tests:
            rc, o = sh("/venv/bin/python -m pytest -q -p no:cacheprovider -n 8 --timeout=900 2>&1 | grep -E '^(FAILED|ERROR)|passed|failed'", cwd=wt)
            failed = set(re.findall(r"^(?:FAILED|ERROR) \S+::(\w+)", o, re.M))
            unexpected = failed - ALWAYS_FAIL
            if unexpected & FLAKY_XDIST:
                names = " or ".join(sorted(unexpected & FLAKY_XDIST))
                rc2, o2 = sh(f"/venv/bin/python -m pytest -q -p no:cacheprovider --timeout=900 tests/test_solv_loop_synthesis.py tests/test_unsolv_inv_synthesis.py -k '{names}' 2>&1 | grep -E '^(FAILED|ERROR)|passed|failed'", cwd=wt)
                still = set(re.findall(r"^(?:FAILED|ERROR) \S+::(\w+)", o2, re.M))
                unexpected = (unexpected - FLAKY_XDIST) | still
            out["tests_summary"] = o.strip().splitlines()[-1] if o.strip() else ""
            out["tests_unexpected_failures"] = sorted(unexpected)
        sys.path.insert(0, VERIF)
        import check  # noqa
        props = [p for p in (a.props.split(",") if a.props else list(check.PROPERTIES)) if p]
        fired, errors, details = [], [], {}
        for p in props:
            rc, o = sh(f"python3 {VERIF}/check.py {p} --tier {a.tier} --no-evidence --root {wt}", cwd=VERIF, timeout=900)
            if rc == 1:
                fired.append(p)
                details[p] = [l.strip() for l in o.splitlines() if re.match(r"^\s+\S+:\d+: \[", l)][:4]
            elif rc != 0:
                errors.append(p)
                details[p] = [l for l in o.splitlines() if "ANALYSIS-ERROR" in l][:2]
        out["fired"] = fired
        out["analysis_errors"] = errors
        out["details"] = details
        return out
    finally:
        if not a.keep:
            sh(f"git -C /repo worktree remove --force {wt}")
            sh("rm -rf /verif/evidence/replay")


if __name__ == "__main__":
    r = main()
    print(json.dumps(r, indent=1))
