#!/usr/bin/env python3
"""(Re)write benign/INDEX.md from benign/<id>/notes.md, benign/first_evaluation.json and a fresh run of tools/regress.py benign.
usage: python3 tools/benign_index.py"""
import json, os, re, subprocess
VERIF = os.path.dirname(os.path.dirname(os.path.abspath(__file__)))
out = subprocess.run(["python3", os.path.join(VERIF, "tools", "regress.py"), "benign"], stdout=subprocess.PIPE, text=True).stdout
now = {}
for line in out.splitlines():
    m = re.match(r"benign\s+(\S+)\s+(.*)", line)
    if m:
        now[m.group(1)] = m.group(2).strip()
first = json.load(open(os.path.join(VERIF, "benign", "first_evaluation.json")))
rows = []
for i in sorted(os.listdir(os.path.join(VERIF, "benign"))):
    d = os.path.join(VERIF, "benign", i)
    if not os.path.isdir(d):
        continue
    title = ""
    npath = os.path.join(d, "notes.md")
    if os.path.exists(npath):
        for line in open(npath):
            line = line.strip().lstrip("#").strip()
            if line:
                title = line[:150]
                break
    fe = first.get(i, "n/a")
    rows.append(f"| {i} | {title} | {fe} | {now.get(i, 'n/a')[:120]} |")
with open(os.path.join(VERIF, "benign", "INDEX.md"), "w") as f:
    f.write("# Behaviour-preserving refactorings (must be reported by no check)\n\nEach directory holds patch.diff (applies to /repo HEAD), equiv.py (the author's behavioural equivalence check: identical output before/after) and notes.md.\n"
            "`first evaluation` = what the checks did when first run against the refactoring, before the rules were reworked (rules named are the ones that false-alarmed).\n"
            "Regenerate with `python3 tools/benign_index.py`.\n\n| id | refactoring | first evaluation | now |\n|---|---|---|---|\n" + "\n".join(rows) + "\n")
print("\n".join(rows))
