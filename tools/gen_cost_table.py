#!/usr/bin/env python3
"""Regenerate the table of DESIGN.md section 11 from the summary lines of the thorough runs.
usage: for c in ...; do python3 check.py $c --tier thorough > /tmp/thorough_$c.log; done; python3 tools/gen_cost_table.py"""
import glob, os, re, sys
VERIF = os.path.dirname(os.path.dirname(os.path.abspath(__file__)))
rows = []
for f in sorted(glob.glob("/tmp/thorough_C*.log")):
    last = open(f).read().strip().splitlines()[-1]
    m = re.match(r"\[(C\d\d)/thorough\] (\d+) obligations.*self-test (\d+)/(\d+) variants.*kept variants: (\d+)/(\d+) seeded reported, (\d+)/(\d+) refactorings silent; ([\d.]+)s", last)
    if not m:
        print("unreadable:", f, last[:100]); sys.exit(1)
    pid, ob, ok, tot, sr, st, bs, bt, t = m.groups()
    rows.append(f"| {pid} | {ob} | {tot} | {st} seeded, {bt} refactorings | {float(t):.2f} s |")
p = os.path.join(VERIF, "DESIGN.md")
s = open(p).read()
start = s.index("| C01 | ", s.index("## 11. Bounds and cost"))
end = s.index("\n\n", start)
s = s[:start] + "\n".join(rows) + s[end:]
open(p, "w").write(s)
print("\n".join(rows))
