"""Small AST query helpers shared by the rules (expression flattening, templates,
method return expressions, a tiny two-point-domain evaluator)."""
import ast
import itertools
from typing import Dict, List, Optional, Tuple, Set

from .model import AnalysisError, walk_no_nested, dotted, src, is_self_attr
from .dataflow import Defs


# ------------------------------------------------------------------ arithmetic shape
def flatten(e, op) -> List[ast.AST]:
    """flatten a left/right nested BinOp chain of `op` (ast.Mult / ast.Add) into operands."""
    if isinstance(e, ast.BinOp) and isinstance(e.op, op):
        return flatten(e.left, op) + flatten(e.right, op)
    return [e]


def norm(e) -> str:
    """normalised text of an expression: commutative operands sorted, redundant parens dropped."""
    if isinstance(e, ast.BinOp) and isinstance(e.op, (ast.Mult, ast.Add)):
        parts = sorted(norm(x) for x in flatten(e, type(e.op)))
        sym = " * " if isinstance(e.op, ast.Mult) else " + "
        return "(" + sym.join(parts) + ")"
    if isinstance(e, ast.BinOp):
        return f"({norm(e.left)} {type(e.op).__name__} {norm(e.right)})"
    if isinstance(e, ast.UnaryOp):
        return f"({type(e.op).__name__} {norm(e.operand)})"
    if isinstance(e, ast.BoolOp):
        return "(" + f" {type(e.op).__name__} ".join(norm(v) for v in e.values) + ")"
    if isinstance(e, ast.Compare):
        s = norm(e.left)
        for o, c in zip(e.ops, e.comparators):
            s += f" {type(o).__name__} {norm(c)}"
        return "(" + s + ")"
    if isinstance(e, ast.Call):
        args = [norm(a) for a in e.args] + [f"{k.arg}={norm(k.value)}" for k in sorted(e.keywords, key=lambda k: k.arg or "")]
        return f"{norm(e.func)}({', '.join(args)})"
    if isinstance(e, ast.Attribute):
        return f"{norm(e.value)}.{e.attr}"
    if isinstance(e, ast.Subscript):
        return f"{norm(e.value)}[{norm(e.slice)}]"
    return src(e)


def inline_locals(e, defs: Defs, depth=0, keep: Set[str] = frozenset()):
    """Replace names that have exactly one definition (and are not parameters) by that definition."""
    if depth > 6:
        return e

    class T(ast.NodeTransformer):
        def visit_Name(self, n):
            if isinstance(n.ctx, ast.Load) and n.id in defs.defs and n.id not in defs.params and n.id not in keep:
                vals = defs.defs[n.id]
                if len(vals) == 1 and isinstance(vals[0], ast.expr):
                    return inline_locals(_copy(vals[0]), defs, depth + 1, keep)
            return n

    return T().visit(_copy(e))


def _copy(e):
    import copy
    from .model import clone as _clone
    c = _clone(e)
    return c


def return_exprs(fn_node) -> List[ast.AST]:
    return [n.value for n in walk_no_nested(fn_node) if isinstance(n, ast.Return) and n.value is not None]


def strip_docstring(body):
    if body and isinstance(body[0], ast.Expr) and isinstance(body[0].value, ast.Constant) and isinstance(body[0].value.value, str):
        return body[1:]
    return body


# ------------------------------------------------------------------ tiny evaluator (D1)
class Unsupported(Exception):
    pass


class NeedChoice(Exception):
    """an undecidable test was met and no outcome was supplied for it"""


def run_all_choices(make_eval, body, max_tests=4):
    """run `body` for every outcome vector of the tests the evaluator cannot decide;
    returns the list of results (one per explored path)"""
    results = []
    pending = [[]]
    while pending:
        ch = pending.pop()
        ev = make_eval(ch)
        try:
            results.append((tuple(ch), ev.run(body)))
        except NeedChoice:
            if len(ch) >= max_tests:
                raise Unsupported("too many undecidable tests")
            pending.append(ch + [True])
            pending.append(ch + [False])
    return results


class MiniEval:
    """Evaluate a method body over a finite domain.  `atoms(expr)` maps *atomic*
    sub-expressions (child calls) to values by a callback; everything else must be built
    from constants, names bound earlier, boolean/arithmetic operators, comparisons,
    conditional expressions and the value-preserving wrappers listed below."""

    PASS_THROUGH = {"sympify", "bool", "int", "Integer", "S", "ssympify"}

    def __init__(self, atom_cb, choices=None):
        self.atom_cb = atom_cb
        self.env: Dict[str, object] = {}
        self.choices = list(choices or [])
        self.used_choices = 0

    def _choose(self):
        i = self.used_choices
        self.used_choices += 1
        if i < len(self.choices):
            return self.choices[i]
        raise NeedChoice()

    def run(self, body) -> object:
        r = self._block(body)
        if r is _NORET:
            return None
        return r

    def _block(self, stmts):
        for st in stmts:
            r = self._stmt(st)
            if r is not _NORET:
                return r
        return _NORET

    def _stmt(self, st):
        if isinstance(st, ast.Return):
            return self.ev(st.value) if st.value is not None else None
        if isinstance(st, ast.Assign) and len(st.targets) == 1 and isinstance(st.targets[0], ast.Name):
            try:
                self.env[st.targets[0].id] = self.ev(st.value)
            except Unsupported:
                self.env[st.targets[0].id] = _OPAQUE  # using it later is unsupported (a test on it becomes a choice)
            return _NORET
        if isinstance(st, ast.AugAssign) and isinstance(st.target, ast.Name):
            cur = self.env.get(st.target.id, _MISSING)
            if cur is _MISSING:
                raise Unsupported("augassign of unbound name")
            self.env[st.target.id] = self._binop(st.op, cur, self.ev(st.value))
            return _NORET
        if isinstance(st, ast.If):
            try:
                t = self.ev(st.test)
            except Unsupported:
                # a test the evaluator cannot decide (e.g. a shape test on the children): both outcomes
                # are explored by the caller through `choices`
                t = self._choose()
            return self._block(st.body if t else st.orelse)
        if isinstance(st, ast.Expr) and isinstance(st.value, ast.Constant):
            return _NORET
        if isinstance(st, ast.Pass):
            return _NORET
        raise Unsupported(f"statement {type(st).__name__}")

    def ev(self, e):
        v = self.atom_cb(e)
        if v is not _MISSING:
            return v
        if isinstance(e, ast.Constant):
            return e.value
        if isinstance(e, ast.Name):
            if e.id in self.env:
                if self.env[e.id] is _OPAQUE:
                    raise Unsupported(f"opaque value {e.id}")
                return self.env[e.id]
            if e.id in ("True", "False"):
                return e.id == "True"
            raise Unsupported(f"free name {e.id}")
        if isinstance(e, ast.BoolOp):
            if isinstance(e.op, ast.And):
                r = True
                for v in e.values:
                    r = self.ev(v)
                    if not r:
                        return r
                return r
            r = False
            for v in e.values:
                r = self.ev(v)
                if r:
                    return r
            return r
        if isinstance(e, ast.UnaryOp):
            v = self.ev(e.operand)
            if isinstance(e.op, ast.Not):
                return not v
            if isinstance(e.op, ast.USub):
                return -v
            if isinstance(e.op, ast.UAdd):
                return +v
            raise Unsupported("unary op")
        if isinstance(e, ast.BinOp):
            return self._binop(e.op, self.ev(e.left), self.ev(e.right))
        if isinstance(e, ast.IfExp):
            return self.ev(e.body) if self.ev(e.test) else self.ev(e.orelse)
        if isinstance(e, ast.Compare) and len(e.ops) == 1:
            a, b = self.ev(e.left), self.ev(e.comparators[0])
            o = e.ops[0]
            table = {ast.Eq: a == b, ast.NotEq: a != b}
            if type(o) in table:
                return table[type(o)]
            try:
                return {ast.Lt: lambda: a < b, ast.LtE: lambda: a <= b, ast.Gt: lambda: a > b,
                        ast.GtE: lambda: a >= b, ast.Is: lambda: a is b, ast.IsNot: lambda: a is not b}[type(o)]()
            except KeyError:
                raise Unsupported("compare op")
        if isinstance(e, ast.Call):
            name = e.func.id if isinstance(e.func, ast.Name) else (e.func.attr if isinstance(e.func, ast.Attribute) else "")
            if name in self.PASS_THROUGH and len(e.args) == 1 and not e.keywords:
                return self.ev(e.args[0])
            if name in ("all", "any") and len(e.args) == 1 and isinstance(e.args[0], (ast.List, ast.Tuple)):
                vals = [self.ev(x) for x in e.args[0].elts]
                return all(vals) if name == "all" else any(vals)
            if name in ("min", "max") and e.args and not e.keywords:
                vals = [self.ev(x) for x in e.args]
                return min(vals) if name == "min" else max(vals)
            if name in ("One", "Zero", "TrueCond", "FalseCond") and not e.args:
                return {"One": 1, "Zero": 0}.get(name, _MISSING) if name in ("One", "Zero") else _unsup("cond ctor")
            raise Unsupported(f"call {src(e)[:40]}")
        if isinstance(e, ast.Attribute) and isinstance(e.value, ast.Name) and e.value.id == "self":
            raise Unsupported(f"field {e.attr}")
        raise Unsupported(type(e).__name__)

    @staticmethod
    def _binop(op, a, b):
        if isinstance(a, bool):
            a = int(a)
        if isinstance(b, bool):
            b = int(b)
        if isinstance(op, ast.Add):
            return a + b
        if isinstance(op, ast.Sub):
            return a - b
        if isinstance(op, ast.Mult):
            return a * b
        if isinstance(op, ast.Pow):
            return a ** b
        if isinstance(op, ast.BitAnd):
            return a & b
        if isinstance(op, ast.BitOr):
            return a | b
        raise Unsupported("binop")


def _unsup(msg):
    raise Unsupported(msg)


class _Sentinel:
    def __init__(self, n):
        self.n = n

    def __repr__(self):
        return self.n


_NORET = _Sentinel("NORET")
_OPAQUE = _Sentinel("OPAQUE")
_MISSING = _Sentinel("MISSING")
MISSING = _MISSING


# ------------------------------------------------------------------ string templates (family C)
class Chunk:
    pass


class Lit(Chunk):
    def __init__(self, text):
        self.text = text

    def __repr__(self):
        return repr(self.text)


class Hole(Chunk):
    def __init__(self, expr, via_join: Optional[str] = None):
        self.expr = expr
        self.via_join = via_join  # separator text if the hole stands for "each element of a join"

    def __repr__(self):
        return "{" + src(self.expr)[:40] + ("*" if self.via_join is not None else "") + "}"


def is_stringy(e) -> bool:
    """Does the expression build text (f-string, literal, join, str(), + of those)?"""
    if isinstance(e, ast.JoinedStr):
        return True
    if isinstance(e, ast.Constant) and isinstance(e.value, str):
        return True
    if isinstance(e, ast.BinOp) and isinstance(e.op, ast.Add):
        return is_stringy(e.left) or is_stringy(e.right)
    if isinstance(e, ast.BinOp) and isinstance(e.op, ast.Mod) and is_stringy(e.left):
        return True
    if isinstance(e, ast.Call):
        if isinstance(e.func, ast.Attribute) and e.func.attr in ("join", "format") and is_stringy(e.func.value):
            return True
    if isinstance(e, ast.IfExp) and is_stringy(e.body) and is_stringy(e.orelse):
        return True
    return False


def template_of(e, defs: Optional[Defs] = None, depth=0) -> List[Chunk]:
    """Literal chunks and holes of a text-building expression."""
    if isinstance(e, ast.Constant) and isinstance(e.value, str):
        return [Lit(e.value)]
    if isinstance(e, ast.JoinedStr):
        out: List[Chunk] = []
        for v in e.values:
            if isinstance(v, ast.Constant):
                out.append(Lit(str(v.value)))
            elif isinstance(v, ast.FormattedValue):
                out += template_of(v.value, defs, depth + 1) if is_stringy(v.value) else [Hole(v.value)]
        return out
    if isinstance(e, ast.BinOp) and isinstance(e.op, ast.Add):
        return template_of(e.left, defs, depth) + template_of(e.right, defs, depth)
    if isinstance(e, ast.IfExp) and is_stringy(e.body) and is_stringy(e.orelse):
        return template_of(e.body, defs, depth + 1)
    if isinstance(e, ast.BinOp) and isinstance(e.op, ast.Mod) and isinstance(e.left, ast.Constant) and isinstance(e.left.value, str):
        args = e.right.elts if isinstance(e.right, ast.Tuple) else [e.right]
        return _fmt_split(e.left.value, "%s", args)
    if isinstance(e, ast.Call) and isinstance(e.func, ast.Attribute):
        if e.func.attr == "join" and isinstance(e.func.value, ast.Constant) and isinstance(e.func.value.value, str) and len(e.args) == 1:
            sep = e.func.value.value
            arg = e.args[0]
            if isinstance(arg, ast.Name) and defs is not None and arg.id in defs.defs and arg.id not in defs.params:
                whole = [v for v in defs.defs[arg.id] if isinstance(v, (ast.ListComp, ast.GeneratorExp, ast.List))]
                if len(whole) == 1 and len([v for v in defs.defs[arg.id] if isinstance(v, ast.expr)]) == 1:
                    arg = whole[0]
            if isinstance(arg, (ast.ListComp, ast.GeneratorExp)) and depth < 4 and (is_stringy(arg.elt) or (isinstance(arg.elt, ast.Call) and isinstance(arg.elt.func, ast.Attribute) and arg.elt.func.attr == "format")):
                inner = template_of(arg.elt, defs, depth + 1)
                # two adjacent elements with the separator between them model every neighbourhood
                return inner + [Lit(sep)] + inner if sep else inner + inner
            elt = arg.elt if isinstance(arg, (ast.ListComp, ast.GeneratorExp)) else _IterOf(arg)
            # model:  elt (sep elt)*   -> one representative element with sep on both sides
            return [Hole(elt, via_join=sep)]
        if e.func.attr == "format" and isinstance(e.func.value, ast.Constant) and isinstance(e.func.value.value, str) and not e.keywords:
            out = []
            for ch in _fmt_split(e.func.value.value, "{}", list(e.args)):
                if isinstance(ch, Hole) and depth < 4 and (is_stringy(ch.expr) or (isinstance(ch.expr, ast.Call) and isinstance(ch.expr.func, ast.Name) and ch.expr.func.id == "str")
                                                           or isinstance(ch.expr, ast.Name)):
                    sub = template_of(ch.expr, defs, depth + 1)
                    out += sub
                else:
                    out.append(ch)
            return out
    if isinstance(e, ast.Call) and isinstance(e.func, ast.Name) and e.func.id == "str" and len(e.args) == 1:
        if is_stringy(e.args[0]):
            return template_of(e.args[0], defs, depth + 1)
        return [Hole(e.args[0])]
    if isinstance(e, ast.Name) and defs is not None and depth < 4 and e.id in defs.defs and e.id not in defs.params:
        vals = defs.defs[e.id]
        if len(vals) == 1 and isinstance(vals[0], ast.expr) and is_stringy(vals[0]):
            return template_of(vals[0], defs, depth + 1)
    return [Hole(e)]


class _IterOf(ast.AST):
    _fields = ("expr",)

    def __init__(self, expr):
        self.expr = expr
        self.lineno = getattr(expr, "lineno", 0)


def _fmt_split(fmt: str, marker: str, args) -> List[Chunk]:
    if marker == "{}":
        import string
        out: List[Chunk] = []
        k = 0
        try:
            for lit, field, spec, conv in string.Formatter().parse(fmt):
                if lit:
                    out.append(Lit(lit))
                if field is not None:
                    idx = int(field) if field.isdigit() else (k if field == "" else None)
                    if idx is None or idx >= len(args):
                        return [Hole(a) for a in args] or [Lit(fmt)]
                    out.append(Hole(args[idx]))
                    k += 1
            return out
        except (ValueError, IndexError):
            return [Hole(a) for a in args] or [Lit(fmt)]
    parts = fmt.split(marker)
    if len(parts) - 1 != len(args):
        return [Hole(a) for a in args] or [Lit(fmt)]
    out: List[Chunk] = []
    for i, p in enumerate(parts):
        if p:
            out.append(Lit(p))
        if i < len(args):
            out.append(Hole(args[i]))
    return out


def hole_neighbours(chunks: List[Chunk], i: int) -> Tuple[str, str]:
    """(left, right) nearest non-space characters around hole i; '' at the text boundary;
    '?' if the neighbour is another hole."""
    h = chunks[i]
    left = right = None
    if isinstance(h, Hole) and h.via_join is not None and h.via_join.strip():
        sep = h.via_join.strip()
        # first element sees the outer left context, later ones the separator: take the worst of
        # both by reporting each side separately (caller asks for both variants)
        pass
    j = i - 1
    while j >= 0 and left is None:
        c = chunks[j]
        if isinstance(c, Lit):
            t = c.text.rstrip()
            if t:
                left = t[-1]
        else:
            left = "?"
        j -= 1
    j = i + 1
    while j < len(chunks) and right is None:
        c = chunks[j]
        if isinstance(c, Lit):
            t = c.text.lstrip()
            if t:
                right = t[0]
        else:
            right = "?"
        j += 1
    return (left or "", right or "")
