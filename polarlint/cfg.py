"""Statement-level control-flow graph for one function, with dominators,
post-dominators and a few path queries.  Written for the statement kinds that
occur in probing-lab/polar; an unknown statement kind raises AnalysisError (the
check then exits 2) instead of being silently skipped.

Nodes are small objects; a node has `kind`:
  'entry' 'exit' 'raise_exit'          synthetic
  'stmt'                               a simple statement (ast node in .ast)
  'test'                               the condition of if/while/assert/for-iter (ast expr in .ast;
                                       .stmt is the owning statement); edges carry labels True/False
Edges: succ[node] -> list of (node, label) with label in {None, True, False, 'exc'}.
"""
import ast
from typing import Dict, List, Optional, Set
from .model import AnalysisError

SIMPLE = (ast.Assign, ast.AugAssign, ast.AnnAssign, ast.Expr, ast.Pass, ast.Import, ast.ImportFrom,
          ast.Global, ast.Nonlocal, ast.Delete, ast.FunctionDef, ast.AsyncFunctionDef, ast.ClassDef)


class Node:
    __slots__ = ("kind", "ast", "stmt", "id", "label")

    def __init__(self, kind, astnode=None, stmt=None, label=""):
        self.kind = kind
        self.ast = astnode
        self.stmt = stmt if stmt is not None else astnode
        self.id = -1
        self.label = label

    @property
    def lineno(self):
        return getattr(self.ast, "lineno", 0) if self.ast is not None else 0

    def __repr__(self):
        if self.ast is not None:
            try:
                t = ast.unparse(self.ast).split("\n")[0][:60]
            except Exception:
                t = "?"
            return f"<{self.kind}#{self.id} L{self.lineno} {t}>"
        return f"<{self.kind}#{self.id}>"


class CFG:
    def __init__(self, fn: ast.AST):
        self.fn = fn
        self.nodes: List[Node] = []
        self.succ: Dict[Node, List] = {}
        self.pred: Dict[Node, List] = {}
        self.entry = self._new("entry")
        self.exit = self._new("exit")          # normal return / fall off the end
        self.raise_exit = self._new("raise_exit")  # raise / failed assert
        self._loop_stack = []
        body = fn.body if not isinstance(fn, ast.Lambda) else []
        ends = self._seq(body, [(self.entry, None)])
        for n, lab in ends:
            self._edge(n, self.exit, lab)
        self._dom = None
        self._pdom = None

    # ----------------------------------------------------------- construction
    def _new(self, kind, astnode=None, stmt=None, label=""):
        n = Node(kind, astnode, stmt, label)
        n.id = len(self.nodes)
        self.nodes.append(n)
        self.succ[n] = []
        self.pred[n] = []
        return n

    def _edge(self, a, b, label=None):
        self.succ[a].append((b, label))
        self.pred[b].append((a, label))

    def _link(self, frontier, node):
        for n, lab in frontier:
            self._edge(n, node, lab)

    def _seq(self, stmts, frontier):
        for st in stmts:
            if not frontier:
                # unreachable code (e.g. after `raise e`); still build it, detached
                frontier = []
            frontier = self._stmt(st, frontier)
        return frontier

    def _stmt(self, st, frontier):
        if isinstance(st, SIMPLE):
            n = self._new("stmt", st)
            self._link(frontier, n)
            return [(n, None)]
        if isinstance(st, ast.Return):
            n = self._new("stmt", st)
            self._link(frontier, n)
            self._edge(n, self.exit)
            return []
        if isinstance(st, ast.Raise):
            n = self._new("stmt", st)
            self._link(frontier, n)
            tgt = self._handler_target()
            self._edge(n, tgt if tgt is not None else self.raise_exit, "exc")
            return []
        if isinstance(st, ast.Assert):
            t = self._new("test", st.test, st)
            self._link(frontier, t)
            self._edge(t, self.raise_exit, False)
            return [(t, True)]
        if isinstance(st, ast.If):
            t = self._new("test", st.test, st)
            self._link(frontier, t)
            out = self._seq(st.body, [(t, True)])
            out2 = self._seq(st.orelse, [(t, False)]) if st.orelse else [(t, False)]
            return out + out2
        if isinstance(st, (ast.For, ast.AsyncFor)):
            t = self._new("test", st.iter, st, label="for")
            self._link(frontier, t)
            brk: List = []
            self._loop_stack.append((t, brk))
            body_out = self._seq(st.body, [(t, True)])
            self._loop_stack.pop()
            for n, lab in body_out:
                self._edge(n, t, lab)
            out = self._seq(st.orelse, [(t, False)]) if st.orelse else [(t, False)]
            return out + brk
        if isinstance(st, ast.While):
            t = self._new("test", st.test, st, label="while")
            self._link(frontier, t)
            brk = []
            self._loop_stack.append((t, brk))
            body_out = self._seq(st.body, [(t, True)])
            self._loop_stack.pop()
            for n, lab in body_out:
                self._edge(n, t, lab)
            const_true = isinstance(st.test, ast.Constant) and bool(st.test.value) is True
            out = [] if const_true else (self._seq(st.orelse, [(t, False)]) if st.orelse else [(t, False)])
            return out + brk
        if isinstance(st, ast.Break):
            n = self._new("stmt", st)
            self._link(frontier, n)
            if not self._loop_stack:
                raise AnalysisError("break outside loop")
            self._loop_stack[-1][1].append((n, None))
            return []
        if isinstance(st, ast.Continue):
            n = self._new("stmt", st)
            self._link(frontier, n)
            if not self._loop_stack:
                raise AnalysisError("continue outside loop")
            self._edge(n, self._loop_stack[-1][0])
            return []
        if isinstance(st, (ast.With, ast.AsyncWith)):
            n = self._new("stmt", st, label="with")
            self._link(frontier, n)
            return self._seq(st.body, [(n, None)])
        if isinstance(st, ast.Try):
            return self._try(st, frontier)
        if isinstance(st, ast.Match):  # not used by polar today
            t = self._new("test", st.subject, st, label="match")
            self._link(frontier, t)
            out = []
            exhaustive = False
            for case in st.cases:
                out += self._seq(case.body, [(t, True)])
                pat = case.pattern
                # `case _:` / `case name:` without a guard always matches: no fall-through past the match statement
                if case.guard is None and isinstance(pat, ast.MatchAs) and pat.pattern is None:
                    exhaustive = True
            return out if exhaustive else out + [(t, False)]
        raise AnalysisError(f"cfg: unsupported statement {type(st).__name__} at line {getattr(st, 'lineno', '?')}")

    _handlers: List = []

    def _handler_target(self):
        return self._handlers[-1] if self._handlers else None

    def _try(self, st: ast.Try, frontier):
        # Conservative model: any statement of the try body may jump to any handler.
        head = self._new("stmt", ast.Pass(), st, label="try")
        head.ast = None
        self._link(frontier, head)
        hjoin = self._new("stmt", None, st, label="except-dispatch") if st.handlers else None
        before = len(self.nodes)
        if hjoin is not None:
            self._handlers = self._handlers + [hjoin]
        body_out = self._seq(st.body, [(head, None)])
        if hjoin is not None:
            self._handlers = self._handlers[:-1]
            for n in self.nodes[before:]:
                if n.kind in ("stmt", "test") and n is not hjoin:
                    self._edge(n, hjoin, "exc")
            self._edge(head, hjoin, "exc")
        out = self._seq(st.orelse, body_out) if st.orelse else body_out
        if hjoin is not None:
            for h in st.handlers:
                out += self._seq(h.body, [(hjoin, None)])
        if st.finalbody:
            out = self._seq(st.finalbody, out)
        return out

    # ------------------------------------------------------------- dominators
    def _dominators(self, entry, succ, nodes):
        # iterative set algorithm; graphs are tiny
        reach = self._reach(entry, succ)
        dom = {n: set(reach) for n in reach}
        dom[entry] = {entry}
        pred = {n: [] for n in reach}
        for a in reach:
            for b in succ(a):
                if b in pred:
                    pred[b].append(a)
        changed = True
        order = [n for n in nodes if n in reach]
        while changed:
            changed = False
            for n in order:
                if n is entry:
                    continue
                ps = [dom[p] for p in pred[n]]
                new = set.intersection(*ps) if ps else set()
                new = new | {n}
                if new != dom[n]:
                    dom[n] = new
                    changed = True
        return dom

    @staticmethod
    def _reach(start, succ):
        seen = {start}
        st = [start]
        while st:
            a = st.pop()
            for b in succ(a):
                if b not in seen:
                    seen.add(b)
                    st.append(b)
        return seen

    def succs(self, n):
        return [b for b, _ in self.succ[n]]

    def preds(self, n):
        return [a for a, _ in self.pred[n]]

    def dom(self):
        if self._dom is None:
            self._dom = self._dominators(self.entry, self.succs, self.nodes)
        return self._dom

    def pdom(self):
        """post-dominators w.r.t. the *normal* exit (paths ending in raise are ignored:
        'every normally-terminating path from n passes through m')."""
        if self._pdom is None:
            self._pdom = self._dominators(self.exit, self.preds, list(reversed(self.nodes)))
        return self._pdom

    def dominates(self, a: Node, b: Node) -> bool:
        d = self.dom()
        return b in d and a in d[b]

    def postdominates(self, a: Node, b: Node) -> bool:
        """every path from b to the normal exit passes through a."""
        d = self.pdom()
        if b not in d:
            return True  # b cannot reach the normal exit at all
        return a in d[b]

    def reachable(self, a: Node, b: Node, avoid: Optional[Set[Node]] = None) -> bool:
        avoid = avoid or set()
        if a in avoid:
            return False
        seen = {a}
        st = [a]
        while st:
            x = st.pop()
            if x is b:
                return True
            for y in self.succs(x):
                if y not in seen and y not in avoid:
                    seen.add(y)
                    st.append(y)
        return False

    def reachable_from_entry(self, n: Node) -> bool:
        return n in self.dom()

    # ---------------------------------------------------------------- lookups
    def node_of(self, astnode) -> Optional[Node]:
        """CFG node whose statement (or test expression) contains `astnode`."""
        best = None
        for n in self.nodes:
            if n.ast is None:
                continue
            for sub in ast.walk(n.ast):
                if sub is astnode:
                    # prefer the innermost (a test node's expr vs. the compound's header)
                    if best is None or _size(n.ast) < _size(best.ast):
                        best = n
                    break
        if best is None:
            # astnode may be inside a compound statement header not represented (with-items, for-target)
            for n in self.nodes:
                st = n.stmt
                if st is None:
                    continue
                hdr = []
                if isinstance(st, (ast.For, ast.AsyncFor)) and n.kind == "test":
                    hdr = [st.target, st.iter]
                elif isinstance(st, (ast.With, ast.AsyncWith)) and n.kind == "stmt":
                    hdr = [i.context_expr for i in st.items] + [i.optional_vars for i in st.items if i.optional_vars]
                for h in hdr:
                    for sub in ast.walk(h):
                        if sub is astnode:
                            return n
        return best

    def raise_guards(self):
        """Yield (test_node, branch_label) such that taking `branch_label` at test_node
        leads only to raise (never to the normal exit)."""
        out = []
        for t in self.nodes:
            if t.kind != "test":
                continue
            for b, lab in self.succ[t]:
                if lab not in (True, False):
                    continue
                if b is self.raise_exit or (not self.reachable(b, self.exit) and self._leads_to_raise(b)):
                    out.append((t, lab))
        return out

    def _leads_to_raise(self, n):
        return self.reachable(n, self.raise_exit) or any(
            isinstance(x.ast, ast.Raise) for x in self._reach(n, self.succs))

    def validators_dominating(self, sink: Node):
        """(test_node, label) raise-guards whose test dominates `sink`."""
        return [(t, lab) for t, lab in self.raise_guards() if t is not sink and self.dominates(t, sink)]


def _size(a):
    return sum(1 for _ in ast.walk(a))


_cache: Dict[int, CFG] = {}


def cfg_of(fn_node) -> CFG:
    k = id(fn_node)
    c = _cache.get(k)
    if c is None or c.fn is not fn_node:
        c = CFG(fn_node)
        _cache[k] = c
    return c
