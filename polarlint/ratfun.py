"""Exact normal form for the arithmetic *source expressions* the rules compare
(sampler arguments, cf/mgf bodies): rational functions over Q[i] in named atoms.

This is algebra on syntax trees, not execution of Polar: an `ast` expression is
mapped to a fraction of polynomials whose indeterminates are field references
(`$mu`), parameters, and opaque atoms for sqrt(.), exp(.), pow(.,.), calls.
Two expressions are *equivalent* iff num1*den2 == num2*den1.
"""
import ast
from fractions import Fraction
from typing import Dict, Tuple, Optional, Callable

from .model import AnalysisError, src

Mono = Tuple[Tuple[str, int], ...]


class Poly:
    __slots__ = ("t",)

    def __init__(self, terms: Optional[Dict[Mono, Fraction]] = None):
        self.t: Dict[Mono, Fraction] = {}
        if terms:
            for m, c in terms.items():
                if c != 0:
                    self.t[m] = Fraction(c)

    @staticmethod
    def const(c):
        return Poly({(): Fraction(c)})

    @staticmethod
    def atom(name: str):
        return Poly({((name, 1),): Fraction(1)})

    def __add__(self, o):
        r = dict(self.t)
        for m, c in o.t.items():
            r[m] = r.get(m, 0) + c
        return Poly(r)

    def __neg__(self):
        return Poly({m: -c for m, c in self.t.items()})

    def __sub__(self, o):
        return self + (-o)

    def __mul__(self, o):
        r: Dict[Mono, Fraction] = {}
        for m1, c1 in self.t.items():
            for m2, c2 in o.t.items():
                m, c = _mul_mono(m1, m2)
                r[m] = r.get(m, 0) + c * c1 * c2
        return Poly(r)

    def __pow__(self, n: int):
        r = Poly.const(1)
        for _ in range(n):
            r = r * self
        return r

    def __eq__(self, o):
        return self.t == o.t

    def is_zero(self):
        return not self.t

    def is_const(self):
        return all(m == () for m in self.t)

    def const_value(self):
        return self.t.get((), Fraction(0))

    def canon(self) -> str:
        if not self.t:
            return "0"
        parts = []
        for m in sorted(self.t):
            c = self.t[m]
            ms = "*".join(f"{a}^{p}" if p != 1 else a for a, p in m)
            parts.append(f"{c}" + ("*" + ms if ms else ""))
        return " + ".join(parts)


def _mul_mono(m1: Mono, m2: Mono):
    d: Dict[str, int] = dict(m1)
    for a, p in m2:
        d[a] = d.get(a, 0) + p
    coef = Fraction(1)
    # i^2 = -1
    if "I" in d:
        p = d["I"]
        q, r = divmod(p, 2)
        if q % 2:
            coef = -coef
        if r:
            d["I"] = 1
        else:
            del d["I"]
    # sqrt(x)^2 stays symbolic (only equality of atoms is needed by the rules)
    return tuple(sorted((a, p) for a, p in d.items() if p)), coef


class RF:
    __slots__ = ("n", "d")

    def __init__(self, n: Poly, d: Optional[Poly] = None):
        self.n = n
        self.d = d if d is not None else Poly.const(1)
        if self.d.is_zero():
            raise AnalysisError("ratfun: division by zero in source expression")
        if self.d.is_const():
            c = self.d.const_value()
            self.n = Poly({m: v / c for m, v in self.n.t.items()})
            self.d = Poly.const(1)

    def __add__(self, o):
        return RF(self.n * o.d + o.n * self.d, self.d * o.d)

    def __sub__(self, o):
        return RF(self.n * o.d - o.n * self.d, self.d * o.d)

    def __mul__(self, o):
        return RF(self.n * o.n, self.d * o.d)

    def __truediv__(self, o):
        if o.n.is_zero():
            raise AnalysisError("ratfun: division by zero in source expression")
        return RF(self.n * o.d, self.d * o.n)

    def __neg__(self):
        return RF(-self.n, self.d)

    def equiv(self, o) -> bool:
        return (self.n * o.d) == (o.n * self.d)

    def is_poly(self):
        return self.d.is_const()

    def canon(self) -> str:
        if self.d.is_const():
            return self.n.canon()
        # sign/scale normalisation of the denominator: leading coefficient 1
        lead = self.d.t[sorted(self.d.t)[0]]
        n = Poly({m: c / lead for m, c in self.n.t.items()})
        d = Poly({m: c / lead for m, c in self.d.t.items()})
        return f"({n.canon()})/({d.canon()})"

    def int_value(self) -> Optional[int]:
        if self.d.is_const() and self.n.is_const():
            v = self.n.const_value() / self.d.const_value()
            if v.denominator == 1:
                return int(v)
        return None


WRAPPERS = {"float", "int", "sympify", "ssympify", "Rational", "sympy2symengine", "S", "Integer", "str"}
METHOD_WRAPPERS = {"subs", "simplify", "expand", "copy", "xreplace", "evalf"}


class Normalizer:
    """ast expression -> RF.  `name_cb(name)` maps a bare name to an RF (or None to make it an atom);
    `attr_cb(node)` likewise for attribute chains (e.g. self.mu -> atom '$mu')."""

    def __init__(self, name_cb: Callable = None, attr_cb: Callable = None, subst: Optional[Dict[str, RF]] = None, int_exponents: bool = False):
        self.name_cb = name_cb
        self.attr_cb = attr_cb
        self.subst = subst or {}
        # True where every symbolic exponent is known to be an integer (loop indices): powers distribute over products
        self.int_exponents = int_exponents

    def __call__(self, e) -> RF:
        return self.ev(e)

    def ev(self, e) -> RF:
        if isinstance(e, ast.Constant):
            if isinstance(e.value, bool):
                return RF(Poly.const(int(e.value)))
            if isinstance(e.value, int):
                return RF(Poly.const(e.value))
            if isinstance(e.value, float):
                return RF(Poly.const(Fraction(str(e.value))))
            return RF(Poly.atom(repr(e.value)))
        if isinstance(e, ast.Name):
            if e.id in self.subst:
                return self.subst[e.id]
            if e.id == "I":
                return RF(Poly.atom("I"))
            if self.name_cb:
                r = self.name_cb(e.id)
                if r is not None:
                    return r
            return RF(Poly.atom(e.id))
        if isinstance(e, ast.Attribute):
            if self.attr_cb:
                r = self.attr_cb(e)
                if r is not None:
                    return r
            return RF(Poly.atom(src(e)))
        if isinstance(e, ast.UnaryOp):
            v = self.ev(e.operand)
            if isinstance(e.op, ast.USub):
                return -v
            if isinstance(e.op, ast.UAdd):
                return v
        if isinstance(e, ast.BinOp):
            if isinstance(e.op, ast.Pow):
                return self._pow(e.left, e.right)
            a, b = self.ev(e.left), self.ev(e.right)
            if isinstance(e.op, ast.Add):
                return a + b
            if isinstance(e.op, ast.Sub):
                return a - b
            if isinstance(e.op, ast.Mult):
                return a * b
            if isinstance(e.op, ast.Div):
                return a / b
        if isinstance(e, ast.Call):
            fname = e.func.attr if isinstance(e.func, ast.Attribute) else (e.func.id if isinstance(e.func, ast.Name) else "")
            if isinstance(e.func, ast.Attribute) and fname in METHOD_WRAPPERS:
                return self.ev(e.func.value)
            if fname in WRAPPERS and len(e.args) >= 1:
                return self.ev(e.args[0])
            if fname == "sqrt" and len(e.args) == 1:
                return RF(Poly.atom(f"sqrt[{self.ev(e.args[0]).canon()}]"))
            if fname == "exp" and len(e.args) == 1:
                return self._exp(self.ev(e.args[0]))
            if fname == "Piecewise":
                # default branch (cond True) -- the generic-t form
                for a in e.args:
                    if isinstance(a, ast.Tuple) and len(a.elts) == 2 and isinstance(a.elts[1], ast.Constant) and a.elts[1].value is True:
                        return self.ev(a.elts[0])
            args = ",".join(self.ev(a).canon() for a in e.args)
            kws = ",".join(f"{k.arg}={self.ev(k.value).canon()}" for k in e.keywords)
            callee = src(e.func)
            return RF(Poly.atom(f"{callee}[{args}{';' + kws if kws else ''}]"))
        if isinstance(e, ast.Subscript):
            return RF(Poly.atom(f"{self.ev(e.value).canon()}[{src(e.slice)}]"))
        raise AnalysisError(f"ratfun: unsupported expression `{src(e)[:60]}`")

    def _exp(self, arg: RF) -> RF:
        if arg.n.is_zero():
            return RF(Poly.const(1))
        return RF(Poly.atom(f"exp[{arg.canon()}]"))

    def _pow(self, base_e, exp_e) -> RF:
        ex = self.ev(exp_e)
        if isinstance(base_e, ast.Name) and base_e.id == "E" and "E" not in self.subst:
            return self._exp(ex)
        base = self.ev(base_e)
        k = ex.int_value()
        if k is not None:
            if k >= 0:
                return RF(base.n ** k, base.d ** k)
            return RF(base.d ** (-k), base.n ** (-k))
        # x ** (1/2)  and  x ** 0.5
        if ex.d.is_const() and ex.n.is_const() and ex.n.const_value() / ex.d.const_value() == Fraction(1, 2):
            return RF(Poly.atom(f"sqrt[{base.canon()}]"))
        if self.int_exponents and len(base.n.t) == 1 and len(base.d.t) == 1:
            # the exponent is an integer (an index): (c * x**p * y**q) ** e = c**e * (x**e)**p * (y**e)**q, (-1)**e kept as its own atom
            def split(poly):
                (mono, coef), = poly.t.items()
                return mono, coef
            (nm, nc), (dm, dc) = split(base.n), split(base.d)
            coef = nc / dc
            out = RF(Poly.const(1))
            if coef < 0:
                out = out * RF(Poly.atom(f"pow[-1;{ex.canon()}]"))
                coef = -coef
            if coef != 1:
                out = out * RF(Poly.atom(f"pow[{coef};{ex.canon()}]"))
            for a, pw in nm:
                out = out * RF(Poly.atom(f"pow[{a};{ex.canon()}]") ** pw)
            for a, pw in dm:
                out = out / RF(Poly.atom(f"pow[{a};{ex.canon()}]") ** pw)
            return out
        return RF(Poly.atom(f"pow[{base.canon()};{ex.canon()}]"))
