"""Intra-procedural def/use facts (flow-insensitive) for one function.

`Defs(fn)` collects, for every local name, the expressions it may be bound to
(assignments, augmented assignments, tuple unpacking, for targets, with-as,
comprehension variables, walrus).  `roots(expr)` computes the *depends-on
closure*: the set of root tokens an expression may depend on, following local
definitions transitively.  Root tokens:
   'param:<name>'      a parameter of the function
   'self.<attr>'       an attribute chain rooted at self (first two components)
   'name:<id>'         a non-local name (global / builtin / import)
   'call:<callee>'     a call (dotted callee if resolvable, else last attr)
   'const'             literal
"""
import ast
from typing import Dict, List, Set, Optional
from .model import walk_no_nested, dotted

VALUE_PRESERVING_CALLS = {"float", "int", "sympify", "ssympify", "str", "simplify", "subs", "copy",
                          "sympy2symengine", "expand", "Rational", "list", "tuple", "set", "sorted"}


class Defs:
    def __init__(self, fn_node, selfname: Optional[str] = "self"):
        self.fn = fn_node
        self.selfname = selfname
        self.params: List[str] = []
        if isinstance(fn_node, (ast.FunctionDef, ast.AsyncFunctionDef, ast.Lambda)):
            a = fn_node.args
            self.params = [x.arg for x in a.posonlyargs + a.args + a.kwonlyargs]
            if a.vararg:
                self.params.append(a.vararg.arg)
            if a.kwarg:
                self.params.append(a.kwarg.arg)
        self.defs: Dict[str, List[ast.AST]] = {}
        self.attr_defs: Dict[str, List[ast.AST]] = {}   # self.x = value
        self.def_sites: Dict[str, List[ast.AST]] = {}   # name -> statements binding it
        self._collect()

    def _bind(self, target, value, site):
        if isinstance(target, ast.Name):
            self.defs.setdefault(target.id, []).append(value)
            self.def_sites.setdefault(target.id, []).append(site)
        elif isinstance(target, (ast.Tuple, ast.List)):
            if isinstance(value, (ast.Tuple, ast.List)) and len(value.elts) == len(target.elts) \
                    and not any(isinstance(e, ast.Starred) for e in target.elts):
                for t, v in zip(target.elts, value.elts):
                    self._bind(t, v, site)
            else:
                for i, t in enumerate(target.elts):
                    self._bind(t.value if isinstance(t, ast.Starred) else t, _Elem(value, i), site)
        elif isinstance(target, ast.Attribute):
            d = dotted(target)
            if d:
                self.attr_defs.setdefault(d, []).append(value)
        elif isinstance(target, ast.Subscript):
            # x[i] = v  => x also depends on v
            base = target.value
            if isinstance(base, ast.Name):
                self.defs.setdefault(base.id, []).append(value)
                self.def_sites.setdefault(base.id, []).append(site)
            else:
                d = dotted(base)
                if d:
                    self.attr_defs.setdefault(d, []).append(value)
        elif isinstance(target, ast.Starred):
            self._bind(target.value, value, site)

    def _collect(self):
        body = self.fn
        for n in walk_no_nested(body):
            if isinstance(n, ast.Assign):
                for t in n.targets:
                    self._bind(t, n.value, n)
            elif isinstance(n, ast.AnnAssign) and n.value is not None:
                self._bind(n.target, n.value, n)
            elif isinstance(n, ast.AugAssign):
                self._bind(n.target, n.value, n)
            elif isinstance(n, (ast.For, ast.AsyncFor)):
                self._bind(n.target, _Iter(n.iter), n)
            elif isinstance(n, (ast.With, ast.AsyncWith)):
                for it in n.items:
                    if it.optional_vars is not None:
                        self._bind(it.optional_vars, it.context_expr, n)
            elif isinstance(n, ast.NamedExpr):
                self._bind(n.target, n.value, n)
            elif isinstance(n, ast.comprehension):
                self._bind(n.target, _Iter(n.iter), n)
            elif isinstance(n, ast.ExceptHandler) and n.name:
                self.defs.setdefault(n.name, []).append(ast.Constant(value=None))
            elif isinstance(n, ast.Call):
                # x.append(v) / x.add(v) / x.update(v) / x.extend(v)  => x depends on v
                f = n.func
                if isinstance(f, ast.Attribute) and f.attr in ("append", "add", "update", "extend", "insert",
                                                               "setdefault", "put"):
                    if isinstance(f.value, ast.Name):
                        for a in n.args:
                            self.defs.setdefault(f.value.id, []).append(a)
                            self.def_sites.setdefault(f.value.id, []).append(n)
                    else:
                        d = dotted(f.value)
                        if d:
                            for a in n.args:
                                self.attr_defs.setdefault(d, []).append(a)

    # ------------------------------------------------------------------ roots
    def roots(self, expr, _seen=None) -> Set[str]:
        out: Set[str] = set()
        seen = _seen if _seen is not None else set()
        self._roots(expr, out, seen)
        return out

    def _roots(self, e, out, seen):
        if e is None:
            return
        if isinstance(e, _Iter):
            self._roots(e.expr, out, seen)
            return
        if isinstance(e, _Elem):
            self._roots(e.expr, out, seen)
            return
        if isinstance(e, ast.Constant):
            out.add("const")
            return
        if isinstance(e, ast.Name):
            if e.id in self.defs or e.id in self.params:
                if e.id in self.params:
                    out.add("param:" + e.id)
                if e.id in seen:
                    return
                seen.add(e.id)
                for v in self.defs.get(e.id, []):
                    self._roots(v, out, seen)
            else:
                out.add("name:" + e.id)
            return
        if isinstance(e, ast.Attribute):
            d = dotted(e)
            if d:
                parts = d.split(".")
                if parts[0] == self.selfname:
                    out.add(".".join(parts[:2]))
                    for extra in parts[2:]:
                        out.add("attr:" + extra)
                    key = ".".join(parts[:2])
                    if key not in seen:
                        seen.add(key)
                        # flow-insensitive: a field written in this function depends on what was written
                        for v in self.attr_defs.get(key, []):
                            self._roots(v, out, seen)
                    return
                # attribute of a local / param / global
                self._roots(e.value, out, seen)
                out.add("attr:" + e.attr)
                return
            self._roots(e.value, out, seen)
            out.add("attr:" + e.attr)
            return
        if isinstance(e, ast.Call):
            d = dotted(e.func)
            out.add("call:" + (d if d else (e.func.attr if isinstance(e.func, ast.Attribute) else "?")))
            if isinstance(e.func, ast.Attribute):
                self._roots(e.func.value, out, seen)
            for a in e.args:
                self._roots(a.value if isinstance(a, ast.Starred) else a, out, seen)
            for k in e.keywords:
                self._roots(k.value, out, seen)
            return
        if isinstance(e, (ast.ListComp, ast.SetComp, ast.GeneratorExp, ast.DictComp)):
            for g in e.generators:
                self._roots(g.iter, out, seen)
                for c in g.ifs:
                    self._roots(c, out, seen)
            if isinstance(e, ast.DictComp):
                self._roots(e.key, out, seen)
                self._roots(e.value, out, seen)
            else:
                self._roots(e.elt, out, seen)
            return
        if isinstance(e, ast.Lambda):
            self._roots(e.body, out, seen)
            return
        for c in ast.iter_child_nodes(e):
            if isinstance(c, (ast.expr, ast.comprehension, ast.keyword)):
                self._roots(c, out, seen)

    def depends_on_param(self, expr, param: str) -> bool:
        return ("param:" + param) in self.roots(expr)

    def depends_on_self_attr(self, expr, attr: str) -> bool:
        return f"{self.selfname}.{attr}" in self.roots(expr)

    # -------------------------------------------------------- copy propagation
    def origin_field(self, expr, _depth=0) -> Optional[str]:
        """If `expr` is (a value-preserving wrapper around) self.<field>, possibly through
        single-definition locals, return the field name."""
        if _depth > 8:
            return None
        e = expr
        while True:
            if isinstance(e, ast.Call):
                cn = e.func.attr if isinstance(e.func, ast.Attribute) else (e.func.id if isinstance(e.func, ast.Name) else "")
                if cn in VALUE_PRESERVING_CALLS:
                    if isinstance(e.func, ast.Attribute) and cn in ("subs", "simplify", "copy", "expand"):
                        e = e.func.value
                        continue
                    if e.args:
                        e = e.args[0]
                        continue
                return None
            break
        if isinstance(e, ast.Attribute) and isinstance(e.value, ast.Name) and e.value.id == self.selfname:
            return e.attr
        if isinstance(e, ast.Name) and e.id in self.defs and e.id not in self.params:
            vals = self.defs[e.id]
            fields = {self.origin_field(v, _depth + 1) for v in vals}
            if len(fields) == 1:
                return fields.pop()
        return None


class _Iter(ast.AST):
    """marker: 'an element of <expr>'"""
    _fields = ("expr",)

    def __init__(self, expr):
        self.expr = expr


class _Elem(ast.AST):
    _fields = ("expr",)

    def __init__(self, expr, index):
        self.expr = expr
        self.index = index
