"""Canonicalisation of a parsed module before any rule looks at it.

Three behaviour-preserving spellings are folded into one, so that no rule has to know about them
(found by tools/metamorph.py, which applies exactly such rewrites and looks for new reports):

 (a) a local alias of a field that the function never stores:   n = self.n ... n ** i       ->  ... self.n ** i
 (b) a temporary that only carries the returned value:          r = <expr>; return r        ->  return <expr>
 (c) a negated two-armed conditional:                           if not c: A else: B         ->  if c: B else: A
 (d) a spelled-out accumulation:                                x = x + e                   ->  x += e
 (e) a no-op self assignment x = x is dropped; a top-level copy a = b of a never re-assigned name is read as b

The rewrites keep line numbers (copy_location).  They are analysis-level identities: (a) ignores that a call between
the alias and its use could rebind the field, which does not matter for the shape questions the rules ask."""
import ast
import os
from typing import Dict, List, Set


def _functions(tree):
    return [n for n in ast.walk(tree) if isinstance(n, (ast.FunctionDef, ast.AsyncFunctionDef))]


def _own_nodes(fn):
    """nodes of fn without those of nested functions / lambdas / classes"""
    out = []
    stack = list(ast.iter_child_nodes(fn))
    while stack:
        n = stack.pop()
        out.append(n)
        if isinstance(n, (ast.FunctionDef, ast.AsyncFunctionDef, ast.Lambda, ast.ClassDef)):
            continue
        stack.extend(ast.iter_child_nodes(n))
    return out


def _inline_field_aliases(fn) -> bool:
    if not fn.args.args:
        return False
    selfn = fn.args.args[0].arg
    if selfn not in ("self", "cls"):
        return False
    nodes = _own_nodes(fn)
    if any(isinstance(n, (ast.FunctionDef, ast.AsyncFunctionDef, ast.Lambda)) for n in nodes):
        return False          # closures may capture the alias
    stored_attrs = {n.attr for n in nodes if isinstance(n, ast.Attribute) and isinstance(n.ctx, (ast.Store, ast.Del)) and isinstance(n.value, ast.Name) and n.value.id == selfn}
    stores: Dict[str, int] = {}
    for n in nodes:
        if isinstance(n, ast.Name) and isinstance(n.ctx, (ast.Store, ast.Del)):
            stores[n.id] = stores.get(n.id, 0) + 1
    params = {a.arg for a in fn.args.posonlyargs + fn.args.args + fn.args.kwonlyargs}
    changed = False
    for i, st in enumerate(list(fn.body)):
        if not (isinstance(st, ast.Assign) and len(st.targets) == 1 and isinstance(st.targets[0], ast.Name)):
            continue
        name = st.targets[0].id
        v = st.value
        if not (isinstance(v, ast.Attribute) and isinstance(v.value, ast.Name) and v.value.id == selfn and v.attr not in stored_attrs):
            continue
        if stores.get(name, 0) != 1 or name in params:
            continue
        # uses before the definition would be errors in the source anyway
        class R(ast.NodeTransformer):
            def visit_Name(self, n):
                if n.id == name and isinstance(n.ctx, ast.Load):
                    return ast.copy_location(ast.Attribute(value=ast.Name(id=selfn, ctx=ast.Load()), attr=v.attr, ctx=ast.Load()), n)
                return n
        idx = fn.body.index(st)
        fn.body[idx] = ast.copy_location(ast.Pass(), st)
        fn.body = [R().visit(s) for s in fn.body]
        changed = True
    return changed


def _drop_self_assignments(tree) -> bool:
    """x = x  (a no-op that only makes x look assigned twice)"""
    changed = False
    for owner in ast.walk(tree):
        for fld in ("body", "orelse", "finalbody"):
            blk = getattr(owner, fld, None)
            if not isinstance(blk, list):
                continue
            for i, st in enumerate(blk):
                if isinstance(st, ast.Assign) and len(st.targets) == 1 and isinstance(st.targets[0], ast.Name) and isinstance(st.value, ast.Name) and st.value.id == st.targets[0].id:
                    blk[i] = ast.copy_location(ast.Pass(), st)
                    changed = True
    return changed


def _propagate_copies(fn) -> bool:
    """a = b  at the top level of the function body, a stored nowhere else, b a parameter that is never stored or a name stored once
    at the top level before:  the loads of a are loads of b"""
    nodes = _own_nodes(fn)
    if any(isinstance(n, (ast.FunctionDef, ast.AsyncFunctionDef, ast.Lambda, ast.Global, ast.Nonlocal)) for n in nodes):
        return False
    stores: Dict[str, int] = {}
    for n in nodes:
        if isinstance(n, ast.Name) and isinstance(n.ctx, (ast.Store, ast.Del)):
            stores[n.id] = stores.get(n.id, 0) + 1
    params = {a.arg for a in fn.args.posonlyargs + fn.args.args + fn.args.kwonlyargs}
    top_single: Set[str] = set()
    changed = False
    for st in list(fn.body):
        if isinstance(st, ast.Assign) and len(st.targets) == 1 and isinstance(st.targets[0], ast.Name):
            a = st.targets[0].id
            if isinstance(st.value, ast.Name) and stores.get(a, 0) == 1 and a not in params:
                b = st.value.id
                if b != a and ((b in params and stores.get(b, 0) == 0) or b in top_single):
                    class R(ast.NodeTransformer):
                        def visit_Name(self, n):
                            if n.id == a and isinstance(n.ctx, ast.Load):
                                return ast.copy_location(ast.Name(id=b, ctx=ast.Load()), n)
                            return n
                    idx = next(k for k, x in enumerate(fn.body) if x is st)
                    fn.body[idx] = ast.copy_location(ast.Pass(), st)
                    fn.body = [R().visit(x) for x in fn.body]
                    changed = True
                    continue
            if stores.get(a, 0) == 1 and a not in params:
                top_single.add(a)
    return changed


def _inline_return_temps(fn) -> bool:
    """T = <expr>; return T  ->  return <expr>   for every name T all of whose stores are such assignments and all of whose
    loads are the returns that follow them"""
    nodes = _own_nodes(fn)
    loads: Dict[str, int] = {}
    stores: Dict[str, int] = {}
    for n in nodes:
        if isinstance(n, ast.Name):
            if isinstance(n.ctx, ast.Load):
                loads[n.id] = loads.get(n.id, 0) + 1
            else:
                stores[n.id] = stores.get(n.id, 0) + 1
    pairs: Dict[str, List] = {}
    for owner in [fn] + nodes:
        for fld in ("body", "orelse", "finalbody"):
            blk = getattr(owner, fld, None)
            if not isinstance(blk, list):
                continue
            for i in range(len(blk) - 1):
                a, b = blk[i], blk[i + 1]
                if isinstance(a, ast.Assign) and len(a.targets) == 1 and isinstance(a.targets[0], ast.Name) and isinstance(b, ast.Return) \
                        and isinstance(b.value, ast.Name) and b.value.id == a.targets[0].id:
                    pairs.setdefault(a.targets[0].id, []).append((blk, a, b))
    changed = False
    for name, ps in pairs.items():
        if loads.get(name, 0) != len(ps) or stores.get(name, 0) != len(ps):
            continue
        # the assigned expression must not read the temporary itself
        if any(isinstance(x, ast.Name) and x.id == name for _, a, _ in ps for x in ast.walk(a.value)):
            continue
        for blk, a, b in ps:
            i = next(k for k, st in enumerate(blk) if st is a)
            blk[i:i + 2] = [ast.copy_location(ast.Return(value=a.value), a)]
            changed = True
    return changed


def _unnegate_ifs(tree) -> bool:
    changed = False
    for n in ast.walk(tree):
        if isinstance(n, ast.If) and n.orelse and isinstance(n.test, ast.UnaryOp) and isinstance(n.test.op, ast.Not) \
                and not (len(n.orelse) == 1 and isinstance(n.orelse[0], ast.If)):
            n.test = n.test.operand
            n.body, n.orelse = n.orelse, n.body
            changed = True
    return changed


def _desugar_ifexp_statements(tree) -> bool:
    """x = f() if c else g()  ->  if c: x = f()  else: x = g()     (likewise return / augmented assignment): a choice between two
    *computations* gets the statement form, in which the flow graph shows which call runs when; a choice between two values
    (x if j > 0 else 1) stays an expression, which the formula rules read as one definition"""
    changed = False
    for owner in ast.walk(tree):
        for fld in ("body", "orelse", "finalbody"):
            blk = getattr(owner, fld, None)
            if not isinstance(blk, list):
                continue
            for i, st in enumerate(blk):
                if isinstance(st, (ast.Assign, ast.Return, ast.AugAssign)) and isinstance(st.value, ast.IfExp) and \
                        all(any(isinstance(x, ast.Call) for x in ast.walk(arm)) for arm in (st.value.body, st.value.orelse)):
                    import copy
                    a, b = copy.copy(st), copy.deepcopy(st)
                    a.value = st.value.body
                    b.value = st.value.orelse
                    blk[i] = ast.copy_location(ast.If(test=st.value.test, body=[a], orelse=[b]), st)
                    changed = True
    return changed


def _augment(tree) -> bool:
    """x = x + e  ->  x += e   (for + - *; the right operand form only, so that non-commutative meaning is kept)"""
    changed = False

    class R(ast.NodeTransformer):
        def visit_Assign(self, n):
            nonlocal changed
            self.generic_visit(n)
            if len(n.targets) == 1 and isinstance(n.targets[0], ast.Name) and isinstance(n.value, ast.BinOp) and isinstance(n.value.op, (ast.Add, ast.Sub, ast.Mult)) \
                    and isinstance(n.value.left, ast.Name) and n.value.left.id == n.targets[0].id \
                    and not any(isinstance(x, ast.Name) and x.id == n.targets[0].id for x in ast.walk(n.value.right)):
                changed = True
                return ast.copy_location(ast.AugAssign(target=ast.Name(id=n.targets[0].id, ctx=ast.Store()), op=n.value.op, value=n.value.right), n)
            return n
    R().visit(tree)
    return changed


def canonicalise(tree: ast.Module) -> ast.Module:
    changed = _augment(tree)
    changed |= _drop_self_assignments(tree)
    for fn in _functions(tree):
        changed |= _propagate_copies(fn)
        changed |= _inline_field_aliases(fn)
        changed |= _inline_return_temps(fn)
    if os.environ.get("POLARLINT_NO_IFEXP_DESUGAR") != "1":
        for _ in range(3):            # nested conditional expressions
            if not _desugar_ifexp_statements(tree):
                break
            changed = True
    changed |= _unnegate_ifs(tree)
    if changed:
        ast.fix_missing_locations(tree)
    return tree
