"""Canonicalisation of a parsed module before any rule looks at it.

Three behaviour-preserving spellings are folded into one, so that no rule has to know about them
(found by tools/metamorph.py, which applies exactly such rewrites and looks for new reports):

 (a) a local alias of a field that the function never stores:   n = self.n ... n ** i       ->  ... self.n ** i
 (b) a temporary that only carries the returned value:          r = <expr>; return r        ->  return <expr>
 (c) a negated two-armed conditional:                           if not c: A else: B         ->  if c: B else: A
 (d) a spelled-out accumulation:                                x = x + e                   ->  x += e
 (e) a no-op self assignment x = x is dropped; a top-level copy a = b of a never re-assigned name is read as b

The rewrites keep line numbers (copy_location).  They are analysis-level identities: (a) ignores that a call between
the alias and its use could rebind the field, which does not matter for the shape questions the rules ask."""
import ast
import os
from typing import Dict, List, Set


def _functions(tree):
    return [n for n in ast.walk(tree) if isinstance(n, (ast.FunctionDef, ast.AsyncFunctionDef))]


def _own_nodes(fn):
    """nodes of fn without those of nested functions / lambdas / classes"""
    out = []
    stack = list(ast.iter_child_nodes(fn))
    while stack:
        n = stack.pop()
        out.append(n)
        if isinstance(n, (ast.FunctionDef, ast.AsyncFunctionDef, ast.Lambda, ast.ClassDef)):
            continue
        stack.extend(ast.iter_child_nodes(n))
    return out


def _inline_field_aliases(fn) -> bool:
    if not fn.args.args:
        return False
    selfn = fn.args.args[0].arg
    if selfn not in ("self", "cls"):
        return False
    nodes = _own_nodes(fn)
    if any(isinstance(n, (ast.FunctionDef, ast.AsyncFunctionDef, ast.Lambda)) for n in nodes):
        return False          # closures may capture the alias
    stored_attrs = {n.attr for n in nodes if isinstance(n, ast.Attribute) and isinstance(n.ctx, (ast.Store, ast.Del)) and isinstance(n.value, ast.Name) and n.value.id == selfn}
    stores: Dict[str, int] = {}
    for n in nodes:
        if isinstance(n, ast.Name) and isinstance(n.ctx, (ast.Store, ast.Del)):
            stores[n.id] = stores.get(n.id, 0) + 1
    params = {a.arg for a in fn.args.posonlyargs + fn.args.args + fn.args.kwonlyargs}
    changed = False
    for i, st in enumerate(list(fn.body)):
        if not (isinstance(st, ast.Assign) and len(st.targets) == 1 and isinstance(st.targets[0], ast.Name)):
            continue
        name = st.targets[0].id
        v = st.value
        if not (isinstance(v, ast.Attribute) and isinstance(v.value, ast.Name) and v.value.id == selfn and v.attr not in stored_attrs):
            continue
        if stores.get(name, 0) != 1 or name in params:
            continue
        # uses before the definition would be errors in the source anyway
        class R(ast.NodeTransformer):
            def visit_Name(self, n):
                if n.id == name and isinstance(n.ctx, ast.Load):
                    return ast.copy_location(ast.Attribute(value=ast.Name(id=selfn, ctx=ast.Load()), attr=v.attr, ctx=ast.Load()), n)
                return n
        idx = fn.body.index(st)
        fn.body[idx] = ast.copy_location(ast.Pass(), st)
        fn.body = [R().visit(s) for s in fn.body]
        changed = True
    return changed


def _drop_self_assignments(tree) -> bool:
    """x = x  (a no-op that only makes x look assigned twice)"""
    changed = False
    for owner in ast.walk(tree):
        for fld in ("body", "orelse", "finalbody"):
            blk = getattr(owner, fld, None)
            if not isinstance(blk, list):
                continue
            for i, st in enumerate(blk):
                if isinstance(st, ast.Assign) and len(st.targets) == 1 and isinstance(st.targets[0], ast.Name) and isinstance(st.value, ast.Name) and st.value.id == st.targets[0].id:
                    blk[i] = ast.copy_location(ast.Pass(), st)
                    changed = True
    return changed


def _propagate_copies(fn) -> bool:
    """a = b  at the top level of the function body, a stored nowhere else, b a parameter that is never stored or a name stored once
    at the top level before:  the loads of a are loads of b"""
    nodes = _own_nodes(fn)
    if any(isinstance(n, (ast.FunctionDef, ast.AsyncFunctionDef, ast.Lambda, ast.Global, ast.Nonlocal)) for n in nodes):
        return False
    stores: Dict[str, int] = {}
    for n in nodes:
        if isinstance(n, ast.Name) and isinstance(n.ctx, (ast.Store, ast.Del)):
            stores[n.id] = stores.get(n.id, 0) + 1
    params = {a.arg for a in fn.args.posonlyargs + fn.args.args + fn.args.kwonlyargs}
    top_single: Set[str] = set()
    changed = False
    for st in list(fn.body):
        if isinstance(st, ast.Assign) and len(st.targets) == 1 and isinstance(st.targets[0], ast.Name):
            a = st.targets[0].id
            if isinstance(st.value, ast.Name) and stores.get(a, 0) == 1 and a not in params:
                b = st.value.id
                if b != a and ((b in params and stores.get(b, 0) == 0) or b in top_single):
                    class R(ast.NodeTransformer):
                        def visit_Name(self, n):
                            if n.id == a and isinstance(n.ctx, ast.Load):
                                return ast.copy_location(ast.Name(id=b, ctx=ast.Load()), n)
                            return n
                    idx = next(k for k, x in enumerate(fn.body) if x is st)
                    fn.body[idx] = ast.copy_location(ast.Pass(), st)
                    fn.body = [R().visit(x) for x in fn.body]
                    changed = True
                    continue
            if stores.get(a, 0) == 1 and a not in params:
                top_single.add(a)
    return changed


def _inline_return_temps(fn) -> bool:
    """T = <expr>; return T  ->  return <expr>   for every name T all of whose stores are such assignments and all of whose
    loads are the returns that follow them"""
    nodes = _own_nodes(fn)
    loads: Dict[str, int] = {}
    stores: Dict[str, int] = {}
    for n in nodes:
        if isinstance(n, ast.Name):
            if isinstance(n.ctx, ast.Load):
                loads[n.id] = loads.get(n.id, 0) + 1
            else:
                stores[n.id] = stores.get(n.id, 0) + 1
    pairs: Dict[str, List] = {}
    for owner in [fn] + nodes:
        for fld in ("body", "orelse", "finalbody"):
            blk = getattr(owner, fld, None)
            if not isinstance(blk, list):
                continue
            for i in range(len(blk) - 1):
                a, b = blk[i], blk[i + 1]
                if isinstance(a, ast.Assign) and len(a.targets) == 1 and isinstance(a.targets[0], ast.Name) and isinstance(b, ast.Return) \
                        and isinstance(b.value, ast.Name) and b.value.id == a.targets[0].id:
                    pairs.setdefault(a.targets[0].id, []).append((blk, a, b))
    changed = False
    for name, ps in pairs.items():
        if loads.get(name, 0) != len(ps) or stores.get(name, 0) != len(ps):
            continue
        # the assigned expression must not read the temporary itself
        if any(isinstance(x, ast.Name) and x.id == name for _, a, _ in ps for x in ast.walk(a.value)):
            continue
        for blk, a, b in ps:
            i = next(k for k, st in enumerate(blk) if st is a)
            blk[i:i + 2] = [ast.copy_location(ast.Return(value=a.value), a)]
            changed = True
    return changed


def _unnegate_ifs(tree) -> bool:
    changed = False
    for n in ast.walk(tree):
        # not not c  as a test is c
        if isinstance(n, (ast.If, ast.While, ast.IfExp, ast.Assert)):
            while isinstance(n.test, ast.UnaryOp) and isinstance(n.test.op, ast.Not) and isinstance(n.test.operand, ast.UnaryOp) and isinstance(n.test.operand.op, ast.Not):
                n.test = n.test.operand.operand
                changed = True
    for n in ast.walk(tree):
        if isinstance(n, ast.If) and n.orelse and isinstance(n.test, ast.UnaryOp) and isinstance(n.test.op, ast.Not) \
                and not (len(n.orelse) == 1 and isinstance(n.orelse[0], ast.If)):
            n.test = n.test.operand
            n.body, n.orelse = n.orelse, n.body
            changed = True
    return changed


def _desugar_ifexp_statements(tree) -> bool:
    """x = f() if c else g()  ->  if c: x = f()  else: x = g()     (likewise return / augmented assignment): a choice between two
    *computations* gets the statement form, in which the flow graph shows which call runs when; a choice between two values
    (x if j > 0 else 1) stays an expression, which the formula rules read as one definition"""
    changed = False
    for owner in ast.walk(tree):
        for fld in ("body", "orelse", "finalbody"):
            blk = getattr(owner, fld, None)
            if not isinstance(blk, list):
                continue
            for i, st in enumerate(blk):
                if isinstance(st, (ast.Assign, ast.Return, ast.AugAssign)) and isinstance(st.value, ast.IfExp) and \
                        all(any(isinstance(x, ast.Call) for x in ast.walk(arm)) for arm in (st.value.body, st.value.orelse)):
                    import copy
                    a, b = copy.copy(st), copy.deepcopy(st)
                    a.value = st.value.body
                    b.value = st.value.orelse
                    blk[i] = ast.copy_location(ast.If(test=st.value.test, body=[a], orelse=[b]), st)
                    changed = True
    return changed


_SPECIAL = set(dir(object)) | {"__call__", "__len__", "__iter__", "__next__", "__getitem__", "__setitem__", "__contains__", "__enter__", "__exit__",
                                "__add__", "__sub__", "__mul__", "__neg__", "__bool__", "__copy__", "__deepcopy__", "__post_init__", "__lt__", "__le__", "__gt__", "__ge__"}


def _inline_trivial_helpers(tree) -> bool:
    """A private helper whose whole body is `return <expr>` is read at its call sites as that expression (parameters replaced by the
    arguments):  def _lead(self, k): return self.a(k) * self.h ** (k + 1)   ...   self._lead(j)  ->  self.a(j) * self.h ** (j + 1).
    Extract-method / inline-method are the most common behaviour-preserving edits; folding the one-expression case here gives every
    rule the same view of both spellings.  Only names that are defined once in the module, start with an underscore, carry no
    decorator other than staticmethod / classmethod and are not recursive; a helper all of whose uses were inlined is dropped from
    the tree.  (Analysis-level identity: an argument used twice is duplicated, dynamic dispatch to an override in another module is
    not seen.)"""
    import copy
    owners = [tree] + [n for n in tree.body if isinstance(n, ast.ClassDef)]
    by_name: Dict[str, List] = {}
    for ow in owners:
        for fn in ow.body:
            if isinstance(fn, (ast.FunctionDef, ast.AsyncFunctionDef)):
                by_name.setdefault(fn.name, []).append((ow, fn))
    cands = {}
    for name, lst in by_name.items():
        if len(lst) != 1 or not name.startswith("_") or name in _SPECIAL:
            continue
        ow, fn = lst[0]
        if not isinstance(fn, ast.FunctionDef):
            continue
        decos = [ast.unparse(d) for d in fn.decorator_list]
        if any(d not in ("staticmethod", "classmethod") for d in decos):
            continue
        a = fn.args
        if a.vararg or a.kwarg or a.posonlyargs or a.kwonlyargs:
            continue
        body = [st for i, st in enumerate(fn.body) if not (i == 0 and isinstance(st, ast.Expr) and isinstance(st.value, ast.Constant) and isinstance(st.value.value, str))]
        if len(body) != 1 or not isinstance(body[0], ast.Return) or body[0].value is None:
            continue
        ret = body[0].value
        params = [x.arg for x in a.args]
        is_method = isinstance(ow, ast.ClassDef)
        static = "staticmethod" in decos
        if is_method and not static and not params:
            continue
        bad = False
        for x in ast.walk(ret):
            if isinstance(x, (ast.Lambda, ast.Yield, ast.YieldFrom, ast.Await, ast.NamedExpr)):
                bad = True
            if isinstance(x, ast.comprehension) and any(isinstance(y, ast.Name) and y.id in params for y in ast.walk(x.target)):
                bad = True
            if isinstance(x, ast.Attribute) and x.attr == name:
                bad = True
            if isinstance(x, ast.Name) and x.id == name:
                bad = True
            if isinstance(x, ast.Call) and isinstance(x.func, ast.Name) and x.func.id == "super":
                bad = True
        if bad:
            continue
        cands[name] = (ow, fn, ret, params, is_method, static)
    if not cands:
        return False
    changed = False
    inlined_sites: Dict[str, int] = {}

    def bind(name, call, recv_expr):
        ow, fn, ret, params, is_method, static = cands[name]
        ps = list(params)
        env = {}
        if is_method and not static:
            env[ps[0]] = recv_expr
            ps = ps[1:]
        if any(isinstance(x, ast.Starred) for x in call.args) or any(k.arg is None for k in call.keywords) or len(call.args) > len(ps):
            return None
        for p_, v in zip(ps, call.args):
            env[p_] = v
        for k in call.keywords:
            if k.arg not in ps or k.arg in env:
                return None
            env[k.arg] = k.value
        defaults = fn.args.defaults
        all_params = [x.arg for x in fn.args.args]
        for i, d in enumerate(defaults):
            pn = all_params[len(all_params) - len(defaults) + i]
            env.setdefault(pn, d)
        if any(p_ not in env for p_ in ps):
            return None

        class Sub(ast.NodeTransformer):
            def visit_Name(self, n):
                if isinstance(n.ctx, ast.Load) and n.id in env:
                    return copy.deepcopy(env[n.id])
                return n
        return Sub().visit(copy.deepcopy(ret))

    for _ in range(4):
        round_changed = False
        for ow in owners:
            for fn in [x for x in ow.body if isinstance(x, (ast.FunctionDef, ast.AsyncFunctionDef))]:
                recv_names = set()
                if isinstance(ow, ast.ClassDef):
                    recv_names = {ow.name, "self", "cls"}
                    if fn.args.args:
                        recv_names.add(fn.args.args[0].arg)

                class Inl(ast.NodeTransformer):
                    def visit_Call(self, c):
                        nonlocal round_changed
                        self.generic_visit(c)
                        f_ = c.func
                        new = None
                        if isinstance(f_, ast.Attribute) and f_.attr in cands and isinstance(f_.value, ast.Name) and f_.value.id in recv_names \
                                and cands[f_.attr][0] is ow and cands[f_.attr][1] is not fn:
                            new = bind(f_.attr, c, f_.value)
                            nm = f_.attr
                        elif isinstance(f_, ast.Name) and f_.id in cands and cands[f_.id][0] is tree and cands[f_.id][1] is not fn:
                            new = bind(f_.id, c, None)
                            nm = f_.id
                        if new is None:
                            return c
                        inlined_sites[nm] = inlined_sites.get(nm, 0) + 1
                        round_changed = True
                        return ast.copy_location(new, c)
                Inl().visit(fn)
        if not round_changed:
            break
        changed = True
        # refresh the candidates' return expressions (a helper that called another helper)
        for name, (ow, fn, ret, params, is_method, static) in list(cands.items()):
            body = [st for st in fn.body if isinstance(st, ast.Return)]
            if body:
                cands[name] = (ow, fn, body[-1].value, params, is_method, static)
    if changed:
        for name, (ow, fn, *_rest) in cands.items():
            if not inlined_sites.get(name):
                continue
            refs = 0
            for x in ast.walk(tree):
                if (isinstance(x, ast.Attribute) and x.attr == name) or (isinstance(x, ast.Name) and x.id == name):
                    refs += 1
                if isinstance(x, ast.Constant) and isinstance(x.value, str) and x.value == name:
                    refs += 1
            if refs == 0:
                ow.body = [st for st in ow.body if st is not fn] or [ast.Pass()]
    return changed


class _NoDesugar(Exception):
    pass


def _pattern_test(subj, pat, binds):
    """test expression for `subj` matching `pat` (None: always true); captures are appended to `binds` as (name, expression)"""
    if isinstance(pat, ast.MatchValue):
        return ast.Compare(left=subj, ops=[ast.Eq()], comparators=[pat.value])
    if isinstance(pat, ast.MatchSingleton):
        return ast.Compare(left=subj, ops=[ast.Is()], comparators=[ast.Constant(value=pat.value)])
    if isinstance(pat, ast.MatchAs):
        if pat.pattern is None:
            if pat.name is not None:
                binds.append((pat.name, subj))
            return None
        t = _pattern_test(subj, pat.pattern, binds)
        if pat.name is not None:
            binds.append((pat.name, subj))
        return t
    if isinstance(pat, ast.MatchOr):
        tests = []
        for alt in pat.patterns:
            b2 = []
            t = _pattern_test(subj, alt, b2)
            if b2 or t is None:
                raise _NoDesugar()
            tests.append(t)
        return ast.BoolOp(op=ast.Or(), values=tests)
    if isinstance(pat, ast.MatchSequence):
        if any(isinstance(x, ast.MatchStar) for x in pat.patterns):
            raise _NoDesugar()
        tests = []
        if isinstance(subj, (ast.Tuple, ast.List)) and len(subj.elts) == len(pat.patterns):
            parts = list(subj.elts)
        elif isinstance(subj, (ast.Tuple, ast.List)):
            return ast.Constant(value=False)
        else:
            tests.append(ast.Compare(left=ast.Call(func=ast.Name(id="len", ctx=ast.Load()), args=[subj], keywords=[]), ops=[ast.Eq()], comparators=[ast.Constant(value=len(pat.patterns))]))
            parts = [ast.Subscript(value=subj, slice=ast.Constant(value=i), ctx=ast.Load()) for i in range(len(pat.patterns))]
        for part, sub in zip(parts, pat.patterns):
            t = _pattern_test(part, sub, binds)
            if t is not None:
                tests.append(t)
        if not tests:
            return None
        return tests[0] if len(tests) == 1 else ast.BoolOp(op=ast.And(), values=tests)
    if isinstance(pat, ast.MatchClass) and not pat.patterns and not pat.kwd_patterns:
        return ast.Call(func=ast.Name(id="isinstance", ctx=ast.Load()), args=[subj, pat.cls], keywords=[])
    raise _NoDesugar()


def _desugar_match(tree) -> bool:
    """match S: case P1: B1 ... case _: Bn   ->   if S matches P1: B1  elif ...  else: Bn      for value / singleton / sequence / or /
    wildcard / capture / argument-free class patterns (anything else is left alone).  Python 3.12 refactorings like to turn if-chains
    into match statements; the rules read one spelling."""
    import copy
    changed = False
    for owner in list(ast.walk(tree)):
        for fld in ("body", "orelse", "finalbody"):
            blk = getattr(owner, fld, None)
            if not isinstance(blk, list):
                continue
            for i, st in enumerate(list(blk)):
                if not isinstance(st, ast.Match):
                    continue
                subj = st.subject
                pre = []
                simple = isinstance(subj, (ast.Name, ast.Attribute)) or (isinstance(subj, (ast.Tuple, ast.List)) and all(isinstance(e, (ast.Name, ast.Attribute, ast.Constant)) for e in subj.elts))
                if not simple:
                    tmp_name = f"_match_subject_{getattr(st, 'lineno', 0)}"
                    tmp = ast.Name(id=tmp_name, ctx=ast.Load())
                    pre = [ast.copy_location(ast.Assign(targets=[ast.Name(id=tmp_name, ctx=ast.Store())], value=subj), st)]
                    subj = tmp
                try:
                    arms = []
                    for case in st.cases:
                        binds = []
                        t = _pattern_test(copy.deepcopy(subj), case.pattern, binds)
                        body = [ast.copy_location(ast.Assign(targets=[ast.Name(id=nm, ctx=ast.Store())], value=copy.deepcopy(e)), case.body[0]) for nm, e in binds] + case.body
                        if case.guard is not None:
                            guard = case.guard
                            if binds:
                                # case small if small < n:  the guard speaks about the captured value, i.e. about the subject
                                env = {nm: e for nm, e in binds}

                                class _S(ast.NodeTransformer):
                                    def visit_Name(self, n_):
                                        if isinstance(n_.ctx, ast.Load) and n_.id in env:
                                            return copy.deepcopy(env[n_.id])
                                        return n_
                                guard = _S().visit(copy.deepcopy(guard))
                            t = guard if t is None else ast.BoolOp(op=ast.And(), values=[t, guard])
                        arms.append((t, body))
                except _NoDesugar:
                    continue
                node = None
                tail: List = []
                for t, body in reversed(arms):
                    if t is None:
                        tail = body            # an irrefutable case: later cases are unreachable
                    else:
                        tail = [ast.copy_location(ast.If(test=t, body=body, orelse=tail), body[0] if body else st)]
                new = pre + (tail if tail else [ast.copy_location(ast.Pass(), st)])
                for n_ in new:
                    ast.copy_location(n_, st) if not hasattr(n_, "lineno") else None
                j = next(k for k, x in enumerate(blk) if x is st)
                blk[j:j + 1] = new
                changed = True
    return changed


def _positional_self_calls(tree) -> bool:
    """self.m(a=x, b=y)  ->  self.m(x, y)   when m is a method of the same class in this module and the keywords continue the
    positional arguments without a gap: one spelling of a call for the rules that bind arguments to parameters by position"""
    changed = False
    for cls in [n for n in ast.walk(tree) if isinstance(n, ast.ClassDef)]:
        sigs: Dict[str, List[str]] = {}
        dup: Set[str] = set()
        for fn in cls.body:
            if isinstance(fn, ast.FunctionDef):
                decos = [ast.unparse(d) for d in fn.decorator_list]
                if fn.name in sigs or any(d.endswith(".register") for d in decos):
                    dup.add(fn.name)
                    continue
                if fn.args.vararg or fn.args.posonlyargs:
                    dup.add(fn.name)
                    continue
                sigs[fn.name] = [a.arg for a in fn.args.args][(0 if "staticmethod" in decos else 1):]
        for c in ast.walk(cls):
            if isinstance(c, ast.Call) and c.keywords and isinstance(c.func, ast.Attribute) and isinstance(c.func.value, ast.Name) and c.func.value.id in ("self", "cls", cls.name) \
                    and c.func.attr in sigs and c.func.attr not in dup and not any(isinstance(a, ast.Starred) for a in c.args) and all(k.arg for k in c.keywords):
                names = sigs[c.func.attr]
                kw = {k.arg: k.value for k in c.keywords}
                pos = list(c.args)
                while len(pos) < len(names) and names[len(pos)] in kw:
                    pos.append(kw.pop(names[len(pos)]))
                if len(pos) > len(c.args):
                    c.args = pos
                    c.keywords = [k for k in c.keywords if k.arg in kw]
                    changed = True
    return changed


def _augment(tree) -> bool:
    """x = x + e  ->  x += e   (for + - *; the right operand form only, so that non-commutative meaning is kept)"""
    changed = False

    class R(ast.NodeTransformer):
        def visit_Assign(self, n):
            nonlocal changed
            self.generic_visit(n)
            if len(n.targets) == 1 and isinstance(n.targets[0], ast.Name) and isinstance(n.value, ast.BinOp) and isinstance(n.value.op, (ast.Add, ast.Sub, ast.Mult)) \
                    and isinstance(n.value.left, ast.Name) and n.value.left.id == n.targets[0].id \
                    and not any(isinstance(x, ast.Name) and x.id == n.targets[0].id for x in ast.walk(n.value.right)):
                changed = True
                return ast.copy_location(ast.AugAssign(target=ast.Name(id=n.targets[0].id, ctx=ast.Store()), op=n.value.op, value=n.value.right), n)
            return n
    R().visit(tree)
    return changed


def canonicalise(tree: ast.Module) -> ast.Module:
    changed = _desugar_match(tree) if os.environ.get("POLARLINT_NO_MATCH_DESUGAR") != "1" else False
    changed |= _positional_self_calls(tree)
    changed |= _augment(tree)
    changed |= _drop_self_assignments(tree)
    for _round in range(2):
        # locals first (aliases, copies, returned temporaries): they turn more helpers into one-expression helpers; then the helpers;
        # a second round folds what the inlined expressions brought with them
        for fn in _functions(tree):
            changed |= _propagate_copies(fn)
            changed |= _inline_field_aliases(fn)
            changed |= _inline_return_temps(fn)
        # (a) leaves `pass` where the alias was: drop it so that `pass; return e` is a one-expression body
        for fn in _functions(tree):
            if len(fn.body) > 1 and any(isinstance(st, ast.Pass) for st in fn.body):
                fn.body = [st for st in fn.body if not isinstance(st, ast.Pass)] or [ast.Pass()]
        if os.environ.get("POLARLINT_NO_HELPER_INLINE") == "1" or not _inline_trivial_helpers(tree):
            break
        changed = True
    if os.environ.get("POLARLINT_NO_IFEXP_DESUGAR") != "1":
        for _ in range(3):            # nested conditional expressions
            if not _desugar_ifexp_statements(tree):
                break
            changed = True
    changed |= _unnegate_ifs(tree)
    if changed:
        ast.fix_missing_locations(tree)
    return tree
