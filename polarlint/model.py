"""Program model of probing-lab/polar built from source text only (ast).

Nothing in here imports or runs Polar.  The model is rebuilt from the working
tree on every run (root = $POLAR_ROOT or /repo) and may be given *overrides*
(relpath -> source text) so that the self-test can analyse mutated variants
without touching the disk.
"""
import ast
import os
from typing import Dict, List, Optional, Iterable, Tuple

EXCLUDE_DIRS = {"tests", "benchmarks", "documentation", ".git", "__pycache__", ".github"}


_MODULE_CACHE: Dict = {}
_SRC_CACHE: Dict = {}


class AnalysisError(Exception):
    """The checker cannot do its job (anchor vanished, unknown construct...).
    Mapped to exit code 2, never to a violation."""


class Module:
    def __init__(self, relpath: str, source: str):
        self.relpath = relpath
        self.source = source
        try:
            self.tree = ast.parse(source, filename=relpath)
        except SyntaxError as e:  # a tree that does not parse does not "compile"
            raise AnalysisError(f"syntax error in {relpath}: {e}")
        if os.environ.get("POLARLINT_NO_CANON") != "1":
            from .canon import canonicalise
            try:
                self.tree = canonicalise(self.tree)
            except Exception:      # the canonical form is a convenience; the raw tree is always analysable
                self.tree = ast.parse(source, filename=relpath)
        name = relpath[:-3].replace("/", ".")
        if name.endswith(".__init__"):
            name = name[: -len(".__init__")]
            self.is_package = True
        else:
            self.is_package = False
        self.name = name
        for node in ast.walk(self.tree):
            for child in ast.iter_child_nodes(node):
                child._parent = node  # type: ignore
        self.tree._parent = None  # type: ignore
        self.imports: Dict[str, Tuple[str, Optional[str]]] = {}
        self._collect_imports()

    def _collect_imports(self):
        pkg = self.name if self.is_package else self.name.rpartition(".")[0]
        for node in ast.walk(self.tree):
            if isinstance(node, ast.Import):
                for a in node.names:
                    local = a.asname or a.name.split(".")[0]
                    target = a.name if a.asname else a.name.split(".")[0]
                    self.imports[local] = (target, None)
            elif isinstance(node, ast.ImportFrom):
                base = node.module or ""
                if node.level:
                    parts = pkg.split(".") if pkg else []
                    up = node.level - 1
                    if up:
                        parts = parts[:-up] if up <= len(parts) else []
                    base = ".".join(parts + ([node.module] if node.module else []))
                for a in node.names:
                    self.imports[a.asname or a.name] = (base, a.name)

    def line(self, node) -> int:
        return getattr(node, "lineno", 0)


class FunctionInfo:
    def __init__(self, module: Module, node, cls: Optional["ClassInfo"], qualname: str):
        self.module = module
        self.node = node
        self.cls = cls
        self.qualname = qualname
        self.name = node.name

    @property
    def relpath(self):
        return self.module.relpath

    @property
    def key(self):
        return f"{self.module.relpath}::{self.qualname}"

    def params(self) -> List[str]:
        a = self.node.args
        return [x.arg for x in a.posonlyargs + a.args + a.kwonlyargs] + (
            [a.vararg.arg] if a.vararg else []) + ([a.kwarg.arg] if a.kwarg else [])

    def decorators(self) -> List[str]:
        out = []
        for d in self.node.decorator_list:
            out.append(dotted(d.func if isinstance(d, ast.Call) else d) or "?")
        return out

    def __repr__(self):
        return f"<fn {self.key}>"


class ClassInfo:
    def __init__(self, module: Module, node: ast.ClassDef):
        self.module = module
        self.node = node
        self.name = node.name
        self.base_names = [dotted(b) or "?" for b in node.bases]
        self.methods: Dict[str, FunctionInfo] = {}
        self.all_methods: List[FunctionInfo] = []  # includes singledispatch "_" registrations
        self.annotations: Dict[str, str] = {}
        self.class_assigns: Dict[str, ast.AST] = {}
        for st in node.body:
            if isinstance(st, (ast.FunctionDef, ast.AsyncFunctionDef)):
                fi = FunctionInfo(module, st, self, f"{self.name}.{st.name}")
                self.all_methods.append(fi)
                if st.name not in self.methods:
                    self.methods[st.name] = fi
            elif isinstance(st, ast.AnnAssign) and isinstance(st.target, ast.Name):
                self.annotations[st.target.id] = ast.unparse(st.annotation)
                if st.value is not None:
                    self.class_assigns[st.target.id] = st.value
            elif isinstance(st, ast.Assign):
                for t in st.targets:
                    if isinstance(t, ast.Name):
                        self.class_assigns[t.id] = st.value
        self.bases: List["ClassInfo"] = []

    @property
    def relpath(self):
        return self.module.relpath

    def mro(self) -> List["ClassInfo"]:
        out, seen = [], set()

        def rec(c):
            if id(c) in seen:
                return
            seen.add(id(c))
            out.append(c)
            for b in c.bases:
                rec(b)

        rec(self)
        return out

    def find_method(self, name) -> Optional[FunctionInfo]:
        for c in self.mro():
            if name in c.methods:
                return c.methods[name]
        return None

    def is_subclass_of(self, name: str) -> bool:
        return any(c.name == name for c in self.mro())

    def all_annotations(self) -> Dict[str, str]:
        out = {}
        for c in reversed(self.mro()):
            out.update(c.annotations)
        return out

    def is_abstract(self) -> bool:
        for m in self.all_methods:
            if any(d.endswith("abstractmethod") for d in m.decorators()):
                return True
        return False

    def __repr__(self):
        return f"<class {self.module.relpath}::{self.name}>"


def dotted(node) -> Optional[str]:
    """a.b.c for Name/Attribute chains, else None."""
    if isinstance(node, ast.Name):
        return node.id
    if isinstance(node, ast.Attribute):
        b = dotted(node.value)
        return None if b is None else b + "." + node.attr
    return None


class Repo:
    def __init__(self, root: Optional[str] = None, overrides: Optional[Dict[str, str]] = None):
        self.root = root or os.environ.get("POLAR_ROOT", "/repo")
        self.overrides = overrides or {}
        self.modules: Dict[str, Module] = {}
        self.by_name: Dict[str, Module] = {}
        self.classes: List[ClassInfo] = []
        self.class_index: Dict[str, List[ClassInfo]] = {}
        self.functions: List[FunctionInfo] = []
        self.text_files: Dict[str, str] = {}
        self._load()

    # ------------------------------------------------------------------ load
    def _load(self):
        if not os.path.isdir(self.root):
            raise AnalysisError(f"repository root {self.root} not found")
        for dirpath, dirnames, filenames in os.walk(self.root):
            rel = os.path.relpath(dirpath, self.root)
            top = rel.split(os.sep)[0]
            if top in EXCLUDE_DIRS:
                dirnames[:] = []
                continue
            dirnames[:] = sorted(d for d in dirnames if d not in EXCLUDE_DIRS and not d.startswith("."))
            for fn in sorted(filenames):
                relpath = os.path.normpath(os.path.join(rel, fn)).replace(os.sep, "/")
                if fn.endswith(".py"):
                    if relpath in self.overrides:
                        src = self.overrides[relpath]
                    else:
                        ck = (self.root, relpath)
                        src = _SRC_CACHE.get(ck)
                        if src is None:
                            with open(os.path.join(dirpath, fn), encoding="utf-8") as f:
                                src = f.read()
                            _SRC_CACHE[ck] = src
                    self._add_module(relpath, src)
                elif fn.endswith(".lark"):
                    if relpath in self.overrides:
                        self.text_files[relpath] = self.overrides[relpath]
                    else:
                        with open(os.path.join(dirpath, fn), encoding="utf-8") as f:
                            self.text_files[relpath] = f.read()
        for rp, src in self.overrides.items():
            if rp.endswith(".py") and rp not in self.modules:
                self._add_module(rp, src)
        self._index()

    def _add_module(self, relpath, src):
        key = (relpath, src)
        m = _MODULE_CACHE.get(key)
        if m is None:
            m = Module(relpath, src)
            if relpath not in self.overrides:
                _MODULE_CACHE[key] = m
        self.modules[relpath] = m
        self.by_name[m.name] = m

    def _index(self):
        for m in self.modules.values():
            self._index_scope(m, m.tree.body, None, "")
        for c in self.classes:
            self.class_index.setdefault(c.name, []).append(c)
        for c in self.classes:
            for bn in c.base_names:
                b = self.resolve_class(c.module, bn)
                if b is not None:
                    c.bases.append(b)

    def _index_scope(self, m: Module, body, cls, prefix):
        for st in body:
            if isinstance(st, ast.ClassDef):
                ci = ClassInfo(m, st)
                self.classes.append(ci)
                for fi in ci.all_methods:
                    self.functions.append(fi)
                    self._index_nested(m, fi)
            elif isinstance(st, (ast.FunctionDef, ast.AsyncFunctionDef)):
                fi = FunctionInfo(m, st, None, prefix + st.name)
                self.functions.append(fi)
                self._index_nested(m, fi)
            elif isinstance(st, (ast.If, ast.Try)):
                for sub in ast.iter_child_nodes(st):
                    if isinstance(sub, list):
                        pass
                bodies = [getattr(st, "body", []), getattr(st, "orelse", []), getattr(st, "finalbody", [])]
                for b in bodies:
                    self._index_scope(m, b, cls, prefix)

    def _index_nested(self, m, outer: FunctionInfo):
        for node in ast.walk(outer.node):
            if node is outer.node:
                continue
            if isinstance(node, (ast.FunctionDef, ast.AsyncFunctionDef)):
                # only direct nesting level naming; good enough for reporting
                fi = FunctionInfo(m, node, outer.cls, f"{outer.qualname}.<locals>.{node.name}")
                fi.outer = outer  # type: ignore
                self.functions.append(fi)

    # --------------------------------------------------------------- queries
    def module(self, relpath: str) -> Module:
        if relpath not in self.modules:
            raise AnalysisError(f"anchor module {relpath} not found")
        return self.modules[relpath]

    def has_module(self, relpath: str) -> bool:
        return relpath in self.modules

    def text(self, relpath: str) -> str:
        if relpath not in self.text_files:
            raise AnalysisError(f"anchor file {relpath} not found")
        return self.text_files[relpath]

    def resolve_import(self, module: Module, local: str) -> Optional[Tuple[str, Optional[str]]]:
        return module.imports.get(local)

    def resolve_class(self, module: Module, name: str) -> Optional[ClassInfo]:
        """Resolve a (possibly dotted) class name as seen from `module`."""
        parts = name.split(".")
        r = self.resolve_name(module, parts[0])
        for p in parts[1:]:
            if r is None or r[0] != "module" or r[1] is None:
                return None
            r = self._resolve_in(r[1], p, 0)
        return r[1] if r and r[0] == "class" else None

    def cls(self, name: str, relpath: Optional[str] = None) -> ClassInfo:
        cands = [c for c in self.classes if c.name == name and (relpath is None or c.module.relpath == relpath)]
        if not cands:
            raise AnalysisError(f"anchor class {name} not found" + (f" in {relpath}" if relpath else ""))
        if len(cands) > 1:
            raise AnalysisError(f"anchor class {name} ambiguous: {[c.relpath for c in cands]}")
        return cands[0]

    def find_cls(self, name: str) -> Optional[ClassInfo]:
        cands = [c for c in self.classes if c.name == name]
        return cands[0] if len(cands) == 1 else None

    def subclasses(self, base: ClassInfo, include_self=False, concrete_only=False) -> List[ClassInfo]:
        out = []
        for c in self.classes:
            if c is base and not include_self:
                continue
            if base in c.mro():
                if concrete_only and c.is_abstract():
                    continue
                out.append(c)
        return sorted(out, key=lambda c: (c.relpath, c.name))

    def function(self, relpath: str, qualname: str) -> FunctionInfo:
        for f in self.functions:
            if f.module.relpath == relpath and f.qualname == qualname:
                return f
        raise AnalysisError(f"anchor function {relpath}::{qualname} not found")

    def find_function(self, relpath: str, qualname: str) -> Optional[FunctionInfo]:
        for f in self.functions:
            if f.module.relpath == relpath and f.qualname == qualname:
                return f
        return None

    def functions_in(self, relpath_prefix: str) -> List[FunctionInfo]:
        return [f for f in self.functions if f.module.relpath.startswith(relpath_prefix)]

    def enclosing_function(self, module: Module, node) -> Optional[FunctionInfo]:
        cur = node
        while cur is not None:
            if isinstance(cur, (ast.FunctionDef, ast.AsyncFunctionDef)):
                for f in self.functions:
                    if f.node is cur:
                        return f
            cur = getattr(cur, "_parent", None)
        return None

    def resolve_name(self, module: Module, name: str):
        """Resolve a bare name used in `module` to ('class', ClassInfo) / ('func', FunctionInfo) /
        ('module', Module) / ('ext', 'pkg.item') / None."""
        for c in self.classes:
            if c.module is module and c.name == name:
                return ("class", c)
        for f in self.functions:
            if f.module is module and f.cls is None and f.qualname == name:
                return ("func", f)
        imp = module.imports.get(name)
        if imp is None:
            return None
        base, item = imp
        if item is None:
            m2 = self.by_name.get(base)
            return ("module", m2) if m2 else ("ext", base)
        m2 = self.by_name.get(base)
        if m2 is None:
            sub = self.by_name.get((base + "." + item) if base else item)
            if sub is not None:
                return ("module", sub)
            return ("ext", f"{base}.{item}")
        sub = self.by_name.get(base + "." + item)
        if sub is not None and not _defines(m2, item):
            return ("module", sub)
        return self._resolve_in(m2, item, 0)

    def _resolve_in(self, m: Module, name: str, depth: int):
        if depth > 6:
            return None
        for c in self.classes:
            if c.module is m and c.name == name:
                return ("class", c)
        for f in self.functions:
            if f.module is m and f.cls is None and f.qualname == name:
                return ("func", f)
        imp = m.imports.get(name)
        if imp is None:
            # module-level variable
            return ("var", (m, name)) if _defines(m, name) else None
        base, item = imp
        m2 = self.by_name.get(base)
        if m2 is None:
            return ("ext", f"{base}.{item}" if item else base)
        if item is None:
            return ("module", m2)
        sub = self.by_name.get(base + "." + item)
        if sub is not None and not _defines(m2, item):
            return ("module", sub)
        return self._resolve_in(m2, item, depth + 1)


def _defines(m: Module, name: str) -> bool:
    for st in m.tree.body:
        if isinstance(st, (ast.FunctionDef, ast.ClassDef)) and st.name == name:
            return True
        if isinstance(st, ast.Assign):
            for t in st.targets:
                if isinstance(t, ast.Name) and t.id == name:
                    return True
        if isinstance(st, ast.AnnAssign) and isinstance(st.target, ast.Name) and st.target.id == name:
            return True
        if isinstance(st, (ast.Import, ast.ImportFrom)):
            for a in st.names:
                if (a.asname or a.name) == name:
                    return True
    return False


# ---------------------------------------------------------------- ast helpers
def walk_no_nested(node) -> Iterable[ast.AST]:
    """ast.walk that does not descend into nested function/class definitions/lambdas
    (the root itself may be a function)."""
    stack = [node]
    first = True
    while stack:
        n = stack.pop()
        if not first and isinstance(n, (ast.FunctionDef, ast.AsyncFunctionDef, ast.ClassDef, ast.Lambda)):
            continue
        first = False
        yield n
        stack.extend(reversed(list(ast.iter_child_nodes(n))))


def calls_in(node, nested=True) -> List[ast.Call]:
    it = ast.walk(node) if nested else walk_no_nested(node)
    return [n for n in it if isinstance(n, ast.Call)]


def call_name(call: ast.Call) -> str:
    """last component of the callee ('rvs' for truncnorm.rvs(...))."""
    f = call.func
    if isinstance(f, ast.Attribute):
        return f.attr
    if isinstance(f, ast.Name):
        return f.id
    return ""


def is_self_attr(node, attr: Optional[str] = None, selfname="self") -> bool:
    return (isinstance(node, ast.Attribute) and isinstance(node.value, ast.Name)
            and node.value.id == selfname and (attr is None or node.attr == attr))


def names_in(node) -> set:
    return {n.id for n in ast.walk(node) if isinstance(n, ast.Name)}


def self_attrs_in(node, selfname="self") -> set:
    return {n.attr for n in ast.walk(node) if is_self_attr(n, None, selfname)}


def src(node) -> str:
    try:
        return ast.unparse(node)
    except Exception:  # pragma: no cover
        return "<?>"


def const_str(node) -> Optional[str]:
    if isinstance(node, ast.Constant) and isinstance(node.value, str):
        return node.value
    return None


def parent(node):
    return getattr(node, "_parent", None)


def clone(node):
    """structural copy of an AST subtree with positions, WITHOUT the `_parent` back links (copy.deepcopy would follow them and copy the
    whole module); parents inside the copy are set afresh, the root's parent is left unset"""
    if isinstance(node, list):
        return [clone(x) for x in node]
    if not isinstance(node, ast.AST):
        return node
    new = type(node)()
    for fld in node._fields:
        if hasattr(node, fld):
            v = clone(getattr(node, fld))
            setattr(new, fld, v)
            for ch in (v if isinstance(v, list) else [v]):
                if isinstance(ch, ast.AST):
                    ch._parent = new  # type: ignore
    for a in ("lineno", "col_offset", "end_lineno", "end_col_offset"):
        if hasattr(node, a):
            setattr(new, a, getattr(node, a))
    return new


def set_parents(root, root_parent=None):
    root._parent = root_parent  # type: ignore
    for n in ast.walk(root):
        for ch in ast.iter_child_nodes(n):
            ch._parent = n  # type: ignore


def enclosing_stmt(node):
    cur = node
    while cur is not None and not isinstance(cur, ast.stmt):
        cur = parent(cur)
    return cur


def ancestors(node):
    cur = parent(node)
    while cur is not None:
        yield cur
        cur = parent(cur)
