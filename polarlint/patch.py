"""Minimal in-memory application of a unified diff (as written by `git diff`) to source texts.
Used only by the self-test of the thorough tier: the kept seeded changes / benign refactorings of
/verif/seeded and /verif/benign are applied to the *current* sources in memory and analysed through
Repo(overrides=...).  Nothing is written to disk and nothing of the analysed program is executed.
A hunk that does not fit the current text (the tree moved on) makes the whole patch "not applicable"."""
import os
import re
from typing import Dict, List, Optional, Tuple

_HUNK = re.compile(r"^@@ -(\d+)(?:,(\d+))? \+(\d+)(?:,(\d+))? @@")


class PatchError(Exception):
    pass


def parse(text: str) -> List[Tuple[str, str, List[Tuple[int, List[str]]]]]:
    """[(old path, new path, [(old start line, hunk lines)])]"""
    files = []
    cur = None
    lines = text.split("\n")
    i = 0
    while i < len(lines):
        ln = lines[i]
        if ln.startswith("diff --git "):
            cur = None
        elif ln.startswith("--- "):
            old = ln[4:].strip()
            new = lines[i + 1][4:].strip() if i + 1 < len(lines) and lines[i + 1].startswith("+++ ") else old
            strip = lambda p: None if p == "/dev/null" else re.sub(r"^[ab]/", "", p)
            cur = (strip(old), strip(new), [])
            files.append(cur)
            i += 1
        elif ln.startswith("@@") and cur is not None:
            m = _HUNK.match(ln)
            if not m:
                raise PatchError("bad hunk header: " + ln)
            body = []
            i += 1
            while i < len(lines) and not lines[i].startswith(("@@", "diff --git ")):
                if lines[i].startswith("\\"):      # "\ No newline at end of file"
                    i += 1
                    continue
                body.append(lines[i])
                i += 1
            # a trailing empty string comes from the final newline of the patch file
            while body and body[-1] == "" and (i >= len(lines)):
                body.pop()
            cur[2].append((int(m.group(1)), body))
            continue
        i += 1
    return files


def _apply_file(src: str, hunks: List[Tuple[int, List[str]]]) -> str:
    had_nl = src.endswith("\n")
    lines = src.split("\n")
    if had_nl:
        lines.pop()
    offset = 0
    for start, body in hunks:
        old = [b[1:] for b in body if b[:1] in (" ", "-") or b == ""]
        new = [b[1:] for b in body if b[:1] in (" ", "+") or b == ""]
        want = start - 1 + offset
        pos = None
        # exact position first, then a search nearby (the tree may have shifted by unrelated edits)
        for delta in sorted(range(-400, 401), key=abs):
            p = want + delta
            if 0 <= p <= len(lines) - len(old) and lines[p:p + len(old)] == old:
                pos = p
                break
        if pos is None:
            raise PatchError(f"hunk at line {start} does not fit")
        lines[pos:pos + len(old)] = new
        offset += len(new) - len(old) + (pos - want)
    return "\n".join(lines) + ("\n" if had_nl else "")


def overrides_from_patch(root: str, patch_text: str, current: Optional[Dict[str, str]] = None) -> Dict[str, str]:
    """{relpath: patched source}; raises PatchError if the patch does not fit the sources under `root`"""
    out = {}
    for old, new, hunks in parse(patch_text):
        path = new or old
        if path is None:
            continue
        if old is None:
            src = ""
        elif current is not None and old in current:
            src = current[old]
        else:
            fp = os.path.join(root, old)
            if not os.path.isfile(fp):
                raise PatchError(f"{old} does not exist")
            with open(fp, encoding="utf-8") as f:
                src = f.read()
        if new is None:
            raise PatchError("file deletion is not supported")
        out[new] = _apply_file(src, hunks)
    if not out:
        raise PatchError("empty patch")
    return out
