"""Family B: typestate of the normalisation pipeline and of the CLI actions, plus the
structural obligations of individual passes (list rebuilding, memo invalidation)."""
import ast
import itertools
import re
from typing import Dict, List, Optional, Set, Tuple

from ..model import Repo, ClassInfo, FunctionInfo, AnalysisError, walk_no_nested, src, is_self_attr, call_name, dotted, parent, \
    ancestors, enclosing_stmt
from ..core import Ob, Rule, Mutant, mutate_module, find_def, replace_node, remove_stmt, inconclusive
from ..dataflow import Defs
from ..cfg import cfg_of, CFG

NORMALIZE = ("program/transformer/__init__.py", "normalize_program")
TRANSFORMER_BASE = ("Transformer", "program/transformer/transformer.py")
CTORS = {"PolyAssignment", "DistAssignment", "FunctionalAssignment"}


# ------------------------------------------------------------------ reading the pipeline
class Step:
    def __init__(self, cls: ClassInfo, call: ast.Call, guards: Tuple[Tuple[str, bool], ...], line: int):
        self.cls = cls
        self.call = call          # the constructor call X(...)
        self.guards = guards      # ((test source, branch taken), ...)
        self.line = line

    @property
    def name(self):
        return self.cls.name

    def __repr__(self):
        return f"{self.name}@{self.line}{list(self.guards) if self.guards else ''}"


def read_pipeline(repo: Repo) -> Tuple[FunctionInfo, List[Step]]:
    fn = repo.function(*NORMALIZE)
    base = repo.cls(*TRANSFORMER_BASE)
    steps: List[Step] = []

    def visit(stmts, guards):
        for st in stmts:
            if isinstance(st, ast.If):
                t = src(st.test)
                visit(st.body, guards + ((t, True),))
                visit(st.orelse, guards + ((t, False),))
                continue
            if isinstance(st, (ast.For, ast.While, ast.Try, ast.With)):
                raise AnalysisError(f"normalize_program: unexpected compound statement at line {st.lineno}")
            for c in ast.walk(st):
                if isinstance(c, ast.Call) and isinstance(c.func, ast.Attribute) and c.func.attr == "execute" and isinstance(c.func.value, ast.Call):
                    ctor = c.func.value
                    cname = dotted(ctor.func)
                    ci = repo.resolve_class(fn.module, cname) if cname else None
                    if ci is None or base not in ci.mro():
                        raise AnalysisError(f"normalize_program: cannot resolve pass `{src(ctor)}`")
                    steps.append(Step(ci, ctor, guards, st.lineno))

    visit(fn.node.body, ())
    if len(steps) < 8:
        raise AnalysisError(f"normalize_program: only {len(steps)} passes found")
    return fn, steps


def paths(steps: List[Step]) -> List[List[Step]]:
    tests = []
    for s in steps:
        for t, _ in s.guards:
            if t not in tests:
                tests.append(t)
    out = []
    for vals in itertools.product((True, False), repeat=len(tests)):
        env = dict(zip(tests, vals))
        out.append(([s for s in steps if all(env[t] == b for t, b in s.guards)], env))
    return out


# ------------------------------------------------------------------ derived facts about a pass class
def _impl_functions(repo: Repo, cls: ClassInfo) -> List[FunctionInfo]:
    """methods of the pass class (own and inherited from non-abstract bases) plus methods of helper classes
    it instantiates (e.g. FiniteFixedPointTyper), excluding other Transformer passes."""
    base = repo.cls(*TRANSFORMER_BASE)
    out = []
    seen = set()
    for c in cls.mro():
        if c.name in ("Transformer", "TreeTransformer", "ABC"):
            continue
        for m in c.all_methods:
            if id(m.node) not in seen:
                seen.add(id(m.node))
                out.append(m)
    helpers = []
    for m in list(out):
        for c in walk_no_nested(m.node):
            if isinstance(c, ast.Call):
                d = dotted(c.func)
                if d:
                    ci = repo.resolve_class(m.module, d)
                    if ci is not None and base not in ci.mro() and ci.relpath.startswith(("type_inference/",)):
                        helpers.append(ci)
    for h in helpers:
        for c in h.mro():
            for m in c.all_methods:
                if id(m.node) not in seen:
                    seen.add(id(m.node))
                    out.append(m)
    return out


def is_tree_pass(repo: Repo, cls: ClassInfo) -> bool:
    return any(c.name == "TreeTransformer" for c in cls.mro())


def requires_flat(repo: Repo, cls: ClassInfo) -> Optional[str]:
    """D-flat: a non-tree pass that iterates a program section and reads `.variable` / `.condition` /
    `.subs` on the elements treats every element as an Assignment."""
    if is_tree_pass(repo, cls):
        return None
    for m in _impl_functions(repo, cls):
        defs = Defs(m.node, m.params()[0] if m.params() else None)
        for n in walk_no_nested(m.node):
            if isinstance(n, ast.Attribute) and n.attr in ("variable", "condition", "get_support", "get_free_symbols") and isinstance(n.ctx, ast.Load):
                r = defs.roots(n.value)
                ann_params = {"param:" + a.arg for a in m.node.args.args if a.annotation is not None and "Assignment" in src(a.annotation)}
                if any(x in ("attr:loop_body", "attr:initial") for x in r) or (r & ann_params):
                    if not any(isinstance(x, ast.Call) and call_name(x) == "isinstance" and "IfStatem" in src(x) for x in walk_no_nested(m.node)):
                        return f"{m.qualname} reads `.{n.attr}` of section elements"
    return None


INFO_FIELDS = {"symbols", "var_to_index", "index_to_var", "dependency_info", "effective_variables", "defective_variables",
               "dist_variables", "func_variables"}
INFO_METHODS = {"is_iteration_dependent", "is_dependent", "is_dependent_vars"}


def requires_info(repo: Repo, cls: ClassInfo) -> Optional[str]:
    if cls.name == "UpdateInfoTransformer":
        return None
    for m in _impl_functions(repo, cls):
        for n in walk_no_nested(m.node):
            if isinstance(n, ast.Attribute) and isinstance(n.ctx, ast.Load) and (n.attr in INFO_FIELDS or n.attr in INFO_METHODS):
                b = src(n.value)
                if b.endswith("program"):
                    return f"{m.qualname} reads program.{n.attr}"
    return None


def construct_sites(repo: Repo, cls: ClassInfo) -> List[Tuple[FunctionInfo, ast.AST, str]]:
    """places where the pass changes what UpdateInfoTransformer summarises: new assignments,
    renamed targets, removed variables, new types."""
    out = []
    for m in _impl_functions(repo, cls):
        if m.cls is not None and m.cls.relpath.startswith("type_inference/"):
            continue
        for n in walk_no_nested(m.node):
            if isinstance(n, ast.Call):
                d = dotted(n.func) or ""
                head = d.split(".")[0]
                if head in CTORS:
                    out.append((m, n, f"constructs {d}"))
                elif isinstance(n.func, ast.Attribute) and n.func.attr == "add_type":
                    out.append((m, n, "adds a type"))
                elif isinstance(n.func, ast.Attribute) and n.func.attr in ("remove", "discard") and src(n.func.value).endswith("program.variables"):
                    out.append((m, n, "removes a variable"))
            elif isinstance(n, ast.Assign):
                for t in n.targets:
                    if isinstance(t, ast.Attribute) and t.attr == "variable" and not is_self_attr(t):
                        out.append((m, n, "renames an assignment target"))
    return out


def self_heals(repo: Repo, cls: ClassInfo) -> Tuple[bool, str]:
    """the pass re-runs UpdateInfoTransformer itself whenever one of its construct sites was reached"""
    ex = cls.find_method("execute")
    if ex is None:
        return False, "no execute"
    selfn = ex.params()[0]
    flag = None
    from ..shape import expanded
    exn = expanded(repo, ex)          # the guarded re-run may have been moved into a helper of the pass
    c = cfg_of(exn)
    reruns = [x for x in walk_no_nested(exn) if isinstance(x, ast.Call) and isinstance(x.func, ast.Attribute) and x.func.attr == "execute" and "UpdateInfoTransformer" in src(x.func.value)]
    if not reruns:
        return False, "execute never re-runs UpdateInfoTransformer"
    from ..shape import conjuncts
    from .validate import controlling_tests
    for call in reruns:
        rn = c.node_of(call)
        if rn is None:
            continue
        facts = []
        for t, reach in controlling_tests(c, rn):
            if isinstance(t.ast, ast.expr):
                facts += conjuncts(t.ast, bool(reach))
        # the re-run happens exactly when the flag is set: the flag (true) is the only fact deciding it
        if len(facts) == 1 and is_self_attr(facts[0][0], None, selfn) and facts[0][1] is True:
            flag = facts[0][0].attr
    if flag is None:
        return False, "the re-run of UpdateInfoTransformer is not controlled by exactly one flag of the pass"
    sites = construct_sites(repo, cls)
    for m, site, what in sites:
        # within the function holding the site (or its caller within the class) the flag is set on every path after the site
        if not _flag_set_after(repo, cls, m, site, flag, depth=2):
            return False, f"{m.qualname}: `{what}` at line {site.lineno} without setting self.{flag}"
    return True, f"self.{flag} is set after every construct site and execute re-runs UpdateInfoTransformer"


def _flag_set_after(repo: Repo, cls: ClassInfo, m: FunctionInfo, site, flag: str, depth: int) -> bool:
    c = cfg_of(m.node)
    sn = c.node_of(site)
    selfn = m.params()[0] if m.params() else "self"
    if sn is None:
        return False
    for n in c.nodes:
        if n.kind == "stmt" and isinstance(n.ast, ast.Assign) and any(is_self_attr(t, flag, selfn) for t in n.ast.targets) \
                and isinstance(n.ast.value, ast.Constant) and n.ast.value.value is True:
            if c.postdominates(n, sn) or c.dominates(n, sn):
                return True
    if depth <= 0:
        return False
    # look at the callers of m inside the class: the flag may be set right after the call
    for caller in cls.all_methods:
        if caller.node is m.node:
            continue
        for call in walk_no_nested(caller.node):
            if isinstance(call, ast.Call) and isinstance(call.func, ast.Attribute) and call.func.attr == m.name and isinstance(call.func.value, ast.Name) \
                    and call.func.value.id == (caller.params()[0] if caller.params() else "self"):
                if _flag_set_after(repo, cls, caller, call, flag, depth - 1):
                    return True
    return False


def kills_info(repo: Repo, cls: ClassInfo) -> Tuple[bool, str]:
    if cls.name == "UpdateInfoTransformer":
        return False, ""
    sites = construct_sites(repo, cls)
    if not sites:
        return False, ""
    ok, why = self_heals(repo, cls)
    if ok:
        return False, why
    m, site, what = sites[0]
    return True, f"{what} ({m.qualname}:{site.lineno}); {why}"


def info_level(step: Step) -> str:
    """'partial' if constructed with ignore_unsolvability=True (no effective/defective classification)"""
    c = step.call
    for k in c.keywords:
        if k.arg == "ignore_unsolvability" and isinstance(k.value, ast.Constant) and k.value.value is True:
            return "partial"
    if c.args and isinstance(c.args[0], ast.Constant) and c.args[0].value is True:
        return "partial"
    return "full"


# provider -> consumer constraints that are not derivable by the detectors above (one line of reason each);
# every entry carries a witness that is re-validated on each run.
def _w_ctor(name):
    def w(repo, cls):
        return any(isinstance(c, ast.Call) and (dotted(c.func) or "").split(".")[0] == name for m in _impl_functions(repo, cls) for c in walk_no_nested(m.node))
    return w


def _w_calls(attr):
    def w(repo, cls):
        return any(isinstance(c, ast.Call) and isinstance(c.func, ast.Attribute) and c.func.attr == attr for m in _impl_functions(repo, cls) for c in walk_no_nested(m.node))
    return w


ORDER_TABLE = [
    # (first, then, reason, witness on `first`, witness on `then`)
    ("LoopGuardTransformer", "IfTransformer", "the loop guard is folded into an if-statement around the body, which only IfTransformer flattens",
     _w_ctor("IfStatem"), None),
    ("DistTransformer", "IfTransformer", "draw rewriting emits fresh *unconditioned* assignments; the branch conditions are attached afterwards by IfTransformer",
     _w_ctor("DistAssignment"), _w_calls("add_to_condition")),
    ("MultiAssignTransformer", "TypeInferer", "type inference assumes one assignment per variable (documented precondition of FiniteFixedPointTyper)",
     None, None),
    ("ConditionsReducer", "ConditionsNormalizer", "get_normalized raises on atoms that are not of the form <variable> <cop> <integer>",
     _w_calls("reduce"), _w_calls("get_normalized")),
    ("ConditionsReducer", "TypeInferer", "condition aliases introduced by the reducer need (finite) types before conditions are normalised",
     _w_calls("reduce"), None),
    ("ConstantsTransformer", "TypeInferer", "loop constants must have been folded / re-assigned (c = c) before value sets are computed over the body",
     None, None),
    ("TypeInferer", "ConditionsNormalizer", "inequalities are expanded over the inferred value sets",
     _w_calls("add_type"), _w_calls("get_normalized")),
    ("ConditionsNormalizer", "ConditionsToArithm", "to_arithm raises on atoms that are not normalised",
     _w_calls("get_normalized"), _w_calls("to_arithm")),
]


def rule_pass_order(repo: Repo) -> List[Ob]:
    obs = []
    fn, steps = read_pipeline(repo)
    classes = {s.name: s.cls for s in steps}
    base = repo.cls(*TRANSFORMER_BASE)
    # validate table witnesses (stale table => analysis error, never a silent pass)
    for a, b, reason, wa, wb in ORDER_TABLE:
        for nm, w in ((a, wa), (b, wb)):
            ci = repo.find_cls(nm)
            if ci is None:
                raise AnalysisError(f"pass {nm} of the order table not found")
            if w is not None and not w(repo, ci):
                raise AnalysisError(f"order table entry {a} -> {b}: code witness on {nm} no longer holds")
    flat = {}
    info = {}
    kills = {}
    for ci in repo.subclasses(base):
        if ci.is_abstract() and ci.name in ("TreeTransformer",):
            continue
        flat[ci.name] = requires_flat(repo, ci)
        info[ci.name] = requires_info(repo, ci)
        kills[ci.name] = kills_info(repo, ci)
    tree_flatteners = [n for n in classes if n == "IfTransformer"]
    if not tree_flatteners:
        ifc = repo.find_cls("IfTransformer")
        if ifc is None:
            raise AnalysisError("IfTransformer not found")
    for path, env in paths(steps):
        tag = ",".join(f"{t}={v}" for t, v in sorted(env.items())) or "-"
        done: List[str] = []
        level = "none"
        for s in path:
            nm = s.name
            key = f"{fn.relpath}::normalize_program::[{tag}]::{nm}@{len([d for d in done if d == nm])}"
            problems = []
            if flat.get(nm) and "IfTransformer" not in done:
                problems.append(f"needs a flattened program ({flat[nm]}) but IfTransformer has not run")
            if info.get(nm) and level == "none":
                problems.append(f"needs program info ({info[nm]}) but no UpdateInfoTransformer result is fresh here")
            for a, b, reason, _, _ in ORDER_TABLE:
                if nm == b and a not in done and (a in classes or True):
                    # provider missing on this path
                    if a == "TypeInferer" and any(t.startswith("not settings.disable_type_inference") or "disable_type_inference" in t for t in env):
                        # type inference switched off by the user: types come from declarations
                        if a not in [x.name for x in path]:
                            continue
                    problems.append(f"must run after {a}: {reason}")
                if nm == a and b in done:
                    problems.append(f"must run before {b}: {reason}")
            obs.append(Ob("B-pass-order", key, fn.relpath, s.line, "normalize_program", not problems,
                          f"{nm}: preconditions established by {done}" if not problems else f"{nm}: " + "; ".join(problems)))
            # effects
            if nm == "UpdateInfoTransformer":
                level = info_level(s)
            else:
                k, why = kills.get(nm, (False, ""))
                if k:
                    level = "none"
            done.append(nm)
        ok = level == "full"
        obs.append(Ob("B-pass-order", f"{fn.relpath}::normalize_program::[{tag}]::final-info", fn.relpath, fn.node.lineno, "normalize_program", ok,
                      "program info (symbols, indices, dependency and effective/defective classification) is fresh and complete at the end of normalisation" if ok else
                      f"at the end of normalisation the program info is `{level}`: a later pass changed the program after the last complete UpdateInfoTransformer"))
        # every pass of the order table must be present on the path (its effect is relied upon downstream)
        for need in ("LoopGuardTransformer", "DistTransformer", "IfTransformer", "MultiAssignTransformer", "ConditionsReducer",
                     "ConstantsTransformer", "ConditionsNormalizer"):
            if need not in done:
                obs.append(Ob("B-pass-order", f"{fn.relpath}::normalize_program::[{tag}]::missing::{need}", fn.relpath, fn.node.lineno, "normalize_program", False,
                              f"{need} does not run on this path of normalize_program; the recurrence builder relies on its result"))
    # the function must return the transformed program
    return obs


def mut_pass_order(repo: Repo) -> List[Mutant]:
    out = []

    def swap(tree, a, b):
        fn = find_def(tree, "normalize_program")
        ia = ib = None
        for i, st in enumerate(fn.body):
            s = src(st)
            if isinstance(st, ast.Assign) and f"{a}(" in s and ia is None:
                ia = i
            if isinstance(st, ast.Assign) and f"{b}(" in s and ib is None:
                ib = i
        if ia is None or ib is None:
            return False
        fn.body[ia], fn.body[ib] = fn.body[ib], fn.body[ia]
        return True

    def drop(tree, a, occurrence=0):
        fn = find_def(tree, "normalize_program")
        k = 0
        for i, st in enumerate(fn.body):
            if isinstance(st, ast.Assign) and f"{a}(" in src(st):
                if k == occurrence:
                    del fn.body[i]
                    return True
                k += 1
        return False
    rp = NORMALIZE[0]
    for i, (a, b) in enumerate([("IfTransformer", "MultiAssignTransformer"), ("DistTransformer", "IfTransformer"), ("LoopGuardTransformer", "IfTransformer"),
                                ("ConditionsReducer", "ConditionsNormalizer"), ("ConstantsTransformer", "UpdateInfoTransformer")]):
        ov = mutate_module(repo, rp, lambda t, a=a, b=b: swap(t, a, b))
        if ov:
            out.append(Mutant(f"swap:{a}<->{b}", ov, "fire", "normalize_program::", control=(i == 0)))
    for a, occ in [("UpdateInfoTransformer", 1), ("UpdateInfoTransformer", 0), ("MultiAssignTransformer", 0), ("ConditionsReducer", 0)]:
        ov = mutate_module(repo, rp, lambda t, a=a, occ=occ: drop(t, a, occ))
        if ov:
            out.append(Mutant(f"drop:{a}#{occ}", ov, "fire", "normalize_program::"))

    def forget_flag(tree):
        fn = find_def(tree, "ConditionsNormalizer._normalize_conditions")
        if fn is None:
            return False
        for n in ast.walk(fn):
            if isinstance(n, ast.Assign) and any(is_self_attr(t, "needs_info_update") for t in n.targets):
                return replace_node(fn, n, ast.Pass())
        return False
    ov = mutate_module(repo, "program/transformer/conditions_normalizer.py", forget_flag)
    if ov:
        out.append(Mutant("normalizer-forgets-info-update", ov, "fire", "final-info"))
    return out


# ------------------------------------------------------------------ CLI actions: parse -> normalize -> analyse
PRODUCERS = {"parse_program", "parse_file", "parse_string"}
CONSUMERS = {"RecBuilder", "DiffRecBuilder", "get_moment", "get_moment_poly", "get_all_moments", "get_all_cumulants", "get_all_cumulants_after_loop",
             "get_moment_given_termination", "get_all_moments_given_termination", "synth_inv", "synth_loop", "initialize_program", "get_dependent_variables"}


def rule_actions(repo: Repo) -> List[Ob]:
    obs = []
    n_consumers = 0
    for f in repo.functions:
        if not f.relpath.startswith(("cli/", "polar.py")):
            continue
        produces = any(isinstance(c, ast.Call) and call_name(c) in PRODUCERS for c in walk_no_nested(f.node))
        if not produces:
            continue
        c = cfg_of(f.node)
        # forward dataflow: state[var] in {'raw','norm'} sets
        IN: Dict = {n: {} for n in c.nodes}
        work = [c.entry]
        def transfer(n, st):
            st = {k: set(v) for k, v in st.items()}
            a = n.ast
            if n.kind == "stmt" and isinstance(a, ast.Assign):
                tname = dotted(a.targets[0]) if len(a.targets) == 1 else None
                if tname:
                    v = a.value
                    if isinstance(v, ast.Call) and call_name(v) in PRODUCERS:
                        st[tname] = {"raw"}
                    elif isinstance(v, ast.Call) and call_name(v) == "normalize_program":
                        st[tname] = {"norm"}
                    elif isinstance(v, (ast.Name, ast.Attribute)) and dotted(v) in st:
                        st[tname] = set(st[dotted(v)])
                    else:
                        st.pop(tname, None)
            return st
        changed = True
        order = c.nodes
        it = 0
        while changed and it < 50:
            changed = False
            it += 1
            for n in order:
                ins: Dict[str, Set[str]] = {}
                for p in c.preds(n):
                    out_p = transfer(p, IN[p])
                    for k, v in out_p.items():
                        ins.setdefault(k, set()).update(v)
                if ins != IN[n]:
                    IN[n] = ins
                    changed = True
        for n in c.nodes:
            if n.ast is None:
                continue
            for call in [x for x in ast.walk(n.ast) if isinstance(x, ast.Call) and call_name(x) in CONSUMERS]:
                for a in list(call.args) + [k.value for k in call.keywords]:
                    d = dotted(a)
                    if d and d in IN[n]:
                        n_consumers += 1
                        st = IN[n][d]
                        ok = st == {"norm"}
                        obs.append(Ob("B-actions", f"{f.relpath}::{f.qualname}::{call_name(call)}::{d}", f.relpath, call.lineno, f.qualname, ok,
                                      f"`{d}` reaches {call_name(call)}(...) only after normalize_program" if ok else
                                      f"`{d}` may reach {call_name(call)}(...) straight from the parser (state {sorted(st)}): recurrences are built on an un-normalised program"))
    if n_consumers < 8:
        raise AnalysisError(f"B-actions: only {n_consumers} program consumers found in cli/")
    return obs


def mut_actions(repo: Repo) -> List[Mutant]:
    out = []

    def drop_norm(tree, qn):
        fn = find_def(tree, qn)
        if fn is None:
            return False
        for n in ast.walk(fn):
            if isinstance(n, ast.Assign) and isinstance(n.value, ast.Call) and call_name(n.value) == "normalize_program":
                return replace_node(fn, n, ast.Pass())
        return False
    for i, (rp, qn) in enumerate([("cli/actions/goals_action.py", "GoalsAction.__call__"), ("cli/actions/plot_action.py", "PlotAction.__call__"),
                                  ("cli/actions/gram_charlier_action.py", "GramCharlierAction.__call__")]):
        ov = mutate_module(repo, rp, lambda t, qn=qn: drop_norm(t, qn))
        if ov:
            out.append(Mutant(f"skip-normalize:{qn}", ov, "fire", qn, control=(i == 0)))
    return out


# ------------------------------------------------------------------ list rebuilding covers every assignment kind
def rule_rebuilders(repo: Repo) -> List[Ob]:
    """A loop that rebuilds a section (`new = []; for a in section: ... new.append(a) ...; return new`)
    must keep or replace *every* element: on each path through the loop body the current element (or a
    replacement) is appended, or the path raises."""
    obs = []
    base = repo.cls(*TRANSFORMER_BASE)
    assign_base = repo.cls("Assignment", "program/assignment/assignment.py")
    subclasses = {c.name for c in repo.subclasses(assign_base)}
    for cls in repo.subclasses(base):
        for m in cls.all_methods:
            for loop in [n for n in walk_no_nested(m.node) if isinstance(n, ast.For)]:
                if not isinstance(loop.target, ast.Name):
                    continue
                elem = loop.target.id
                # list(s) appended to inside the loop and returned by the function
                appended = {}
                for c in ast.walk(loop):
                    if isinstance(c, ast.Call) and isinstance(c.func, ast.Attribute) and c.func.attr in ("append", "extend", "insert") and isinstance(c.func.value, ast.Name):
                        appended.setdefault(c.func.value.id, []).append(c)
                    if isinstance(c, ast.AugAssign) and isinstance(c.op, ast.Add) and isinstance(c.target, ast.Name):
                        appended.setdefault(c.target.id, []).append(c)
                returned = {r.value.id for r in walk_no_nested(m.node) if isinstance(r, ast.Return) and isinstance(r.value, ast.Name)}
                lists = [l for l in appended if l in returned]
                if not lists:
                    continue
                lst = lists[0]
                # sub-CFG of the loop body: does every path from body entry back to the loop head pass an append to lst (or raise)?
                c = cfg_of(m.node)
                head = next((n for n in c.nodes if n.kind == "test" and n.stmt is loop), None)
                if head is None:
                    continue
                app_nodes = {c.node_of(a) for a in appended[lst]}
                body_entries = [b for b, lab in c.succ[head] if lab is True]
                ok = True
                for be in body_entries:
                    # reach head again from be while avoiding all append nodes?
                    if be in app_nodes:
                        continue
                    if c.reachable(be, head, avoid=app_nodes):
                        ok = False
                key = f"{m.relpath}::{m.qualname}::rebuild::{lst}"
                kinds = sorted({k for x in ast.walk(loop) if isinstance(x, ast.Call) and call_name(x) == "isinstance" for k in subclasses if k in src(x)})
                obs.append(Ob("B-rebuild", key, m.relpath, loop.lineno, m.qualname, ok,
                              f"every path through the loop body appends to `{lst}` (or raises): no assignment is dropped" if ok else
                              f"some path through the loop body reaches the next iteration without appending to `{lst}`: an assignment kind not matched by {kinds or 'the tests'} silently disappears from the program"))
    return obs


def mut_rebuilders(repo: Repo) -> List[Mutant]:
    out = []

    def drop_append(tree):
        fn = find_def(tree, "ConditionsReducer._reduce_conditions")
        if fn is None:
            return False
        for n in ast.walk(fn):
            if isinstance(n, ast.Expr) and isinstance(n.value, ast.Call) and call_name(n.value) == "append" and src(n.value.args[0]) == "assign":
                new = ast.If(test=ast.parse("isinstance(assign, PolyAssignment)").body[0].value, body=[n], orelse=[])
                return replace_node(fn, n, new)
        return False
    ov = mutate_module(repo, "program/transformer/conditions_reducer.py", drop_append)
    if ov:
        out.append(Mutant("reducer-keeps-only-poly", ov, "fire", "ConditionsReducer._reduce_conditions::rebuild", control=True))
    return out


# ------------------------------------------------------------------ memo stores are invalidated on reassignment
def _is_symbol_filter(dc: ast.DictComp, store_name: Optional[str]) -> Optional[Tuple[bool, str]]:
    """(drops every entry that mentions the variable?, filter text) for `{k: v for k, v in S.items() if V not in <symbols of k>}`"""
    if not dc.generators:
        return None
    g = dc.generators[0]
    if not (isinstance(g.iter, ast.Call) and call_name(g.iter) == "items"):
        return None
    if store_name is not None and src(g.iter.func.value) != store_name:
        return None
    cond = " and ".join(src(x) for x in g.ifs)
    if "not in" not in cond:
        return None
    key = g.target.elts[0].id if isinstance(g.target, ast.Tuple) and isinstance(g.target.elts[0], ast.Name) else None
    whole = key is not None and re.search(r"\b%s\.get_free_symbols\(\)" % key, cond) is not None
    return whole, cond


def rule_memo_invalidation(repo: Repo) -> List[Ob]:
    """A dict that memoises facts about conditions across the assignments of a section must drop, at
    every assignment, the entries whose key mentions the assigned variable."""
    import re as _re
    obs = []
    for rp, qn in (("program/transformer/conditions_reducer.py", "ConditionsReducer._reduce_conditions"),
                   ("program/transformer/conditions_normalizer.py", "ConditionsNormalizer._normalize_conditions")):
        m = repo.function(rp, qn)
        from ..shape import expanded
        # the section loop may have been moved into a helper of the pass: the expanded view is used only when the loop is not in the method itself
        mx = m.node if any(isinstance(n, ast.For) and isinstance(n.target, ast.Name) for n in walk_no_nested(m.node)) else expanded(repo, m)
        loops = [n for n in walk_no_nested(mx) if isinstance(n, ast.For) and isinstance(n.target, ast.Name)]
        key0 = f"{rp}::{qn}"
        if not loops:
            obs.append(inconclusive("B-memo", key0 + "::store", rp, m.node.lineno, qn, "section loop not recognised"))
            continue
        loop = loops[0]
        elem = loop.target.id
        stores = [t.id for st in mx.body if isinstance(st, (ast.Assign, ast.AnnAssign))
                  for t in (st.targets if isinstance(st, ast.Assign) else [st.target])
                  if isinstance(t, ast.Name) and isinstance(st.value, ast.Dict) and not st.value.keys]
        used = [s_ for s_ in stores if any(isinstance(c, ast.Call) and any(isinstance(a, ast.Name) and a.id == s_ for a in c.args) for c in ast.walk(loop))]
        if not used:
            obs.append(inconclusive("B-memo", key0 + "::store", rp, loop.lineno, qn, "memo store not recognised"))
            continue
        store = used[0]
        key = f"{key0}::{store}"
        c = cfg_of(mx)
        head = next((n for n in c.nodes if n.kind == "test" and n.stmt is loop), None)
        verdict, why, fnode = None, f"`{store}` is re-bound in a way that is not recognised", None
        rebinds = [n for n in ast.walk(loop) if isinstance(n, ast.Assign) and any(isinstance(t, ast.Name) and t.id == store for t in n.targets)]
        if not rebinds:
            verdict, why = False, f"`{store}` is never filtered inside the loop: an alias computed before a variable was reassigned is reused after the reassignment"
        for n in rebinds:
            fnode = n
            if isinstance(n.value, ast.DictComp):
                r = _is_symbol_filter(n.value, store)
                if r is None:
                    continue
                whole, cond = r
                mentions = f"{elem}.variable" in cond
                if whole and mentions:
                    verdict, why = True, "entries whose key mentions the assigned variable are dropped at every assignment"
                else:
                    verdict, why = False, f"filter `{cond}` does not drop every entry that mentions {elem}.variable (all free symbols of the key must be consulted)"
            elif isinstance(n.value, ast.Call):
                # helper(store, assign.variable) defined in the same module/class
                callee = None
                f = n.value.func
                if isinstance(f, ast.Attribute) and isinstance(f.value, ast.Name) and f.value.id in ("self", "cls", m.cls.name if m.cls else ""):
                    callee = m.cls.find_method(f.attr) if m.cls else None
                elif isinstance(f, ast.Name):
                    rr = repo.resolve_name(m.module, f.id)
                    callee = rr[1] if rr and rr[0] == "func" else None
                passes_var = any(f"{elem}.variable" in src(a) for a in n.value.args)
                if callee is not None:
                    dcs = [x for x in ast.walk(callee.node) if isinstance(x, ast.DictComp)]
                    for dc in dcs:
                        r = _is_symbol_filter(dc, None)
                        if r is not None:
                            whole, cond = r
                            if whole and passes_var:
                                verdict, why = True, f"entries mentioning the assigned variable are dropped at every assignment (through {callee.qualname})"
                            elif not whole:
                                verdict, why = False, f"filter `{cond}` in {callee.qualname} does not consult all free symbols of the key"
        if verdict is True and head is not None and fnode is not None:
            fn_node = c.node_of(fnode)
            body_entries = [bb for bb, lab in c.succ[head] if lab is True]
            if fn_node is not None and any(bb is not fn_node and c.reachable(bb, head, avoid={fn_node}) for bb in body_entries):
                verdict, why = False, f"the invalidation of `{store}` is skipped on some path through the loop body (it must run for every assignment)"
        if verdict is None:
            obs.append(inconclusive("B-memo", key, rp, loop.lineno, qn, why))
        else:
            obs.append(Ob("B-memo", key, rp, loop.lineno, qn, verdict, f"memo `{store}`: {why}"))
    return obs


def mut_memo(repo: Repo) -> List[Mutant]:
    out = []

    def drop(tree, qn):
        fn = find_def(tree, qn)
        if fn is None:
            return False
        for n in ast.walk(fn):
            if isinstance(n, ast.Assign) and isinstance(n.value, ast.DictComp) and isinstance(n.targets[0], ast.Name) and n.targets[0].id == "store":
                return replace_node(fn, n, ast.Pass())
        return False
    for i, (rp, qn) in enumerate([("program/transformer/conditions_reducer.py", "ConditionsReducer._reduce_conditions"),
                                  ("program/transformer/conditions_normalizer.py", "ConditionsNormalizer._normalize_conditions")]):
        ov = mutate_module(repo, rp, lambda t, qn=qn: drop(t, qn))
        if ov:
            out.append(Mutant(f"no-invalidation:{qn}", ov, "fire", qn, control=(i == 0)))
    return out


RULES = {
    "ORDER": Rule("B-pass-order", rule_pass_order, 40, "on every path of normalize_program each pass finds its preconditions (flat sections, fresh program info, provider passes) established, and the program info is complete at the end", mut_pass_order, soft=True),
    "ACTIONS": Rule("B-actions", rule_actions, 8, "in every CLI action a parsed program reaches the recurrence builders / moment functions only through normalize_program", mut_actions, soft=True),
    "REBUILD": Rule("B-rebuild", rule_rebuilders, 3, "loops that rebuild a program section keep every assignment on every path (or raise)", mut_rebuilders, soft=True),
    "MEMO": Rule("B-memo", rule_memo_invalidation, 2, "condition memo stores are invalidated for the assigned variable at every assignment", mut_memo, soft=True),
}


# ------------------------------------------------------------------ lost updates: a parameter is re-bound where an in-place update was meant
def rule_lost_update(repo: Repo) -> List[Ob]:
    """`p = p | x` / `p = p + [x]` on a *parameter* that is never read again in the function only changes the
    local name: the caller's container is not updated.  Flagged only for this update shape (the new value
    mentions the old one) followed by no read on any path."""
    obs = []
    scope = ("program/", "recurrences/", "type_inference/", "utils/", "inputparser/", "invariants/", "cli/common.py", "sensitivity_analysis/", "unsolvable_analysis/")
    n_updates = 0
    for f in repo.functions:
        if not f.relpath.startswith(scope):
            continue
        params = set(f.params())
        if not params:
            continue
        cands = []
        for st in walk_no_nested(f.node):
            if isinstance(st, ast.Assign) and len(st.targets) == 1 and isinstance(st.targets[0], ast.Name) and st.targets[0].id in params \
                    and isinstance(st.value, ast.BinOp) and any(isinstance(x, ast.Name) and x.id == st.targets[0].id for x in ast.walk(st.value)):
                cands.append(st)
            if isinstance(st, ast.AugAssign) and isinstance(st.target, ast.Name) and st.target.id in params:
                n_updates += 1
        if not cands:
            continue
        c = cfg_of(f.node)
        for st in cands:
            nm = st.targets[0].id
            sn = c.node_of(st)
            if sn is None:
                continue
            n_updates += 1
            read_later = False
            for y in c._reach(sn, c.succs):
                if y is sn or y.ast is None:
                    continue
                if any(isinstance(x, ast.Name) and x.id == nm and isinstance(x.ctx, ast.Load) for x in ast.walk(y.ast)):
                    read_later = True
                    break
            # inside a loop the statement reaches itself: its own right side reads the name again -> not lost locally
            if not read_later and c.reachable(sn, sn) and any(b is not sn for b in c.succs(sn)) and any(c.reachable(b, sn) for b in c.succs(sn)):
                read_later = True
            obs.append(Ob("B-lost-update", f"{f.relpath}::{f.qualname}::{nm}", f.relpath, st.lineno, f.qualname, read_later,
                          f"`{src(st)[:60]}` re-binds parameter `{nm}`; the new value is used later in the function" if read_later else
                          f"`{src(st)[:70]}` re-binds the parameter `{nm}` and the new value is never read: the caller's container is not updated (an in-place `|=`/`.update`/`.add` was meant)"))
    if not obs:
        obs.append(Ob("B-lost-update", "scan", "", 0, "", True, f"{n_updates} in-place updates of parameters, no re-binding update shape", trivial=True))
    return obs


def mut_lost_update(repo: Repo) -> List[Mutant]:
    def tr(tree):
        fn = find_def(tree, "ConditionsNormalizer._try_abstract_failed_condition")
        if fn is None:
            return False
        for n in ast.walk(fn):
            if isinstance(n, ast.AugAssign) and isinstance(n.target, ast.Name) and n.target.id == "abstracted_vars":
                new = ast.Assign(targets=[ast.Name(id="abstracted_vars", ctx=ast.Store())],
                                 value=ast.BinOp(left=ast.Name(id="abstracted_vars", ctx=ast.Load()), op=ast.BitOr(), right=n.value))
                return replace_node(fn, n, new)
        return False
    ov = mutate_module(repo, "program/transformer/conditions_normalizer.py", tr)
    return [Mutant("in-place-update-becomes-rebinding", ov, "fire", "_try_abstract_failed_condition::abstracted_vars", control=True)] if ov else []


RULES["LOSTUPDATE"] = Rule("B-lost-update", rule_lost_update, 1, "no update of a container parameter is written as a re-binding whose value is never read (lost update)", mut_lost_update)
