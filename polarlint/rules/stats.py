"""C11 (necessary conditions only): the formulas that turn raw moments into what is reported -- Markov bounds, the
second-moment lower bound, raw -> central and raw -> cumulant conversions, the binomial coefficient -- are compared
*as source expressions* with the textbook forms (exact rational-function identities over named atoms, `ratfun`), and
the goal kind selects the matching converter and index.  Nothing is evaluated."""
import ast
from typing import Dict, List, Optional, Set, Tuple

from ..model import Repo, FunctionInfo, AnalysisError, walk_no_nested, src, call_name, parent, ancestors, is_self_attr, const_str
from ..core import Ob, Rule, Mutant, mutate_module, find_def, replace_node, text_mutant, inconclusive
from ..dataflow import Defs
from ..ratfun import Normalizer, RF, Poly
from ..shape import resolve_alias, helper_calls

GA = "cli/actions/goals_action.py"
ST = "utils/statistics.py"
R = "F-statistics"


def _nz() -> Normalizer:
    # every symbolic exponent in these formulas is an integer index (order of a moment, loop variable)
    return Normalizer(int_exponents=True)


def _nz_inlining(defs: Defs, keep: Set[str]) -> Normalizer:
    """like _nz, but single-definition locals (weight = comb(i - 1, k - 1)) are read as what they stand for; names in `keep`
    (loop indices, tables, parameters) stay atoms"""
    stack: List[str] = []

    def cb(name):
        if name in keep or name in defs.params or name in stack:
            return None
        vals = defs.defs.get(name, [])
        if len(vals) != 1 or not isinstance(vals[0], ast.expr):
            return None
        stack.append(name)
        try:
            return nz(vals[0])
        finally:
            stack.pop()
    nz = Normalizer(name_cb=cb, int_exponents=True)
    return nz


def _equiv_in(defs: Defs, keep: Set[str], a, b) -> Optional[bool]:
    try:
        return _nz_inlining(defs, keep)(a).equiv(_nz_inlining(defs, keep)(b))
    except AnalysisError:
        return None


def _parse(text: str):
    return ast.parse(text, mode="eval").body


def _equiv(a, b) -> Optional[bool]:
    try:
        return _nz()(a).equiv(_nz()(b))
    except AnalysisError:
        return None


def _rename(e, mapping: Dict[str, str]):
    import copy

    class T(ast.NodeTransformer):
        def visit_Name(self, n):
            return ast.copy_location(ast.Name(id=mapping.get(n.id, n.id), ctx=n.ctx), n)
    from ..model import clone as _clone
    return T().visit(_clone(e))


# ------------------------------------------------------------------ tail bounds
def rule_tail_bounds(repo: Repo) -> List[Ob]:
    obs = []
    # Markov: for every requested order k, E(M**k) / a**k
    f = repo.function(GA, "GoalsAction.handle_tail_bound_upper_goal")
    key = f"{GA}::{f.qualname}::markov"
    defs = Defs(f.node, f.params()[0])
    verdict = None
    for g in [f] + [h for h, _, _ in helper_calls(repo, f, depth=1)]:
        for n in walk_no_nested(g.node):
            gens = None
            if isinstance(n, (ast.ListComp, ast.GeneratorExp, ast.DictComp)) and len(n.generators) == 1:
                gens = (n.generators[0].target, n.generators[0].iter, n.value if isinstance(n, ast.DictComp) else n.elt)
            elif isinstance(n, ast.For):
                # loop form: bounds.append(m / a**k)
                apps = [x.args[0] for x in ast.walk(n) if isinstance(x, ast.Call) and call_name(x) == "append" and x.args]
                if apps:
                    gens = (n.target, n.iter, apps[0])
            if gens is None:
                continue
            tgt, it, elt = gens
            if not (isinstance(it, ast.Call) and call_name(it) == "items" and isinstance(tgt, ast.Tuple) and len(tgt.elts) == 2
                    and all(isinstance(x, ast.Name) for x in tgt.elts)):
                continue
            if not any(isinstance(x, ast.BinOp) and isinstance(x.op, (ast.Div, ast.Pow)) for x in ast.walk(elt)):
                continue
            k, m = tgt.elts[0].id, tgt.elts[1].id
            others = sorted({x.id for x in ast.walk(elt) if isinstance(x, ast.Name)} - {k, m})
            if len(others) != 1:
                continue
            a = others[0]
            good = _equiv(elt, _parse(f"{m} / {a} ** {k}"))
            if good is None:
                continue
            # the threshold is the second component of the goal
            a_src = src(resolve_alias(ast.Name(id=a, ctx=ast.Load()), Defs(g.node, None)))
            verdict = (good, n.lineno, src(elt), a_src)
    if verdict is None:
        obs.append(inconclusive(R, key, GA, f.node.lineno, f.qualname, "construction of the Markov bounds from the (order, moment) pairs not recognised"))
    else:
        good, line, text, a_src = verdict
        obs.append(Ob(R, key, GA, line, f.qualname, good,
                      "bound of order k is E(M**k) / a**k for every requested k" if good else
                      f"`{text}` is not E(M**k) / a**k: Markov's inequality for M**k divides the k-th moment by the k-th power of the threshold"))
    # second-moment lower bound: P(M > a) >= (E(M) - a)**2 / E((M - a)**2) = (m1 - a)**2 / (m2 - 2 a m1 + a**2)
    f = repo.function(GA, "GoalsAction.handle_tail_bound_lower_goal")
    key = f"{GA}::{f.qualname}::second-moment"
    cand = None
    for n in walk_no_nested(f.node):
        if isinstance(n, ast.BinOp) and isinstance(n.op, ast.Div) and not isinstance(parent(n), ast.BinOp):
            subs = {src(x) for x in ast.walk(n) if isinstance(x, ast.Subscript)}
            if len(subs) >= 2:
                cand = n
    if cand is None:
        obs.append(inconclusive(R, key, GA, f.node.lineno, f.qualname, "quotient over the first two moments not found"))
    else:
        tabs = sorted({src(x.value) for x in ast.walk(cand) if isinstance(x, ast.Subscript)})
        names = sorted({x.id for x in ast.walk(cand) if isinstance(x, ast.Name)} - set(tabs))
        verdict = None
        if len(tabs) == 1 and len(names) == 1:
            mt, a = tabs[0], names[0]
            verdict = _equiv(cand, _parse(f"({mt}[1] - {a}) ** 2 / ({mt}[2] - 2 * {a} * {mt}[1] + {a} ** 2)"))
        if verdict is None:
            obs.append(inconclusive(R, key, GA, cand.lineno, f.qualname, f"atoms of `{src(cand)[:60]}` not recognised"))
        else:
            obs.append(Ob(R, key, GA, cand.lineno, f.qualname, verdict,
                          "lower bound is (E(M) - a)**2 / (E(M**2) - 2 a E(M) + a**2)" if verdict else
                          f"`{src(cand)[:80]}` is not (m1 - a)**2 / (m2 - 2*a*m1 + a**2), the second-moment (Paley-Zygmund / Cauchy-Schwarz) bound for M - a >= 0"))
        # it needs the first two moments
        reqs = [c for c in walk_no_nested(f.node) if isinstance(c, ast.Call) and call_name(c) in ("get_all_moments", "get_all_moments_given_termination") and len(c.args) >= 2]
        for c in reqs:
            n2 = c.args[1]
            if isinstance(n2, ast.Constant) and isinstance(n2.value, int):
                obs.append(Ob(R, f"{GA}::{f.qualname}::orders::{call_name(c)}", GA, c.lineno, f.qualname, n2.value >= 2,
                              "the first two moments are requested" if n2.value >= 2 else f"only {n2.value} moment(s) requested for a bound that uses the second"))
    return obs


def mut_tail_bounds(repo: Repo) -> List[Mutant]:
    out = []
    for old, new, key, control in (("m / a ** k", "m / (a * k)", "markov", True), ("m / a ** k", "m / a ** (k + 1)", "markov", False),
                                   ("(moments[1] - a) ** 2 / (moments[2] - 2 * a * moments[1] + a ** 2)", "(moments[1] - a) ** 2 / (moments[2] - a ** 2)", "second-moment", False),
                                   ("(moments[1] - a) ** 2 / (moments[2] - 2 * a * moments[1] + a ** 2)", "(moments[1] - a) ** 2 / (moments[2] + 2 * a * moments[1] + a ** 2)", "second-moment", False)):
        ov = text_mutant(repo, GA, old, new)
        if ov:
            out.append(Mutant(f"bound:{new[:28]}", ov, "fire", key, control=control))
    ov = text_mutant(repo, GA, "(moments[1] - a) ** 2 / (moments[2] - 2 * a * moments[1] + a ** 2)", "(a - moments[1]) ** 2 / (a ** 2 + moments[2] - 2 * moments[1] * a)")
    if ov:
        out.append(Mutant("benign-respelled-lower-bound", ov, "silent"))
    return out


# ------------------------------------------------------------------ goal kind -> converter -> index
def rule_kind_converters(repo: Repo) -> List[Ob]:
    obs = []
    want = {"handle_cumulant_goal": ("raw_moments_to_cumulants", "cumulant"), "handle_central_moment_goal": ("raw_moments_to_centrals", "central")}
    cls = repo.cls("GoalsAction", GA)
    for mname, (conv, word) in want.items():
        m = cls.find_method(mname)
        if m is None:
            raise AnalysisError(f"GoalsAction.{mname} not found")
        defs = Defs(m.node, m.params()[0])
        key = f"{GA}::{m.qualname}::converter"
        convs = [c for g in [m] + [h for h, _, _ in helper_calls(repo, m, depth=1)] for c in walk_no_nested(g.node)
                 if isinstance(c, ast.Call) and (call_name(c) or "").startswith("raw_moments_to_")]
        if not convs:
            obs.append(inconclusive(R, key, GA, m.node.lineno, m.qualname, "conversion of the raw moments not found"))
            continue
        ok = all(call_name(c) == conv for c in convs)
        obs.append(Ob(R, key, GA, convs[0].lineno, m.qualname, ok,
                      f"{word} goals are computed with {conv}" if ok else f"{word} goals are computed with {sorted({call_name(c) for c in convs})}, expected {conv}"))
        # the reported value is entry `number` (the goal's order) and the moments are requested up to that order
        gd = m.params()[1] if len(m.params()) > 1 else None
        order_names = {nm for nm, vals in defs.defs.items() if any(isinstance(v, ast.Subscript) and isinstance(v.value, ast.Name) and v.value.id == gd and src(v.slice) == "0" for v in vals)}
        subs = [s for s in walk_no_nested(m.node) if isinstance(s, ast.Subscript) and isinstance(s.ctx, ast.Load) and isinstance(s.value, ast.Name)
                and any(isinstance(v, ast.Call) and call_name(v) == conv for v in defs.defs.get(s.value.id, []))]
        keyi = f"{GA}::{m.qualname}::index"
        if not subs or not order_names:
            obs.append(inconclusive(R, keyi, GA, m.node.lineno, m.qualname, "selection of the requested order from the converted moments not recognised"))
        else:
            idx = subs[0].slice
            oki = (isinstance(idx, ast.Name) and idx.id in order_names) or (gd is not None and src(idx) == f"{gd}[0]")
            obs.append(Ob(R, keyi, GA, subs[0].lineno, m.qualname, oki,
                          "the entry of the goal's own order is reported" if oki else f"entry `{src(idx)}` is reported instead of the goal's order"))
        reqs = [c for c in walk_no_nested(m.node) if isinstance(c, ast.Call) and call_name(c) in ("get_all_moments", "get_all_moments_given_termination") and len(c.args) >= 2]
        for c in reqs:
            a1 = c.args[1]
            okr = (isinstance(a1, ast.Name) and a1.id in order_names) or (gd is not None and src(a1) == f"{gd}[0]")
            if okr or isinstance(a1, (ast.Name, ast.Subscript, ast.Constant, ast.BinOp)):
                bigger = isinstance(a1, ast.BinOp) and isinstance(a1.op, ast.Add) and any(isinstance(x, ast.Name) and x.id in order_names for x in (a1.left, a1.right))
                obs.append(Ob(R, f"{GA}::{m.qualname}::orders::{call_name(c)}", GA, c.lineno, m.qualname, okr or bigger,
                              "raw moments are requested up to the goal's order" if okr or bigger else
                              f"raw moments are requested up to `{src(a1)}`, not up to the goal's order: the conversion reads moments that were never computed or stops short"))
    return obs


def mut_kind_converters(repo: Repo) -> List[Mutant]:
    out = []

    def swap(tree):
        fn = find_def(tree, "GoalsAction.handle_central_moment_goal")
        for n in ast.walk(fn):
            if isinstance(n, ast.Call) and call_name(n) == "raw_moments_to_centrals":
                n.func = ast.Name(id="raw_moments_to_cumulants", ctx=ast.Load())
                return True
        return False
    ov = mutate_module(repo, GA, swap)
    if ov:
        out.append(Mutant("central-goal-uses-cumulant-conversion", ov, "fire", "handle_central_moment_goal::converter", control=True))
    ov = text_mutant(repo, GA, "cumulant = cumulants[number]", "cumulant = cumulants[number - 1]")
    if ov:
        out.append(Mutant("cumulant-of-previous-order", ov, "fire", "handle_cumulant_goal::index"))
    return out


# ------------------------------------------------------------------ conversion formulas
def _loops(fn_node) -> List[ast.For]:
    return [n for n in walk_no_nested(fn_node) if isinstance(n, ast.For)]


def _range_args(it) -> Optional[List[ast.AST]]:
    if isinstance(it, ast.Call) and call_name(it) == "range":
        return list(it.args)
    return None


def rule_conversions(repo: Repo) -> List[Ob]:
    obs = []
    # comb(n, k) = n! / (k! (n - k)!), and 0 for k > n
    f = repo.function(ST, "comb")
    n_, k_ = f.params()[:2]
    key = f"{ST}::comb::formula"
    cands = [x for x in ast.walk(f.node) if isinstance(x, ast.BinOp) and isinstance(x.op, (ast.Div, ast.FloorDiv)) and "factorial" in src(x)]
    # multiplicative form: result = result * (n - j + 1) // j  -- the division must come after the multiplication
    early = [x for x in ast.walk(f.node) if isinstance(x, ast.BinOp) and isinstance(x.op, ast.Mult) and
             any(isinstance(y, ast.BinOp) and isinstance(y.op, ast.FloorDiv) for y in (x.left, x.right))]
    mult_loop = [x for x in ast.walk(f.node) if isinstance(x, ast.BinOp) and isinstance(x.op, ast.FloorDiv) and isinstance(x.left, ast.BinOp) and isinstance(x.left.op, ast.Mult)]
    if not cands and early:
        obs.append(Ob(R, key, ST, early[0].lineno, f.qualname, False,
                      f"`{src(early[0])[:60]}` floors the quotient before multiplying: intermediate binomials are not divisible at that point (C(5,2) comes out as 8)"))
    elif not cands and mult_loop:
        obs.append(Ob(R, key, ST, mult_loop[0].lineno, f.qualname, True, "multiplicative binomial: multiply first, then divide exactly"))
    elif not cands:
        obs.append(inconclusive(R, key, ST, f.node.lineno, f.qualname, "factorial quotient not found (a library binomial is equally fine)"))
    else:
        import copy
        from ..model import clone as _clone
        q = _clone(cands[0])
        q.op = ast.Div()
        good = _equiv(q, _parse(f"factorial({n_}) / (factorial({k_}) * factorial({n_} - {k_}))"))
        if good is None:
            obs.append(inconclusive(R, key, ST, cands[0].lineno, f.qualname, "factorial quotient not readable"))
        else:
            obs.append(Ob(R, key, ST, cands[0].lineno, f.qualname, good, "comb(n, k) = n! / (k! (n-k)!)" if good else f"`{src(cands[0])}` is not n! / (k! (n-k)!)"))
    # raw -> cumulants:  kappa_i = m_i - sum_{k=1}^{i-1} C(i-1, k-1) kappa_k m_{i-k}
    f = repo.function(ST, "raw_moments_to_cumulants")
    mom = f.params()[0]
    key = f"{ST}::raw_moments_to_cumulants::recursion"
    done = False
    for outer in _loops(f.node):
        if not isinstance(outer.target, ast.Name):
            continue
        i = outer.target.id
        for inner in [n for n in ast.walk(outer) if isinstance(n, ast.For) and n is not outer and isinstance(n.target, ast.Name)]:
            k = inner.target.id
            upd = [n for n in ast.walk(inner) if isinstance(n, ast.AugAssign) and isinstance(n.op, (ast.Sub, ast.Add))]
            if not upd:
                continue
            u = upd[0]
            tabs = sorted({src(x.value) for x in ast.walk(u.value) if isinstance(x, ast.Subscript)} - {mom})
            if len(tabs) != 1:
                continue
            cum = tabs[0]
            term = u.value if isinstance(u.op, ast.Sub) else ast.UnaryOp(op=ast.USub(), operand=u.value)
            fdefs = Defs(f.node, None)
            good = _equiv_in(fdefs, {i, k, cum, mom}, term, _parse(f"comb({i} - 1, {k} - 1) * {cum}[{k}] * {mom}[{i} - {k}]"))
            # start value m_i and the range k = 1 .. i-1
            init = [n for n in ast.walk(outer) if isinstance(n, ast.Assign) and isinstance(n.targets[0], ast.Name) and n.targets[0].id == (u.target.id if isinstance(u.target, ast.Name) else "")]
            init_ok = bool(init) and _equiv(init[0].value, _parse(f"{mom}[{i}]"))
            ra = _range_args(inner.iter)
            rng_ok = ra is not None and len(ra) == 2 and _equiv(ra[0], _parse("1")) and _equiv(ra[1], _parse(i))
            done = True
            if good is None or init_ok is None or rng_ok is None:
                obs.append(inconclusive(R, key, ST, u.lineno, f.qualname, "summand of the cumulant recursion not readable"))
            else:
                ok = good and init_ok and rng_ok
                why = "kappa_i = m_i - sum_{k=1}^{i-1} C(i-1,k-1) kappa_k m_{i-k}" if ok else \
                    (f"summand `{src(u.value)[:70]}` is not C(i-1,k-1) * kappa_k * m_(i-k) (subtracted)" if not good else
                     "the recursion does not start from m_i" if not init_ok else f"inner range `{src(inner.iter)}` is not k = 1 .. i-1")
                obs.append(Ob(R, key, ST, u.lineno, f.qualname, ok, why))
    if not done:
        obs.append(inconclusive(R, key, ST, f.node.lineno, f.qualname, "cumulant recursion not recognised"))
    # raw -> centrals:  mu_i = sum_{j=0}^{i} C(i, j) (-1)^(i-j) m_j m_1^(i-j),  m_0 = 1
    f = repo.function(ST, "raw_moments_to_centrals")
    mom = f.params()[0]
    key = f"{ST}::raw_moments_to_centrals::binomial-sum"
    done = False
    for outer in _loops(f.node):
        if not isinstance(outer.target, ast.Name):
            continue
        i = outer.target.id
        for inner in [n for n in ast.walk(outer) if isinstance(n, ast.For) and n is not outer and isinstance(n.target, ast.Name)]:
            j = inner.target.id
            upd = [n for n in ast.walk(inner) if isinstance(n, ast.AugAssign) and isinstance(n.op, ast.Add)]
            if not upd:
                continue
            u = upd[0]
            idefs = Defs(f.node, None)
            # m_j is a local that is moments[j] for j > 0 and 1 for j = 0
            mj = None
            for nm, vals in idefs.defs.items():
                for v in vals:
                    if isinstance(v, ast.IfExp) and src(v.body) == f"{mom}[{j}]" and src(v.orelse) == "1" and src(v.test).replace(" ", "") in (f"{j}>0", f"{j}>=1", f"{j}!=0"):
                        mj = nm
            if mj is None:
                continue
            good = _equiv_in(idefs, {i, j, mj, mom}, u.value, _parse(f"comb({i}, {j}) * (-1) ** ({i} - {j}) * {mj} * {mom}[1] ** ({i} - {j})"))
            ra = _range_args(inner.iter)
            rng_ok = ra is not None and ((len(ra) == 1 and _equiv(ra[0], _parse(f"{i} + 1"))) or (len(ra) == 2 and _equiv(ra[0], _parse("0")) and _equiv(ra[1], _parse(f"{i} + 1"))))
            done = True
            if good is None or rng_ok is None:
                obs.append(inconclusive(R, key, ST, u.lineno, f.qualname, "summand of the central-moment sum not readable"))
            else:
                ok = good and rng_ok
                obs.append(Ob(R, key, ST, u.lineno, f.qualname, ok,
                              "mu_i = sum_{j=0}^{i} C(i,j) (-1)^(i-j) m_j m_1^(i-j) with m_0 = 1" if ok else
                              (f"summand `{src(u.value)[:80]}` is not C(i,j) (-1)^(i-j) m_j m_1^(i-j)" if not good else f"range `{src(inner.iter)}` is not j = 0 .. i")))
    if not done:
        obs.append(inconclusive(R, key, ST, f.node.lineno, f.qualname, "binomial sum of the central moments not recognised"))
    return obs


def mut_conversions(repo: Repo) -> List[Mutant]:
    out = []
    cases = [
        ("comb(i - 1, k - 1) * cumulants[k] * moments[i - k]", "comb(i, k) * cumulants[k] * moments[i - k]", "raw_moments_to_cumulants::recursion", True),
        ("for k in range(1, i):", "for k in range(1, i + 1):", "raw_moments_to_cumulants::recursion", False),
        ("(-1) ** (i - j)", "(-1) ** j", "raw_moments_to_centrals::binomial-sum", False),
        ("for j in range(i + 1):", "for j in range(i):", "raw_moments_to_centrals::binomial-sum", False),
        ("factorial(k) * factorial(n - k)", "factorial(k) * factorial(n)", "comb::formula", False),
    ]
    for old, new, key, control in cases:
        ov = text_mutant(repo, ST, old, new)
        if ov:
            out.append(Mutant(f"stat:{new[:30]}", ov, "fire", key, control=control))
    ov = text_mutant(repo, ST, "comb(i, j) * (-1) ** (i - j) * m_j * moments[1] ** (i - j)", "m_j * comb(i, j) * (-moments[1]) ** (i - j)")
    if ov:
        out.append(Mutant("benign-sign-folded-into-the-power", ov, "silent"))
    return out


# ------------------------------------------------------------------ Cornish-Fisher recursion (Lee & Lin 1992, algorithm AS 269)
CF = "expansions/cornish_fisher.py"


def rule_cornish_fisher(repo: Repo) -> List[Ob]:
    """xi_h(k) = a_k h**(k+1) - sum_{j=1}^{k-1} (j/k) (xi_h(k-j) - xi(k-j)) (xi(j) - a_j h**(j+1)) h,   a_k = kappa_{k+2} / ((k+2)! sigma**(k+2)).
    Compared as source-level identities over the atoms xi_h[.], xi[.], a[.], h (local names are inlined)."""
    obs = []
    cls = repo.cls("CornishFisherExpansion", CF)
    f = cls.find_method("xi_h")
    key = f"{CF}::CornishFisherExpansion.xi_h::recursion"
    if f is None:
        return [inconclusive(R, key, CF, cls.node.lineno, "CornishFisherExpansion", "xi_h not found")]
    selfn, k = f.params()[0], f.params()[1]
    defs = Defs(f.node, selfn)

    def nzl():
        stack = []

        def cb(name):
            vals = defs.defs.get(name, [])
            if name in defs.params or name in stack or len(vals) != 1 or not isinstance(vals[0], ast.expr):
                return None
            stack.append(name)
            try:
                return nz(vals[0])
            finally:
                stack.pop()
        nz = Normalizer(name_cb=cb, int_exponents=True)
        return nz
    loops = [n for n in walk_no_nested(f.node) if isinstance(n, ast.For) and isinstance(n.target, ast.Name)]
    done = False
    for loop in loops:
        j = loop.target.id
        upd = [n for n in ast.walk(loop) if isinstance(n, ast.AugAssign) and isinstance(n.op, (ast.Add, ast.Sub))]
        if not upd:
            continue
        u = upd[0]
        # loop-local names (factor_2, factor_3) are defined inside the loop: Defs is flow-insensitive, single definitions are inlined
        want = _parse(f"Rational({j}, {k}) * ({selfn}.xi_h({k} - {j}) - {selfn}.xi({k} - {j})) * ({selfn}.xi({j}) - {selfn}.a({j}) * {selfn}.h ** ({j} + 1)) * {selfn}.h")
        try:
            good = nzl()(u.value).equiv(nzl()(want))
        except AnalysisError:
            good = None
        ra = _range_args(loop.iter)
        rng = ra is not None and len(ra) == 2 and _equiv(ra[0], _parse("1")) and _equiv(ra[1], _parse(k))
        done = True
        if good is None or rng is None:
            obs.append(inconclusive(R, key, CF, u.lineno, f.qualname, "summand of the Cornish-Fisher recursion not readable"))
        else:
            ok = good and rng
            obs.append(Ob(R, key, CF, u.lineno, f.qualname, ok,
                          "xi_h(k) subtracts sum_{j=1}^{k-1} (j/k) (xi_h(k-j) - xi(k-j)) (xi(j) - a_j h**(j+1)) h" if ok else
                          (f"summand `{src(u.value)[:90]}` is not (j/k) (xi_h(k-j) - xi(k-j)) (xi(j) - a_j h**(j+1)) h: the recursion is not symmetric in j <-> k-j, a different weight gives a different expansion from the third correction term on"
                           if not good else f"range `{src(loop.iter)}` is not j = 1 .. k-1")))
    if not done:
        obs.append(inconclusive(R, key, CF, f.node.lineno, f.qualname, "loop of the Cornish-Fisher recursion not recognised"))
    # a_k
    a = cls.find_method("a")
    keya = f"{CF}::CornishFisherExpansion.a::coefficient"
    if a is not None and len(a.params()) > 1:
        ka = a.params()[1]
        rets = [r.value for r in walk_no_nested(a.node) if isinstance(r, ast.Return) and r.value is not None]
        if len(rets) == 1:
            sa = a.params()[0]
            good = _equiv_in(Defs(a.node, sa), {ka, sa}, rets[0], _parse(f"{sa}.cumulants[{ka} + 2] / (factorial({ka} + 2) * sqrt({sa}.cumulants[2]) ** ({ka} + 2))"))
            if good is None:
                obs.append(inconclusive(R, keya, CF, a.node.lineno, a.qualname, "a_k not readable"))
            else:
                obs.append(Ob(R, keya, CF, a.node.lineno, a.qualname, good, "a_k = kappa_(k+2) / ((k+2)! sigma**(k+2))" if good else f"`{src(rets[0])[:80]}` is not kappa_(k+2) / ((k+2)! sigma**(k+2))"))
    return obs


def mut_cornish_fisher(repo: Repo) -> List[Mutant]:
    out = []
    for old, new, key, control in (("Rational(j, k)", "Rational(k - j, k)", "xi_h::recursion", True), ("self.h ** (j + 1)", "self.h ** j", "xi_h::recursion", False),
                                   ("factorial(k + 2)", "factorial(k + 1)", "a::coefficient", False)):
        ov = text_mutant(repo, CF, old, new)
        if ov:
            out.append(Mutant(f"cf:{new}", ov, "fire", key, control=control))
    return out


# ------------------------------------------------------------------ Gram-Charlier A series: coefficients are complete Bell polynomials of the cumulants
GC = "expansions/gram_charlier.py"


def rule_gram_charlier(repo: Repo) -> List[Ob]:
    """f(x) = phi(x) * (1 + sum_{i>=3} B_i(0, 0, k3, .., ki) / (i! sigma**i) * He_i((x - mu)/sigma)).  B_i = k_i only for i <= 5
    (B_6 = k6 + 10 k3**2): a coefficient built from the i-th cumulant alone is the truncated textbook formula."""
    f = repo.function(GC, "GramCharlierExpansion.__call__")
    key = f"{GC}::GramCharlierExpansion.__call__::bell-coefficient"
    from ..shape import expanded
    fx = expanded(repo, f)
    defs = Defs(fx, f.params()[0])
    loops = [l for l in walk_no_nested(fx) if isinstance(l, ast.For) and isinstance(l.target, ast.Name)]
    herm = [c for c in walk_no_nested(fx) if isinstance(c, ast.Call) and "hermite" in (call_name(c) or "")]
    if not loops or not herm:
        return [inconclusive(R, key, GC, f.node.lineno, f.qualname, "loop over the orders / Hermite factor not recognised")]
    # the product  <coefficient> * <hermite part>  that is accumulated
    prods = [b for b in walk_no_nested(fx) if isinstance(b, ast.BinOp) and isinstance(b.op, ast.Mult) and any("call:" in r and "hermite" in r for r in defs.roots(b))]
    if not prods:
        return [inconclusive(R, key, GC, herm[0].lineno, f.qualname, "coefficient of the Hermite polynomial not recognised")]
    b = prods[0]
    sides = [b.left, b.right]
    coeff = next((x for x in sides if not any("hermite" in r for r in defs.roots(x))), None)
    if coeff is None:
        return [inconclusive(R, key, GC, b.lineno, f.qualname, "coefficient of the Hermite polynomial not separated")]
    r = defs.roots(coeff)
    uses_bell = any(x.startswith("call:") and "bell" in x for x in r)
    uses_cum = any(x.endswith("cumulants") for x in r)
    if uses_bell:
        return [Ob(R, key, GC, b.lineno, f.qualname, True, "the coefficient of He_i is the complete Bell polynomial of the cumulants over i! sigma**i")]
    if uses_cum:
        return [Ob(R, key, GC, b.lineno, f.qualname, False,
                   f"the coefficient `{src(coeff)[:50]}` of He_i comes from the cumulants without the Bell polynomial: from order 6 on the cross terms (10 k3**2 in B_6) are missing, the "
                   "density no longer has the cumulants it was built from")]
    return [inconclusive(R, key, GC, b.lineno, f.qualname, "origin of the coefficient not recognised")]


def mut_gram_charlier(repo: Repo) -> List[Mutant]:
    ov = text_mutant(repo, GC, "bell_part = ce_bell_poly(i, *bell_args) / (factorial(i) * sigma ** i)", "bell_part = sympy2symengine(self.cumulants[i]) / (factorial(i) * sigma ** i)")
    return [Mutant("coefficient-is-the-bare-cumulant", ov, "fire", "bell-coefficient", control=True)] if ov else []


RULES = {
    "GRAMCHARLIER": Rule(R, rule_gram_charlier, 1, "Gram-Charlier coefficients are complete Bell polynomials of the cumulants", mut_gram_charlier, soft=True),
    "TAILBOUNDS": Rule(R, rule_tail_bounds, 2, "Markov bounds are E(M**k)/a**k for every requested order; the lower bound is (m1-a)**2/(m2-2am1+a**2)", mut_tail_bounds, soft=True),
    "KINDCONV": Rule(R, rule_kind_converters, 4, "cumulant / central goals use their own conversion, report the entry of the goal's order and request the raw moments up to it", mut_kind_converters, soft=True),
    "CORNISHFISHER": Rule(R, rule_cornish_fisher, 2, "the Cornish-Fisher recursion xi_h and its coefficients a_k are the published ones (source-level identities)", mut_cornish_fisher, soft=True),
    "CONVERSIONS": Rule(R, rule_conversions, 3, "raw -> cumulant recursion, raw -> central binomial sum and comb(n,k) are the textbook formulas (source-level rational-function identities, loop ranges included)", mut_conversions, soft=True),
}
