"""C04 (necessary conditions only): shape of the two recurrence solvers.  The ansatz of the characteristic-root solver
has one term C*n**i*r**n for every i below the multiplicity of every non-zero root; the constants are fitted on pairs
(ansatz at n, iterate n) taken after the transient of the root 0; the summation solver is the geometric-sum identity
x(n) = c**(n-s) x(s) + sum_{k=s}^{n-1} c**(n-k-1) f(k); it is chosen only for acyclic systems.  Source-level only."""
import ast
from typing import Dict, List, Optional, Set, Tuple

from ..model import Repo, FunctionInfo, AnalysisError, walk_no_nested, src, call_name, parent, ancestors, is_self_attr
from ..core import Ob, Rule, Mutant, mutate_module, find_def, replace_node, text_mutant, inconclusive
from ..dataflow import Defs
from ..cfg import cfg_of
from ..ratfun import Normalizer, RF, Poly
from ..shape import resolve_alias, conjuncts, helper_calls
from .validate import controlling_tests

CY = "recurrences/solver/cyclic_solver.py"
AC = "recurrences/solver/acyclic_solver.py"
RS = "recurrences/solver/recurrence_solver.py"
R = "F-solver"


_ALIASES: Dict[str, ast.AST] = {}


def _nz() -> Normalizer:
    """normaliser that reads single-definition locals (`n = self.n`) as what they stand for"""
    def cb(name):
        v = _ALIASES.get(name)
        if v is not None:
            return Normalizer(int_exponents=True)(v)
        return None
    return Normalizer(name_cb=cb, int_exponents=True)


def _eq(a, b) -> Optional[bool]:
    try:
        return _nz()(a).equiv(_nz()(b))
    except AnalysisError:
        return None


def _p(text):
    return ast.parse(text, mode="eval").body


def rule_ansatz(repo: Repo) -> List[Ob]:
    cls = repo.cls("CyclicSolver", CY)
    obs = []
    found = None
    for m in cls.all_methods:
        for outer in [n for n in walk_no_nested(m.node) if isinstance(n, ast.For) and isinstance(n.target, ast.Tuple) and len(n.target.elts) == 2
                      and all(isinstance(e, ast.Name) for e in n.target.elts)]:
            root, mult = outer.target.elts[0].id, outer.target.elts[1].id
            for inner in [n for n in ast.walk(outer) if isinstance(n, ast.For) and n is not outer and isinstance(n.target, ast.Name)
                          and isinstance(n.iter, ast.Call) and call_name(n.iter) == "range"]:
                if any(isinstance(x, ast.Name) and x.id == mult for a in inner.iter.args for x in ast.walk(a)):
                    found = (m, outer, inner, root, mult)
    key = f"{CY}::CyclicSolver::ansatz"
    if found is None:
        return [inconclusive(R, key + "::multiplicity", CY, cls.node.lineno, "CyclicSolver", "loop over (root, multiplicity) with an inner range(multiplicity) not found")]
    m, outer, inner, root, mult = found
    selfn = m.params()[0]
    i = inner.target.id
    args = inner.iter.args
    # one term per i in 0 .. multiplicity-1
    if len(args) == 1 and isinstance(args[0], ast.Name) and args[0].id == mult:
        obs.append(Ob(R, key + "::multiplicity", CY, inner.lineno, m.qualname, True, "a root of multiplicity m contributes the m terms i = 0 .. m-1"))
    elif len(args) == 2 and _eq(args[0], _p("0")) and isinstance(args[1], ast.Name) and args[1].id == mult:
        obs.append(Ob(R, key + "::multiplicity", CY, inner.lineno, m.qualname, True, "a root of multiplicity m contributes the m terms i = 0 .. m-1"))
    else:
        n_terms = None
        try:
            if len(args) == 1:
                d = Normalizer()(args[0]) - Normalizer()(_p(mult))
                n_terms = d.int_value()
        except AnalysisError:
            pass
        if n_terms is not None and n_terms != 0:
            obs.append(Ob(R, key + "::multiplicity", CY, inner.lineno, m.qualname, False,
                          f"`{src(inner.iter)}` gives {'fewer' if n_terms < 0 else 'more'} than m terms for a root of multiplicity m: the general solution of a repeated root is incomplete"))
        else:
            obs.append(inconclusive(R, key + "::multiplicity", CY, inner.lineno, m.qualname, f"range `{src(inner.iter)}` not recognised"))
    # the polynomial factor is n**i
    pows = [x for x in ast.walk(inner) if isinstance(x, ast.BinOp) and isinstance(x.op, ast.Pow) and is_self_attr(x.left, "n", selfn)]
    if not pows:
        obs.append(inconclusive(R, key + "::polynomial-factor", CY, inner.lineno, m.qualname, "factor n**i of the ansatz not found"))
    else:
        good = [x for x in pows if isinstance(x.right, ast.Name) and x.right.id == i]
        obs.append(Ob(R, key + "::polynomial-factor", CY, pows[0].lineno, m.qualname, bool(good),
                      "term i carries the factor n**i" if good else f"`{src(pows[0])}`: the polynomial factor of term i is not n**i"))
    # zero roots are left out of the ansatz -> the fit must start after their transient (rule FIT)
    return obs


def mut_ansatz(repo: Repo) -> List[Mutant]:
    out = []
    ov = text_mutant(repo, CY, "for i in range(multiplicity):", "for i in range(multiplicity - 1):")
    if ov:
        out.append(Mutant("repeated-root-loses-a-term", ov, "fire", "ansatz::multiplicity", control=True))
    ov = text_mutant(repo, CY, "new_unknown * self.n ** i", "new_unknown * self.n ** (i + 1)")
    if ov:
        out.append(Mutant("polynomial-factor-shifted", ov, "fire", "ansatz::polynomial-factor"))
    return out


def rule_fit(repo: Repo) -> List[Ob]:
    cls = repo.cls("CyclicSolver", CY)
    obs = []
    key = f"{CY}::CyclicSolver::fit"
    # equations: ansatz.xreplace({n: X}) - values[Y][index]
    sites = []
    for m in cls.all_methods:
        selfn = m.params()[0]
        for sub in [n for n in walk_no_nested(m.node) if isinstance(n, ast.BinOp) and isinstance(n.op, ast.Sub)]:
            xr = [c for c in ast.walk(sub.left) if isinstance(c, ast.Call) and call_name(c) in ("xreplace", "subs") and c.args and isinstance(c.args[0], ast.Dict)
                  and c.args[0].keys and is_self_attr(c.args[0].keys[0], "n", selfn)]
            if not xr:
                continue
            X = xr[0].args[0].values[0]
            ys = [s for s in ast.walk(sub.right) if isinstance(s, ast.Subscript) and isinstance(s.value, ast.Subscript)]
            if not ys:
                continue
            Y = ys[0].value.slice
            sites.append((m, sub, X, Y))
    if not sites:
        return [inconclusive(R, key + "::pairing", CY, cls.node.lineno, "CyclicSolver", "equations `ansatz(n) - iterate[n]` not found")]
    for m, sub, X, Y in sites:
        if isinstance(Y, ast.UnaryOp) or (isinstance(Y, ast.Constant) and Y.value == -1):
            continue      # values[-1]: the newest iterate, paired with a running counter (not decided)
        same = _eq(X, Y)
        if same is None:
            obs.append(inconclusive(R, key + "::pairing", CY, sub.lineno, m.qualname, f"pairing `{src(X)}` / `{src(Y)}` not readable"))
        else:
            obs.append(Ob(R, key + "::pairing", CY, sub.lineno, m.qualname, same,
                          "the ansatz at n is equated with the n-th iterate" if same else
                          f"the ansatz at `{src(X)}` is equated with iterate `{src(Y)}`: the constants are fitted to a shifted sequence"))
    # start of the fit: not before the transient of the root 0 is over
    m, sub, X, Y = sites[0]
    selfn = m.params()[0]
    defs = Defs(m.node, selfn)
    loop = next((a for a in ancestors(sub) if isinstance(a, ast.For)), None)
    zero_aware = None
    if loop is not None and isinstance(loop.iter, ast.Call) and call_name(loop.iter) == "range":
        lo = loop.iter.args[0] if len(loop.iter.args) >= 2 else _p("0")
        bounds = [resolve_alias(lo, defs)]
        unread = False
        lv = loop.target.id if isinstance(loop.target, ast.Name) else None
        for st in loop.body:
            if isinstance(st, ast.If) and any(isinstance(x, ast.Continue) for x in st.body):
                t = st.test
                if isinstance(t, ast.Compare) and len(t.ops) == 1 and isinstance(t.ops[0], (ast.Lt, ast.LtE)) and isinstance(t.left, ast.Name) and t.left.id == lv:
                    bounds.append(resolve_alias(t.comparators[0], defs))          # n < first: skipped
                elif isinstance(t, ast.Compare) and len(t.ops) == 1 and isinstance(t.ops[0], (ast.Gt, ast.GtE)) and isinstance(t.comparators[0], ast.Name) and t.comparators[0].id == lv:
                    bounds.append(resolve_alias(t.left, defs))                    # first > n: skipped
                else:
                    unread = True
        text = " ".join(src(b) for b in bounds)
        # does any lower bound depend on the multiplicity of the root 0?
        def mentions_zero(e) -> bool:
            for x in ast.walk(e):
                if isinstance(x, ast.Attribute) and "zero" in x.attr:
                    return True
                if isinstance(x, ast.Name) and "zero" in x.id:
                    return True
            return False
        if any(mentions_zero(b) for b in bounds):
            zero_aware = True
        elif all(isinstance(b, ast.Constant) for b in bounds) and not unread:
            zero_aware = False
    # are zero roots excluded from the ansatz at all?
    excl = any(isinstance(t, ast.Compare) and len(t.ops) == 1 and isinstance(t.ops[0], (ast.NotEq, ast.Eq)) and
               ((src(t.comparators[0]) == "0" and "root" in src(t.left)) or (src(t.left) == "0" and "root" in src(t.comparators[0])))
               for mm in cls.all_methods for n in walk_no_nested(mm.node) if isinstance(n, ast.If) for t in [n.test])
    if zero_aware is None or not excl:
        obs.append(inconclusive(R, key + "::after-transient", CY, sub.lineno, m.qualname, "first fitted iteration not recognised"))
    else:
        obs.append(Ob(R, key + "::after-transient", CY, loop.lineno, m.qualname, zero_aware,
                      "the fit starts at max(1, multiplicity of the root 0): the ansatz (which leaves the root 0 out) is valid from there" if zero_aware else
                      "the constants are fitted from a fixed first iteration although the ansatz leaves out the root 0: while a nilpotent part of the system "
                      "has not died out the iterates do not follow the ansatz (a, b, c = b, c, 7)"))
    return obs


def mut_fit(repo: Repo) -> List[Mutant]:
    out = []
    ov = text_mutant(repo, CY, "first_n = max(1, self.zero_multiplicity)", "first_n = 1")
    if ov:
        out.append(Mutant("fit-inside-the-transient", ov, "fire", "fit::after-transient", control=True))
    ov = text_mutant(repo, CY, "self.general_solution.xreplace({self.n: n}) - concrete_values[n][monom_index]", "self.general_solution.xreplace({self.n: n}) - concrete_values[n - 1][monom_index]")
    if ov:
        out.append(Mutant("ansatz-paired-with-previous-iterate", ov, "fire", "fit::pairing"))
    return out


def rule_geometric_sum(repo: Repo) -> List[Ob]:
    cls = repo.cls("AcyclicSolver", AC)
    key = f"{AC}::AcyclicSolver::geometric-sum"
    site = None
    for m in cls.all_methods:
        for c in walk_no_nested(m.node):
            if isinstance(c, ast.Call) and call_name(c) == "summation" and len(c.args) >= 2 and isinstance(c.args[1], ast.Tuple) and len(c.args[1].elts) == 3:
                site = (m, c)
    if site is None:
        return [inconclusive(R, key, AC, cls.node.lineno, "AcyclicSolver", "summation(...) of the inhomogeneous part not found")]
    m, c = site
    selfn = m.params()[0]
    defs = Defs(m.node, selfn)
    _ALIASES.clear()
    for nm, vals in defs.defs.items():
        if nm not in defs.params and len(vals) == 1 and isinstance(vals[0], ast.Attribute) and is_self_attr(vals[0], None, selfn):
            _ALIASES[nm] = vals[0]
    k, lo, hi = c.args[1].elts
    summand = resolve_alias(c.args[0], defs)
    while isinstance(summand, ast.Call) and isinstance(summand.func, ast.Attribute) and summand.func.attr in ("simplify", "expand"):
        summand = summand.func.value
    # powers of the recurrence coefficient
    coeff = m.params()[1] if len(m.params()) > 1 else None
    n_ = f"{selfn}.n"
    pows_sum = [x for x in ast.walk(summand) if isinstance(x, ast.BinOp) and isinstance(x.op, ast.Pow) and isinstance(x.left, ast.Name) and x.left.id == coeff]
    pows_all = [x for x in walk_no_nested(m.node) if isinstance(x, ast.BinOp) and isinstance(x.op, ast.Pow) and isinstance(x.left, ast.Name) and x.left.id == coeff]
    pows_hom = [x for x in pows_all if not any(x is y for y in pows_sum)]
    if not pows_sum or not pows_hom or not isinstance(k, ast.Name):
        return [inconclusive(R, key, AC, c.lineno, m.qualname, "powers of the recurrence coefficient in the homogeneous / particular part not recognised")]
    kk = k.id
    e_sum, e_hom = pows_sum[0].right, pows_hom[0].right
    # start index s: exponent of the homogeneous part is n - s
    checks = {
        "the summand carries c**(n-k-1)": _eq(e_sum, _p(f"{n_} - {kk} - 1")),
        "the sum ends at k = n-1": _eq(hi, _p(f"{n_} - 1")),
    }
    try:
        s_rf = _nz()(_p(n_)) - _nz()(e_hom)
        lo_rf = _nz()(lo)
        checks["the homogeneous part is c**(n-s) * x(s) for the same s the sum starts at"] = s_rf.equiv(lo_rf)
    except AnalysisError:
        checks["the homogeneous part is c**(n-s) * x(s) for the same s the sum starts at"] = None
    # inhom is evaluated at k
    xr = [x for x in ast.walk(summand) if isinstance(x, ast.Call) and call_name(x) in ("xreplace", "subs") and x.args and isinstance(x.args[0], ast.Dict)]
    if xr:
        d = xr[0].args[0]
        key0 = resolve_alias(d.keys[0], defs) if d.keys else None
        checks["the inhomogeneous part is evaluated at k"] = bool(d.keys) and is_self_attr(key0, "n", selfn) and isinstance(d.values[0], ast.Name) and d.values[0].id == kk
    bad = [t for t, v in checks.items() if v is False]
    unk = [t for t, v in checks.items() if v is None]
    # a local that is assigned more than once (or by a loop) stands for no single expression: nothing is concluded from it
    opaque = sorted({x.id for e in (e_sum, e_hom, lo, hi) for x in ast.walk(e) if isinstance(x, ast.Name) and x.id not in defs.params and x.id != kk
                     and x.id not in _ALIASES and (len(defs.defs.get(x.id, [])) > 1 or any(not isinstance(v, ast.expr) for v in defs.defs.get(x.id, [])))})
    if bad and opaque:
        return [inconclusive(R, key, AC, c.lineno, m.qualname, f"the exponents mention {opaque}, assigned more than once")]
    if bad:
        return [Ob(R, key, AC, c.lineno, m.qualname, False, f"not the geometric-sum identity x(n) = c**(n-s) x(s) + sum_(k=s)^(n-1) c**(n-k-1) f(k): fails `{bad[0]}`")]
    if unk:
        return [inconclusive(R, key, AC, c.lineno, m.qualname, f"could not read: {unk[0]}")]
    return [Ob(R, key, AC, c.lineno, m.qualname, True, "x(n) = c**(n-s) x(s) + sum_(k=s)^(n-1) c**(n-k-1) f(k)")]


def mut_geometric_sum(repo: Repo) -> List[Mutant]:
    out = []
    cases = [("rec_coeff ** (self.n - k - 1)", "rec_coeff ** (self.n - k)", True), ("(k, start, self.n - 1)", "(k, start, self.n)", False),
             ("rec_coeff ** (self.n - start) * start_value", "rec_coeff ** (self.n - 1) * start_value", False)]
    for old, new, control in cases:
        ov = text_mutant(repo, AC, old, new)
        if ov:
            out.append(Mutant(f"sum:{new[:30]}", ov, "fire", "geometric-sum", control=control))
    return out


def rule_special_cases(repo: Repo) -> List[Ob]:
    """AcyclicSolver.get lists the iterations below `valid_from` up to the LAST one the general solution does not reproduce.
    The scan therefore looks at every such iteration: leaving the scan at the first iteration that happens to be covered
    drops later transient values (1, 0, 5, 0, ... : iteration 1 is covered by the general 0, iteration 2 is not)."""
    cls = repo.cls("AcyclicSolver", AC)
    m = cls.find_method("get")
    key = f"{AC}::AcyclicSolver.get::special-cases"
    if m is None:
        return [inconclusive(R, key, AC, cls.node.lineno, "AcyclicSolver", "AcyclicSolver.get not found")]
    selfn = m.params()[0]
    scans = []
    for loop in [n for n in walk_no_nested(m.node) if isinstance(n, ast.For) and isinstance(n.target, ast.Name)]:
        i = loop.target.id
        cmp_ = [c for c in ast.walk(loop) if isinstance(c, ast.Compare) and any(isinstance(x, ast.Call) and call_name(x) in ("xreplace", "subs") for x in ast.walk(c))]
        idx = [a for a in ast.walk(loop) if isinstance(a, ast.Assign) and isinstance(a.value, ast.Name) and a.value.id == i]
        if cmp_ and idx:
            scans.append((loop, cmp_[0], idx[0]))
    if not scans:
        return [inconclusive(R, key, AC, m.node.lineno, m.qualname, "scan for the last iteration not covered by the general solution not recognised")]
    loop, cmp_, idx = scans[0]
    early = [b for b in ast.walk(loop) if isinstance(b, (ast.Break, ast.Return))]
    if early:
        return [Ob(R, key, AC, early[0].lineno, m.qualname, False,
                   "the scan for special cases stops at the first iteration the general solution happens to reproduce: a later iteration below its validity bound that it does not reproduce is answered by the general formula")]
    return [Ob(R, key, AC, loop.lineno, m.qualname, True, "every iteration below the validity bound is compared with the general solution; the cases up to the last deviating one are listed")]


def mut_special_cases(repo: Repo) -> List[Mutant]:
    def tr(tree):
        fn = find_def(tree, "AcyclicSolver.get")
        for n in ast.walk(fn):
            if isinstance(n, ast.For) and any(isinstance(x, ast.Compare) for x in ast.walk(n)) and any(isinstance(x, ast.If) for x in n.body):
                iff = next(x for x in n.body if isinstance(x, ast.If))
                iff.orelse = [ast.Break()]
                return True
        return False
    ov = mutate_module(repo, AC, tr)
    return [Mutant("scan-stops-at-first-covered-iteration", ov, "fire", "special-cases", control=True)] if ov else []


def rule_valid_from(repo: Repo) -> List[Ob]:
    """The summation solver returns (closed form, first n it is valid from).  Where a closed form is built from several
    others, its validity start is the MAXIMUM of theirs: an update in the loop over the dependencies that does not
    combine the new value with the old one lets the last dependency win."""
    cls = repo.cls("AcyclicSolver", AC)
    key = f"{AC}::AcyclicSolver::valid-from"
    obs = []
    for m in cls.all_methods:
        for loop in [n for n in walk_no_nested(m.node) if isinstance(n, ast.For)]:
            for st in ast.walk(loop):
                if not (isinstance(st, ast.Assign) and isinstance(st.targets[0], ast.Tuple) and len(st.targets[0].elts) == 2 and isinstance(st.value, ast.Call)
                        and isinstance(st.value.func, ast.Attribute) and is_self_attr(st.value.func.value, None, m.params()[0]) is False
                        and isinstance(st.value.func.value, ast.Name) and st.value.func.value.id == m.params()[0]):
                    continue
                callee = cls.find_method(st.value.func.attr)
                if callee is None:
                    continue
                rets = [r.value for r in walk_no_nested(callee.node) if isinstance(r, ast.Return) and isinstance(r.value, ast.Tuple) and len(r.value.elts) == 2]
                if not rets:
                    continue
                vname = st.targets[0].elts[1]
                if not isinstance(vname, ast.Name):
                    continue
                # is the unpacked validity start itself the accumulator that is used after the loop?
                used_after = any(isinstance(x, ast.Name) and x.id == vname.id and getattr(x, "lineno", 0) > loop.end_lineno for x in walk_no_nested(m.node))
                combined = [a for a in ast.walk(loop) if isinstance(a, ast.Assign) and isinstance(a.value, ast.Call) and call_name(a.value) == "max"
                            and any(isinstance(x, ast.Name) and x.id == vname.id for x in ast.walk(a.value))]
                if used_after and not combined:
                    obs.append(Ob(R, key, AC, st.lineno, m.qualname, False,
                                  f"`{src(st)[:70]}` overwrites `{vname.id}` for every dependency and the value is used after the loop: the validity start of the LAST dependency wins instead of the maximum"))
                elif combined:
                    obs.append(Ob(R, key, AC, combined[0].lineno, m.qualname, True, "the validity start of a combination is the maximum over its dependencies"))
    if not obs:
        obs.append(inconclusive(R, key, AC, cls.node.lineno, "AcyclicSolver", "accumulation of the validity start over the dependencies not recognised"))
    return obs


def mut_valid_from(repo: Repo) -> List[Mutant]:
    def tr(tree):
        fn = find_def(tree, "AcyclicSolver._get_without_zero")
        if fn is None:
            return False
        for loop in [n for n in ast.walk(fn) if isinstance(n, ast.For)]:
            for i, st in enumerate(loop.body):
                if isinstance(st, ast.Assign) and isinstance(st.targets[0], ast.Tuple) and len(st.targets[0].elts) == 2:
                    nxt = loop.body[i + 1] if i + 1 < len(loop.body) else None
                    if isinstance(nxt, ast.Assign) and isinstance(nxt.value, ast.Call) and call_name(nxt.value) == "max":
                        st.targets[0].elts[1] = nxt.targets[0]
                        del loop.body[i + 1]
                        return True
        return False
    ov = mutate_module(repo, AC, tr)
    return [Mutant("last-dependency-wins", ov, "fire", "valid-from", control=True)] if ov else []


def rule_option_resolution(repo: Repo) -> List[Ob]:
    """`x = settings.x if x is None else x`: the parameter that is tested is the parameter that is used, and the
    setting that replaces it has the same name.  (Copy-paste between neighbouring lines is the typical slip.)"""
    obs = []
    n = 0
    for f in repo.functions:
        if f.relpath.startswith(("tests/", "plots/")):
            continue
        for e in walk_no_nested(f.node):
            if not isinstance(e, ast.IfExp):
                continue
            t = e.test
            if not (isinstance(t, ast.Compare) and len(t.ops) == 1 and isinstance(t.ops[0], (ast.Is, ast.IsNot)) and isinstance(t.comparators[0], ast.Constant)
                    and t.comparators[0].value is None and isinstance(t.left, ast.Name)):
                continue
            when_none, otherwise = (e.body, e.orelse) if isinstance(t.ops[0], ast.Is) else (e.orelse, e.body)
            if not (isinstance(when_none, ast.Attribute) and isinstance(when_none.value, ast.Name) and when_none.value.id == "settings" and isinstance(otherwise, ast.Name)):
                continue
            n += 1
            key = f"{f.relpath}::{f.qualname}::option::{when_none.attr}"
            ok = t.left.id == otherwise.id == when_none.attr
            obs.append(Ob("G1-option-resolution", key, f.relpath, e.lineno, f.qualname, ok,
                          f"`{otherwise.id}` defaults to settings.{when_none.attr} when it is None" if ok else
                          f"`{src(e)[:80]}` tests `{t.left.id}` but uses `{otherwise.id}` / settings.{when_none.attr}: an explicitly given value is dropped or None is passed on"))
    if n < 2:
        raise AnalysisError(f"G1-option-resolution: only {n} option resolutions found")
    return obs


def mut_option_resolution(repo: Repo) -> List[Mutant]:
    ov = text_mutant(repo, CY, "self.numeric_eps = settings.numeric_eps if numeric_eps is None else numeric_eps", "self.numeric_eps = settings.numeric_eps if numeric_croots is None else numeric_eps")
    return [Mutant("eps-resolved-on-the-wrong-parameter", ov, "fire", "option::numeric_eps", control=True)] if ov else []


def rule_dispatch(repo: Repo) -> List[Ob]:
    f = repo.function(RS, "RecurrenceSolver.__init__")
    c = cfg_of(f.node)
    key = f"{RS}::RecurrenceSolver.__init__::dispatch"
    calls = [x for x in walk_no_nested(f.node) if isinstance(x, ast.Call) and call_name(x) == "AcyclicSolver"]
    if not calls:
        return [inconclusive(R, key, RS, f.node.lineno, f.qualname, "construction of the summation solver not found")]
    node = c.node_of(calls[0])
    facts = []
    if node is not None:
        for t, reach in controlling_tests(c, node):
            if isinstance(t.ast, ast.expr):
                facts += conjuncts(t.ast, bool(reach))
    from ..shape import ifexp_facts
    facts += ifexp_facts(calls[0])
    acyc = [truth for t, truth in facts if isinstance(t, ast.Attribute) and t.attr == "is_acyclic"]
    if not acyc:
        return [Ob(R, key, RS, calls[0].lineno, f.qualname, False, "the summation solver is constructed without testing that the system is acyclic: it substitutes solutions in dependency order and does not terminate / is wrong on cyclic systems")] \
            if not facts else [inconclusive(R, key, RS, calls[0].lineno, f.qualname, "test controlling the choice of the solver not recognised")]
    ok = all(acyc)
    return [Ob(R, key, RS, calls[0].lineno, f.qualname, ok, "the summation solver is used only for acyclic systems" if ok else "the summation solver is used for *cyclic* systems")]


def mut_dispatch(repo: Repo) -> List[Mutant]:
    ov = text_mutant(repo, RS, "if recurrences.is_acyclic and (not force_cyclic_solver):", "if not recurrences.is_acyclic and (not force_cyclic_solver):")
    return [Mutant("summation-solver-for-cyclic-systems", ov, "fire", "dispatch", control=True)] if ov else []


# ------------------------------------------------------------------ hand-written memo tables are keyed by every option their value depends on
def _settings_names(repo: Repo) -> Set[str]:
    m = repo.modules.get("settings.py") if hasattr(repo, "modules") else None
    names: Set[str] = set()
    tree = m.tree if m is not None else None
    if tree is None:
        return names
    for st in tree.body:
        if isinstance(st, ast.Assign):
            names |= {t.id for t in st.targets if isinstance(t, ast.Name)}
        elif isinstance(st, ast.AnnAssign) and isinstance(st.target, ast.Name):
            names.add(st.target.id)
    return names


def rule_memo_key(repo: Repo) -> List[Ob]:
    """C[K] = f(..., option, ...) next to a membership test on C (the memo idiom), where C outlives the call (an attribute, a
    __dict__ / getattr lookup on another object, a module or class level table): every strategy option that f's arguments
    mention must be part of K -- otherwise the value computed under the first option setting is handed out for all later ones."""
    obs = []
    opts = _settings_names(repo)
    n_sites = 0
    for f in repo.functions:
        if f.relpath.startswith(("tests/", "benchmarks/", "documentation/")):
            continue
        from ..shape import expanded
        fnode = expanded(repo, f)        # a memo whose test-and-fill block was moved into a helper is read in place
        stores = [st for st in walk_no_nested(fnode) if isinstance(st, ast.Assign) and len(st.targets) == 1 and isinstance(st.targets[0], ast.Subscript)
                  and any(isinstance(x, ast.Call) for x in ast.walk(st.value))]
        if not stores:
            continue
        defs = Defs(fnode, f.params()[0] if f.params() and f.cls is not None else None)
        for st in stores:
            cont, keye = st.targets[0].value, st.targets[0].slice
            ctext = src(cont)
            # the memo idiom: a membership test / lookup of the same key in the same container in this function
            tested = any(isinstance(x, ast.Compare) and len(x.ops) == 1 and isinstance(x.ops[0], (ast.In, ast.NotIn)) and src(x.comparators[0]) == ctext and src(x.left) == src(keye)
                         for x in walk_no_nested(fnode))
            if not tested:
                continue
            # the container outlives the call
            def origin(e):
                # the one plain assignment `name = <expr>` of a local (item stores into it are not re-definitions)
                if isinstance(e, ast.Name):
                    plain = [a.value for a in walk_no_nested(fnode) if isinstance(a, ast.Assign) and len(a.targets) == 1 and isinstance(a.targets[0], ast.Name) and a.targets[0].id == e.id]
                    if len(plain) == 1:
                        return plain[0]
                return e
            base = origin(cont)
            durable = isinstance(base, ast.Attribute) or (isinstance(base, ast.Call) and (call_name(base) in ("setdefault", "getattr", "vars") or "__dict__" in src(base))) or \
                (isinstance(base, ast.Name) and base.id not in defs.params and
                 not any(isinstance(x, ast.Name) and x.id == base.id and isinstance(x.ctx, ast.Store) for x in walk_no_nested(fnode)))      # a module / class level table
            if not durable:
                continue
            n_sites += 1
            used = set()
            for c in [x for x in ast.walk(st.value) if isinstance(x, ast.Call)]:
                for a in list(c.args) + [k.value for k in c.keywords]:
                    for x in ast.walk(a):
                        nm = x.attr if isinstance(x, ast.Attribute) else x.id if isinstance(x, ast.Name) else None
                        if nm in opts:
                            used.add(nm)
            kexpr = origin(keye)
            in_key = {x.attr if isinstance(x, ast.Attribute) else x.id for x in ast.walk(kexpr) if isinstance(x, (ast.Attribute, ast.Name))}
            # parameters of the enclosing function that are handed to the cached computation: the value is a function of them
            fparams = set(f.params()[1:] if f.cls is not None else f.params())
            for c in [x for x in ast.walk(st.value) if isinstance(x, ast.Call)]:
                for a in list(c.args) + [k.value for k in c.keywords]:
                    if isinstance(a, ast.Name) and a.id in fparams:
                        used.add(a.id)
            missing = sorted(used - in_key)
            key = f"{f.relpath}::{f.qualname}::memo::{ctext[:30]}"
            if missing:
                obs.append(Ob("G3-memo-key", key, f.relpath, st.lineno, f.qualname, False,
                              f"`{src(st)[:70]}` caches a value computed with {missing} (strategy options / parameters of the function) under the key `{src(kexpr)[:50]}`, which does not contain them: "
                              "a later request with another setting gets the value of the first one"))
            else:
                obs.append(Ob("G3-memo-key", key, f.relpath, st.lineno, f.qualname, True, "the memo key contains every strategy option the cached value is computed with"))
    obs.append(Ob("G3-memo-key", "repo::memo-census", "settings.py", 1, "", True, f"{n_sites} hand-written memo table(s) over {len(opts)} option names examined"))
    return obs


def mut_memo_key(repo: Repo) -> List[Mutant]:
    new = ("known = self.recurrences.__dict__.setdefault('known_roots', {})\n        kind = (self.numeric_roots, self.numeric_croots)\n        if kind not in known:\n"
           "            known[kind] = get_all_roots(self.characteristic_poly, self.numeric_roots, self.numeric_croots, self.numeric_eps)\n        roots, self._is_exact = known[kind]")
    good = new.replace("(self.numeric_roots, self.numeric_croots)", "(self.numeric_roots, self.numeric_croots, self.numeric_eps)")
    out = []
    def tr_factory(text):
        def tr(tree):
            fn = find_def(tree, "CyclicSolver._compute_general_solution")
            if fn is None:
                return False
            for i, st in enumerate(fn.body):
                if isinstance(st, ast.Assign) and isinstance(st.value, ast.Call) and call_name(st.value) == "get_all_roots":
                    fn.body[i:i + 1] = ast.parse("def _f(self):\n        " + text).body[0].body
                    return True
            return False
        return tr
    ov = mutate_module(repo, CY, tr_factory(new))
    if ov:
        out.append(Mutant("roots-cached-without-eps", ov, "fire", "memo::", control=True))
    ov = mutate_module(repo, CY, tr_factory(good))
    if ov:
        out.append(Mutant("benign-roots-cached-with-all-options", ov, "silent"))
    return out


RULES = {
    "MEMOKEY": Rule("G3-memo-key", rule_memo_key, 1, "hand-written memo tables that outlive a call are keyed by every strategy option their value is computed with", mut_memo_key, soft=True),
    "ANSATZ": Rule(R, rule_ansatz, 2, "general solution of the characteristic-root solver: m terms C*n**i*r**n (i < m) per non-zero root of multiplicity m", mut_ansatz, soft=True),
    "FIT": Rule(R, rule_fit, 2, "the constants are fitted on (ansatz at n, n-th iterate) pairs taken after the transient of the root 0", mut_fit, soft=True),
    "GEOMSUM": Rule(R, rule_geometric_sum, 1, "the summation solver is the geometric-sum identity (exponents, bounds and start index compared as rational functions)", mut_geometric_sum, soft=True),
    "SPECIALCASES": Rule(R, rule_special_cases, 1, "the summation solver's scan for special cases looks at every iteration below the validity bound", mut_special_cases, soft=True),
    "VALIDFROM": Rule(R, rule_valid_from, 1, "the validity start of a combined closed form is the maximum over its dependencies", mut_valid_from, soft=True),
    "OPTRESOLVE": Rule("G1-option-resolution", rule_option_resolution, 2, "`x = settings.x if x is None else x`: tested parameter, used parameter and setting agree", mut_option_resolution, soft=True),
    "SOLVERDISPATCH": Rule(R, rule_dispatch, 1, "the summation solver is chosen only under recurrences.is_acyclic", mut_dispatch, soft=True),
}
