"""Family A (interface conformance over the Condition / Assignment / Distribution
hierarchies) and family D (finite truth tables, operator tables, vocabulary)."""
import ast
import itertools
from typing import Dict, List, Optional, Set, Tuple

from ..model import Repo, ClassInfo, FunctionInfo, AnalysisError, walk_no_nested, src, is_self_attr, \
    self_attrs_in, call_name, dotted, const_str, parent, ancestors
from ..core import Ob, Rule, Mutant, mutate_module, find_def, replace_node, inconclusive
from ..dataflow import Defs
from ..astq import MiniEval, Unsupported, MISSING, flatten, norm, inline_locals, return_exprs, strip_docstring, run_all_choices
from ..cfg import cfg_of

EXPR_WORDS = ("Expr", "Symbol", "Number")

# --------------------------------------------------------------------------- field kinds
# One named symbol, one reason (DESIGN 10.6).  (class, field) -> reason
FIELD_EXCEPTIONS = {
    ("Assignment", "variable"): "assignment target; rebound directly by MultiAssignTransformer, never substituted",
    ("FunctionalAssignment", "argument_dist"): "alias of the draw's Distribution object, set by UpdateInfoTransformer after all substitutions",
    ("DiscreteUniform", "values"): "integer literals by construction (set_parameters raises otherwise); nothing to substitute",
}


def field_kinds(repo: Repo, cls: ClassInfo) -> Dict[str, str]:
    kinds: Dict[str, str] = {}
    for c in reversed(cls.mro()):
        for f, ann in c.annotations.items():
            if f.startswith("_"):
                continue
            if "Condition" in ann:
                k = "cond"
            elif "Distribution" in ann:
                k = "dist"
            elif ("List[" in ann or "Set[" in ann or "Tuple[" in ann) and any(w in ann for w in EXPR_WORDS):
                k = "exprlist"
            elif any(w in ann for w in EXPR_WORDS):
                k = "expr"
            else:
                k = "other"
            kinds[f] = k
        # fields introduced by __init__ / set_parameters from CAS constructors
        for mname in ("__init__", "set_parameters"):
            m = c.methods.get(mname)
            if not m:
                continue
            for n in walk_no_nested(m.node):
                if isinstance(n, ast.Assign):
                    for t in n.targets:
                        if is_self_attr(t) and t.attr not in kinds and not t.attr.startswith("_"):
                            v = n.value
                            if isinstance(v, ast.Call) and call_name(v) in ("sympify", "Symbol", "ssympify"):
                                kinds[t.attr] = "expr"
                            elif isinstance(v, ast.Subscript) and isinstance(v.value, ast.Name) and v.value.id in m.params():
                                kinds[t.attr] = "expr"
    return kinds


def excepted(cls: ClassInfo, field: str) -> Optional[str]:
    for c in cls.mro():
        r = FIELD_EXCEPTIONS.get((c.name, field))
        if r:
            return r
    return None


def hierarchy(repo: Repo, base: str, relpath: str) -> List[ClassInfo]:
    b = repo.cls(base, relpath)
    return [c for c in repo.subclasses(b) if not c.is_abstract() or c.methods.get("subs")]


HIERARCHIES = [("Condition", "program/condition/condition.py"),
               ("Assignment", "program/assignment/assignment.py"),
               ("Distribution", "program/distribution/distribution.py")]


def _method_reads(cls: ClassInfo, m: FunctionInfo, depth=2) -> Set[str]:
    """self.<attr> read in m, following self.<method>() calls `depth` levels."""
    out = set()
    seen = set()

    def rec(fn: FunctionInfo, d):
        if fn.key in seen:
            return
        seen.add(fn.key)
        selfname = fn.params()[0] if fn.params() else "self"
        for n in walk_no_nested(fn.node):
            if is_self_attr(n, None, selfname) and isinstance(n.ctx, ast.Load):
                out.add(n.attr)
                if d > 0 and n.attr not in ("copy", "_simple_copy", "__init__"):
                    callee = cls.find_method(n.attr)
                    if callee is not None and callee.node is not fn.node:
                        rec(callee, d - 1)

    rec(m, depth)
    return out


# --------------------------------------------------------------------------- A2 write-back
def rule_a2(repo: Repo) -> List[Ob]:
    obs: List[Ob] = []
    for base, rp in HIERARCHIES:
        for cls in hierarchy(repo, base, rp):
            m = cls.methods.get("subs")
            if m is None:
                continue
            kinds = field_kinds(repo, cls)
            params = m.params()
            if len(params) < 2:
                raise AnalysisError(f"{m.key}: subs without a substitution parameter")
            sp = params[1]
            defs = Defs(m.node, params[0])
            body_nodes = list(walk_no_nested(m.node))
            # helpers of the class called from subs (one level) belong to its body for this rule
            for n in list(body_nodes):
                if isinstance(n, ast.Call) and isinstance(n.func, ast.Attribute) and isinstance(n.func.value, ast.Name) and n.func.value.id == params[0]:
                    h = cls.find_method(n.func.attr)
                    if h is not None and h.node is not m.node and h.name != "subs":
                        body_nodes += list(walk_no_nested(h.node))
            # (a) discarded results
            for n in body_nodes:
                if isinstance(n, ast.Expr) and isinstance(n.value, ast.Call) and call_name(n.value) in ("subs", "xreplace"):
                    recv = n.value.func.value if isinstance(n.value.func, ast.Attribute) else None
                    f = defs.origin_field(recv) if recv is not None else None
                    if f and kinds.get(f) in ("expr", "exprlist"):
                        obs.append(Ob("A2-writeback", f"{cls.relpath}::{cls.name}.subs::discard::{f}", cls.relpath, n.lineno,
                                      m.qualname, False,
                                      f"result of `{src(n.value)}` is discarded: field `{f}` (kind {kinds[f]}) is immutable CAS data and must be written back",
                                      witness=src(n)))
            # (b) every substitutable field handled
            for f, k in sorted(kinds.items()):
                if k == "other":
                    continue
                key = f"{cls.relpath}::{cls.name}.subs::{f}"
                ex = excepted(cls, f)
                if ex:
                    obs.append(Ob("A2-writeback", key, cls.relpath, m.node.lineno, m.qualname, True,
                                  f"field `{f}` exempt: {ex}", trivial=True))
                    continue
                ok, wit = _subs_handles(defs, body_nodes, params[0], sp, f, k)
                obs.append(Ob("A2-writeback", key, cls.relpath, m.node.lineno, m.qualname, ok,
                              (f"field `{f}` ({k}) is substituted and " + ("written back" if k in ("expr", "exprlist") else "delegated in place"))
                              if ok else f"field `{f}` ({k}) is not substituted by {cls.name}.subs ({wit})",
                              witness=wit))
    return obs


def _subs_handles(defs: Defs, nodes, selfname, sp, f, kind) -> Tuple[bool, str]:
    want_self = f"{selfname}.{f}"
    if kind in ("expr", "exprlist"):
        for n in nodes:
            if isinstance(n, (ast.Assign, ast.AugAssign, ast.AnnAssign)):
                targets = n.targets if isinstance(n, ast.Assign) else [n.target]
                for t in targets:
                    # self.a, self.b = (p.subs(s) for p in (self.a, self.b)) : position i of the target tuple is written from position i of the iterated tuple
                    if isinstance(t, (ast.Tuple, ast.List)) and isinstance(n.value, (ast.GeneratorExp, ast.ListComp)) and len(n.value.generators) == 1 \
                            and isinstance(n.value.generators[0].iter, (ast.Tuple, ast.List)) and len(n.value.generators[0].iter.elts) == len(t.elts) \
                            and isinstance(n.value.generators[0].target, ast.Name) and not n.value.generators[0].ifs:
                        for i_, el in enumerate(t.elts):
                            if is_self_attr(el, f, selfname):
                                src_el = n.value.generators[0].iter.elts[i_]
                                lv = n.value.generators[0].target.id
                                elt = n.value.elt
                                uses = any(isinstance(x, ast.Name) and x.id == lv for x in ast.walk(elt))
                                call_ok = any(isinstance(x, ast.Call) and any(("param:" + sp) in defs.roots(a_) for a_ in x.args) for x in ast.walk(elt))
                                if is_self_attr(src_el, f, selfname) and uses and call_ok:
                                    return True, src(n)
                                return False, f"`{src(n)[:80]}` writes {want_self} from `{src(src_el)}`"
                        continue
                    if isinstance(t, (ast.Tuple, ast.List)) and isinstance(n.value, (ast.Tuple, ast.List)) and len(n.value.elts) == len(t.elts):
                        for i_, el in enumerate(t.elts):
                            if is_self_attr(el, f, selfname):
                                v_ = n.value.elts[i_]
                                roots = _roots_no_selfdef(defs, v_)
                                if want_self in roots and ("param:" + sp) in roots and any(isinstance(x, ast.Call) for x in ast.walk(v_)):
                                    return True, src(n)
                                return False, f"`{src(v_)}` does not combine {want_self} with `{sp}`"
                        continue
                    if is_self_attr(t, f, selfname) and n.value is not None:
                        roots = _roots_no_selfdef(defs, n.value)
                        has_call = any(isinstance(x, ast.Call) for x in ast.walk(n.value))
                        if want_self in roots and ("param:" + sp) in roots and has_call:
                            return True, src(n)
                        return False, f"`{src(n)}` does not combine {want_self} with `{sp}`"
        return False, "no write-back assignment found"
    # in-place kinds: a call <field>.subs(<depends on sp>)
    for n in nodes:
        if isinstance(n, ast.Call) and call_name(n) == "subs" and isinstance(n.func, ast.Attribute):
            if defs.origin_field(n.func.value) == f or is_self_attr(n.func.value, f, selfname):
                argroots = set()
                for a in n.args:
                    argroots |= defs.roots(a)
                if ("param:" + sp) in argroots:
                    st = n
                    # reassigning the field from a None-returning in-place subs would erase it
                    from ..model import enclosing_stmt
                    es = enclosing_stmt(n)
                    if isinstance(es, ast.Assign) and any(is_self_attr(t, f, selfname) for t in es.targets):
                        return False, f"`{src(es)}` rebinds the field to the (None) result of an in-place subs"
                    return True, src(n)
    return False, "no delegating call found"


def _roots_no_selfdef(defs: Defs, e) -> Set[str]:
    return defs.roots(e)


def mut_a2(repo: Repo) -> List[Mutant]:
    out = []
    first = True
    for base, rp in HIERARCHIES:
        for cls in hierarchy(repo, base, rp):
            m = cls.methods.get("subs")
            if m is None:
                continue
            kinds = field_kinds(repo, cls)
            for f, k in sorted(kinds.items()):
                if k == "other" or excepted(cls, f):
                    continue

                def tr(tree, cls=cls, f=f, k=k):
                    fn = find_def(tree, f"{cls.name}.subs")
                    if fn is None:
                        return False
                    for n in list(ast.walk(fn)):
                        if k in ("expr", "exprlist") and isinstance(n, ast.Assign) and any(is_self_attr(t, f) for t in n.targets):
                            return replace_node(fn, n, ast.Expr(value=n.value))
                        if k in ("cond", "dist") and isinstance(n, ast.Expr) and isinstance(n.value, ast.Call) \
                                and isinstance(n.value.func, ast.Attribute) and is_self_attr(n.value.func.value, f):
                            return replace_node(fn, n, ast.Pass())
                    return False

                ov = mutate_module(repo, cls.relpath, tr)
                if ov:
                    out.append(Mutant(f"drop-subs:{cls.name}.{f}", ov, "fire", f"{cls.name}.subs::", control=first))
                    first = False
    return out


# --------------------------------------------------------------------------- A1 / A3 field coverage
# method -> which hierarchies it is required in
COVER = {
    "Distribution": ["get_free_symbols", "sample", "__str__", "get_moment", "cf", "mgf"],
    "Assignment": ["get_free_symbols", "__str__", "evaluate_right_side", "get_moment"],
    "Condition": ["subs", "evaluate", "to_arithm", "get_free_symbols", "reduce", "get_normalized", "simplify",
                  "__eq__", "__hash__", "__str__", "_simple_copy", "get_loop_guard"],
}
RECURSIVE = {"subs", "evaluate", "to_arithm", "get_free_symbols", "reduce", "get_normalized", "simplify"}

# (class, method, field) cells that are intentionally not covered -- one line of reason each
CELL_EXCEPTIONS = {
    ("DiscreteUniform", "get_free_symbols", "values"): "integer literals only",
    ("Atom", "simplify", "poly1"): "Atom.simplify is the identity", ("Atom", "simplify", "poly2"): "Atom.simplify is the identity",
    ("Atom", "get_loop_guard", "poly1"): "returns a copy of itself or None", ("Atom", "get_loop_guard", "poly2"): "returns a copy of itself or None",
    ("Atom", "reduce", "poly2"): "covered: alias = poly1 - poly2 (checked by read anyway)",
    ("Assignment", "get_free_symbols", "variable"): "free symbols of the right side only",
    ("Assignment", "evaluate_right_side", "variable"): "right side only", ("Assignment", "evaluate_right_side", "condition"): "Assignment.evaluate tests the condition",
    ("Assignment", "evaluate_right_side", "default"): "Assignment.evaluate applies the default",
    ("Assignment", "get_moment", "condition"): "condition arrives as parameter arithm_cond (RecBuilder._replace_assign)",
    ("PolyAssignment", "get_moment", "variable"): "local assignment: moment of the right side", ("DistAssignment", "get_moment", "variable"): "used only for the functional-variable lookup",
    ("FunctionalAssignment", "evaluate_right_side", "argument_dist"): "simulation evaluates the argument's sampled value",
    ("FunctionalAssignment", "get_free_symbols", "argument_dist"): "alias of another assignment's distribution",
    ("FunctionalAssignment", "__str__", "argument_dist"): "alias, not printed",
    ("FunctionalAssignment", "get_moment", "argument_dist"): "moment is taken jointly by the draw's DistAssignment",
}


def _cell_exception(cls: ClassInfo, method: str, field: str) -> Optional[str]:
    for c in cls.mro():
        r = CELL_EXCEPTIONS.get((c.name, method, field))
        if r:
            return r
    return None


def rule_cover(repo: Repo, only: Optional[str] = None) -> List[Ob]:
    obs: List[Ob] = []
    for base, rp in HIERARCHIES:
        if only and base != only:
            continue
        for cls in hierarchy(repo, base, rp):
            kinds = field_kinds(repo, cls)
            fields = sorted(f for f, k in kinds.items() if k != "other")
            if base == "Condition" and cls.name == "Atom":
                fields = sorted(set(fields))
            for mname in COVER[base]:
                m = cls.methods.get(mname)
                if m is None:
                    continue  # inherited (abstract or base default) -> nothing to check in this class
                reads = _method_reads(cls, m)
                for f in fields:
                    key = f"{cls.relpath}::{cls.name}.{mname}::{f}"
                    ex = _cell_exception(cls, mname, f)
                    if base != "Condition" and mname == "__str__" and f in ("argument_dist",):
                        ex = ex or "alias"
                    if ex:
                        obs.append(Ob("A1-coverage", key, cls.relpath, m.node.lineno, m.qualname, True, f"exempt: {ex}", trivial=True))
                        continue
                    ok = f in reads
                    msg = f"`{mname}` consults field `{f}`" if ok else f"`{cls.name}.{mname}` never reads field `{f}` ({kinds[f]})"
                    if ok and base == "Condition" and mname in RECURSIVE and kinds[f] == "cond":
                        ok2 = _recurses(m, f, mname)
                        if not ok2:
                            ok = False
                            msg = f"`{cls.name}.{mname}` does not recurse into `{f}` through `{f}.{mname}(...)`"
                    obs.append(Ob("A1-coverage", key, cls.relpath, m.node.lineno, m.qualname, ok, msg))
    return obs


def _recurses(m: FunctionInfo, f: str, mname: str) -> bool:
    for n in walk_no_nested(m.node):
        if isinstance(n, ast.Call) and isinstance(n.func, ast.Attribute) and n.func.attr == mname and is_self_attr(n.func.value, f):
            return True
    return False


def mut_cover(repo: Repo, only: Optional[str] = None) -> List[Mutant]:
    out = []
    first = True
    for base, rp in HIERARCHIES:
        if only and base != only:
            continue
        for cls in hierarchy(repo, base, rp):
            kinds = field_kinds(repo, cls)
            fields = sorted(f for f, k in kinds.items() if k != "other")
            for mname in COVER[base]:
                m = cls.methods.get(mname)
                if m is None:
                    continue
                reads = _method_reads(cls, m, depth=0)
                helper_reads = set()
                for h in reads:
                    callee = cls.find_method(h)
                    if callee is not None and callee.node is not m.node and h not in ("copy", "_simple_copy", "__init__"):
                        helper_reads |= _method_reads(cls, callee, depth=1)
                for f in fields:
                    if _cell_exception(cls, mname, f) or f not in reads or f in helper_reads:
                        continue
                    others = [g for g in fields if g != f and kinds[g] == kinds[f]]

                    def tr(tree, cls=cls, mname=mname, f=f, others=others):
                        fn = find_def(tree, f"{cls.name}.{mname}")
                        if fn is None:
                            return False
                        changed = False
                        for n in ast.walk(fn):
                            if is_self_attr(n, f) and isinstance(n.ctx, ast.Load):
                                if others:
                                    n.attr = others[0]
                                    changed = True
                        if not others:
                            class R(ast.NodeTransformer):
                                def visit_Attribute(self, n):
                                    nonlocal changed
                                    if is_self_attr(n, f) and isinstance(n.ctx, ast.Load):
                                        changed = True
                                        return ast.Name(id="None", ctx=ast.Load())
                                    return self.generic_visit(n)
                            R().visit(fn)
                        return changed

                    ov = mutate_module(repo, cls.relpath, tr)
                    if ov:
                        out.append(Mutant(f"unread:{cls.name}.{mname}.{f}", ov, "fire", f"{cls.name}.{mname}::{f}", control=first))
                        first = False
    return out


# --------------------------------------------------------------------------- D1 truth tables
COND_SEMANTICS = {
    "And": (2, lambda a, b: a and b), "Or": (2, lambda a, b: a or b), "Not": (1, lambda a: not a),
    "TrueCond": (0, lambda: True), "FalseCond": (0, lambda: False),
}


def _child_fields(repo, cls) -> List[str]:
    kinds = field_kinds(repo, cls)
    return sorted(f for f, k in kinds.items() if k == "cond")


def _tabulate(cls: ClassInfo, m: FunctionInfo, children: List[str], domain, callee: str):
    """rows: valuation tuple -> result; child call self.<c>.<callee>(..) takes the valuation's value."""
    rows = {}
    for vals in itertools.product(domain, repeat=len(children)):
        env = dict(zip(children, vals))

        def cb(e, env=env):
            if isinstance(e, ast.Call) and isinstance(e.func, ast.Attribute) and is_self_attr(e.func.value):
                if e.func.value.attr in env and e.func.attr == callee:
                    return env[e.func.value.attr]
            return MISSING

        try:
            outs = run_all_choices(lambda ch, cb=cb: MiniEval(cb, ch), strip_docstring(m.node.body))
        except Unsupported as u:
            raise AnalysisError(f"D1: cannot tabulate {m.key}: {u}")
        # all explored paths (outcomes of tests the evaluator cannot decide) must agree with the table;
        # report the first deviating value if any, else the common value
        vals_out = [r for _, r in outs]
        rows[vals] = vals_out
    return rows


def rule_d1(repo: Repo) -> List[Ob]:
    obs = []
    base = repo.cls("Condition", "program/condition/condition.py")
    for cname, (arity, sem) in COND_SEMANTICS.items():
        cls = repo.find_cls(cname)
        if cls is None or base not in cls.mro():
            raise AnalysisError(f"D1: condition class {cname} not found")
        children = _child_fields(repo, cls)
        if len(children) != arity:
            raise AnalysisError(f"D1: {cname} has child fields {children}, expected {arity}")
        ev_m = cls.methods.get("evaluate")
        ar_m = cls.methods.get("to_arithm")
        if ev_m is None or ar_m is None:
            raise AnalysisError(f"D1: {cname} lacks evaluate/to_arithm")
        try:
            ev_rows = _tabulate(cls, ev_m, children, (False, True), "evaluate")
            ar_rows = _tabulate(cls, ar_m, children, (0, 1), "to_arithm")
        except AnalysisError as e:
            obs.append(inconclusive("D1-truthtable", f"{cls.relpath}::{cname}::table", cls.relpath, ev_m.node.lineno, cname, str(e)))
            continue
        for vals, rs in sorted(ev_rows.items()):
            want = bool(sem(*vals))
            badr = [x for x in rs if not (isinstance(x, (bool, int)) and bool(x) == want)]
            r = badr[0] if badr else rs[0]
            ok = not badr
            obs.append(Ob("D1-truthtable", f"{cls.relpath}::{cname}.evaluate::{vals}", cls.relpath, ev_m.node.lineno, ev_m.qualname, ok,
                          f"{cname}.evaluate{vals} = {r!r}, boolean meaning of {cname} is {want}", witness=f"row {vals}"))
        for vals, rs in sorted(ar_rows.items()):
            want = int(bool(sem(*[bool(v) for v in vals])))
            badr = [x for x in rs if x != want]
            r = badr[0] if badr else rs[0]
            ok = not badr
            obs.append(Ob("D1-truthtable", f"{cls.relpath}::{cname}.to_arithm::{vals}", cls.relpath, ar_m.node.lineno, ar_m.qualname, ok,
                          f"{cname}.to_arithm{vals} = {r!r}, indicator of the boolean meaning is {want}", witness=f"row {vals}"))
    # the parser maps the source operators to these classes
    st = repo.function("inputparser/structure_transformer.py", "StructureTransformer.condition")
    found = {}
    for n in walk_no_nested(st.node):
        if isinstance(n, ast.If) and isinstance(n.test, ast.Compare) and len(n.test.ops) == 1 and isinstance(n.test.ops[0], ast.Eq):
            lit = const_str(n.test.comparators[0]) or const_str(n.test.left)
            if lit is None:
                continue
            for r in [x for x in n.body if isinstance(x, ast.Return)]:
                if isinstance(r.value, ast.Call):
                    found[lit] = (call_name(r.value), n.lineno, [src(a) for a in r.value.args])
    # table form: TABLE = {"&&": And, ...}; connective = TABLE[op] / TABLE.get(op); return connective(left, right)
    sdefs = Defs(st.node, st.params()[0])
    for n in walk_no_nested(st.node):
        tab = None
        if isinstance(n, ast.Subscript) and isinstance(n.ctx, ast.Load):
            tab = n.value
        elif isinstance(n, ast.Call) and call_name(n) == "get" and isinstance(n.func, ast.Attribute):
            tab = n.func.value
        if tab is None:
            continue
        tname = tab.id if isinstance(tab, ast.Name) else tab.attr if isinstance(tab, ast.Attribute) else None
        dnode = None
        for body in (st.module.tree.body, st.cls.node.body if st.cls is not None else [], list(walk_no_nested(st.node))):
            for stn in body:
                if isinstance(stn, ast.Assign) and isinstance(stn.targets[0], ast.Name) and stn.targets[0].id == tname and isinstance(stn.value, ast.Dict):
                    dnode = stn.value
        if dnode is None:
            continue
        # the looked-up class is called through a local name (or directly)
        par = parent(n)
        callargs = None
        if isinstance(par, ast.Call) and par.func is n:
            callargs = [src(a) for a in par.args]
        elif isinstance(par, ast.Assign) and isinstance(par.targets[0], ast.Name):
            local = par.targets[0].id
            for c in walk_no_nested(st.node):
                if isinstance(c, ast.Call) and isinstance(c.func, ast.Name) and c.func.id == local:
                    callargs = [src(a) for a in c.args]
        if callargs is None:
            continue
        for kx, vx in zip(dnode.keys, dnode.values):
            lit = const_str(kx) if kx is not None else None
            if lit is not None and isinstance(vx, ast.Name):
                found.setdefault(lit, (vx.id, n.lineno, callargs))
    gram = repo.text("inputparser/syntax.lark")
    import re
    toks = dict(re.findall(r'^(AND|OR|NOT)\s*:\s*"([^"]+)"', gram, re.M))
    for tok, cname in (("AND", "And"), ("OR", "Or")):
        lit = toks.get(tok)
        if lit is None:
            raise AnalysisError(f"D1: grammar terminal {tok} not found")
        got = found.get(lit)
        ok = got is not None and got[0] == cname and len(set(got[2])) == 2
        if got is None:
            obs.append(inconclusive("D1-truthtable", f"inputparser/structure_transformer.py::condition::{tok}", st.relpath, st.node.lineno, st.qualname,
                                    f"how the source operator {lit!r} is mapped to a condition class was not recognised"))
            continue
        obs.append(Ob("D1-truthtable", f"inputparser/structure_transformer.py::condition::{tok}", st.relpath, got[1] if got else st.node.lineno,
                      st.qualname, ok, f"source operator {lit!r} builds {got[0] if got else None}({', '.join(got[2]) if got else ''}), expected {cname} over both operands"))
    # NOT "(" condition ")" -> Not(child)
    notret = [n for n in walk_no_nested(st.node) if isinstance(n, ast.Return) and isinstance(n.value, ast.Call) and call_name(n.value) == "Not"]
    arm2 = [n for n in walk_no_nested(st.node) if isinstance(n, ast.If) and src(n.test).replace(" ", "") in ("len(args)==2", "2==len(args)")]
    plain = [r for a2 in arm2 for r in ast.walk(a2) if isinstance(r, ast.Return) and r in a2.body and not (isinstance(r.value, ast.Call) and call_name(r.value) == "Not")]
    if plain:
        obs.append(Ob("D1-truthtable", "inputparser/structure_transformer.py::condition::NOT", st.relpath, plain[0].lineno, st.qualname, False,
                      f"the two-token form `! cond` returns `{src(plain[0].value)}`: the negation is lost"))
    elif len(notret) == 1:
        obs.append(Ob("D1-truthtable", "inputparser/structure_transformer.py::condition::NOT", st.relpath, st.node.lineno, st.qualname, True, "source operator '!' builds Not(child)"))
    else:
        obs.append(inconclusive("D1-truthtable", "inputparser/structure_transformer.py::condition::NOT", st.relpath, st.node.lineno, st.qualname, "no unique `return Not(..)` for the NOT form"))
    return obs


def mut_d1(repo: Repo) -> List[Mutant]:
    out = []
    specs = [
        ("program/condition/or_cond.py", "Or.to_arithm", "or-plain-sum", "Or.to_arithm"),
        ("program/condition/and_cond.py", "And.evaluate", "and-becomes-or", "And.evaluate"),
        ("program/condition/not_cond.py", "Not.to_arithm", "not-identity", "Not.to_arithm"),
        ("program/condition/and_cond.py", "And.to_arithm", "and-sum", "And.to_arithm"),
        ("program/condition/or_cond.py", "Or.evaluate", "or-becomes-and", "Or.evaluate"),
    ]
    for i, (rp, qn, name, key) in enumerate(specs):
        def tr(tree, qn=qn, name=name):
            fn = find_def(tree, qn)
            if fn is None:
                return False
            for n in ast.walk(fn):
                if name in ("and-becomes-or", "or-becomes-and") and isinstance(n, ast.BoolOp):
                    n.op = ast.Or() if isinstance(n.op, ast.And) else ast.And()
                    return True
                if name == "and-sum" and isinstance(n, ast.BinOp) and isinstance(n.op, ast.Mult):
                    n.op = ast.Add()
                    return True
                if name == "not-identity" and isinstance(n, ast.Return) and isinstance(n.value, ast.BinOp):
                    n.value = n.value.right
                    return True
                if name == "or-plain-sum" and isinstance(n, ast.Return):
                    # 1 - (a*b)  ->  drop the complement of the product
                    if isinstance(n.value, ast.BinOp) and isinstance(n.value.op, ast.Sub):
                        n.value = n.value.right
                        return True
            return False
        ov = mutate_module(repo, rp, tr)
        if ov:
            out.append(Mutant(name, ov, "fire", key, control=(i == 0)))
    # benign: Or.to_arithm written as a + b - a*b ; And.evaluate via all([...])
    def benign_or(tree):
        fn = find_def(tree, "Or.to_arithm")
        if fn is None:
            return False
        p = fn.args.args[1].arg
        new = ast.parse(f"def f():\n    a = self.cond1.to_arithm({p})\n    b = self.cond2.to_arithm({p})\n    return a + b - a * b\n").body[0].body
        fn.body = new
        return True
    ov = mutate_module(repo, "program/condition/or_cond.py", benign_or)
    if ov:
        out.append(Mutant("benign-or-inclusion-exclusion", ov, "silent"))

    def benign_and(tree):
        fn = find_def(tree, "And.evaluate")
        if fn is None:
            return False
        p = fn.args.args[1].arg
        fn.body = ast.parse(f"def f():\n    if not self.cond1.evaluate({p}):\n        return False\n    return self.cond2.evaluate({p})\n").body[0].body
        return True
    ov = mutate_module(repo, "program/condition/and_cond.py", benign_and)
    if ov:
        out.append(Mutant("benign-and-early-return", ov, "silent"))
    return out


# --------------------------------------------------------------------------- D2 operator tables
CMP = {ast.Eq: "==", ast.NotEq: "!=", ast.Lt: "<", ast.LtE: "<=", ast.Gt: ">", ast.GtE: ">="}
OPERATOR_MODULE = {"eq": "==", "ne": "!=", "lt": "<", "le": "<=", "gt": ">", "ge": ">="}


def _operator_table(fn: FunctionInfo) -> Dict[str, Tuple[str, bool, int]]:
    """literal -> (python comparison, operands_in_order, line).  The function has parameters
    (value-ish, cop, bound-ish); `operands_in_order` says that the value side is the left operand."""
    params = fn.params()
    if len(params) != 3:
        raise AnalysisError(f"D2: {fn.key} does not have 3 parameters")
    left_p, cop_p, right_p = params
    table = {}
    defs = Defs(fn.node, None)
    for n in walk_no_nested(fn.node):
        if isinstance(n, ast.If) and isinstance(n.test, ast.Compare) and len(n.test.ops) == 1 \
                and isinstance(n.test.ops[0], ast.Eq):
            a, b = n.test.left, n.test.comparators[0]
            lit = const_str(b) if isinstance(a, ast.Name) and a.id == cop_p else (const_str(a) if isinstance(b, ast.Name) and b.id == cop_p else None)
            if lit is None:
                continue
            comp = None
            for r in n.body:
                for x in ast.walk(r):
                    if isinstance(x, ast.Compare) and len(x.ops) == 1 and type(x.ops[0]) in CMP:
                        comp = x
                        break
                if comp is not None:
                    break
            if comp is None:
                tol = [x for r in n.body for x in ast.walk(r) if isinstance(x, ast.Call) and (call_name(x) or "") in ("isclose", "allclose", "approx", "is_close", "almost_equal")]
                if tol:
                    # a tolerant comparison is not the operator: recorded as its own pseudo-operator, which never equals the source operator
                    table[lit] = ("~= (tolerant `%s`)" % call_name(tol[0]), True, n.lineno)
                    continue
                raise AnalysisError(f"D2: no comparison in the `{lit}` arm of {fn.key}")
            lroots = defs.roots(comp.left)
            rroots = defs.roots(comp.comparators[0])
            in_order = ("param:" + left_p) in lroots and ("param:" + right_p) in rroots
            swapped = ("param:" + right_p) in lroots and ("param:" + left_p) in rroots
            if not in_order and not swapped:
                raise AnalysisError(f"D2: operands of `{src(comp)}` in {fn.key} do not derive from ({left_p}, {right_p})")
            table[lit] = (CMP[type(comp.ops[0])], in_order, n.lineno)
        elif isinstance(n, ast.Dict):
            _dict_table(n, table)
    if not table:
        # a module-level dict {"<=": operator.le, ...} used by the function or by a helper it calls
        names = {x.id for x in ast.walk(fn.node) if isinstance(x, ast.Name)}
        for g in repo_functions_of(fn):
            if g.name in names and g.cls is None:
                names |= {x.id for x in ast.walk(g.node) if isinstance(x, ast.Name)}
        for st in fn.module.tree.body:
            if isinstance(st, (ast.Assign, ast.AnnAssign)) and isinstance(getattr(st, "value", None), ast.Dict):
                tgts = st.targets if isinstance(st, ast.Assign) else [st.target]
                if any(isinstance(t, ast.Name) and t.id in names for t in tgts):
                    _dict_table(st.value, table)
        if table:
            # operands must be passed in order (value side first)
            calls = [c for c in ast.walk(fn.node) if isinstance(c, ast.Call) and len(c.args) == 2 and not isinstance(c.func, ast.Name)]
            for c in calls:
                lr, rr = defs.roots(c.args[0]), defs.roots(c.args[1])
                if ("param:" + right_p) in lr and ("param:" + left_p) in rr and not (("param:" + left_p) in lr):
                    table = {k: (op, False, line) for k, (op, _, line) in table.items()}
    return table


_REPO_FOR_TABLE = [None]


def repo_functions_of(fn: FunctionInfo):
    r = _REPO_FOR_TABLE[0]
    return [g for g in r.functions if g.module is fn.module] if r is not None else []


def _dict_table(n: ast.Dict, table):
    for k, v in zip(n.keys, n.values):
        lit = const_str(k)
        if lit is None:
            continue
        d = dotted(v)
        if d and d.split(".")[-1] in OPERATOR_MODULE:
            table[lit] = (OPERATOR_MODULE[d.split(".")[-1]], True, n.lineno)
        elif isinstance(v, ast.Lambda) and isinstance(v.body, ast.Compare) and len(v.body.ops) == 1 and type(v.body.ops[0]) in CMP and len(v.args.args) == 2:
            a0, a1 = v.args.args[0].arg, v.args.args[1].arg
            l, r_ = v.body.left, v.body.comparators[0]
            if isinstance(l, ast.Name) and isinstance(r_, ast.Name):
                table[lit] = (CMP[type(v.body.ops[0])], l.id == a0 and r_.id == a1, n.lineno)


FLIP = {"<": ">", ">": "<", "<=": ">=", ">=": "<=", "==": "==", "!=": "!="}


def rule_d2(repo: Repo) -> List[Ob]:
    obs = []
    import re
    gram = repo.text("inputparser/syntax.lark")
    cop = re.search(r"^COP\s*:\s*(.+)$", gram, re.M)
    if not cop:
        raise AnalysisError("D2: COP terminal not found in syntax.lark")
    alts = [a.strip() for a in cop.group(1).split("|")]
    lits = {}
    for a in alts:
        m = re.search(r'^%s\s*:\s*"([^"]+)"' % re.escape(a), gram, re.M)
        if not m:
            raise AnalysisError(f"D2: terminal {a} not found")
        lits[a] = m.group(1)
    tables = {}
    _REPO_FOR_TABLE[0] = repo
    for qn in ("get_valid_values", "evaluate_cop"):
        fn = repo.function("utils/conditions.py", qn)
        try:
            t = _operator_table(fn)
        except AnalysisError as e:
            t = {}
        if len(t) < 3:
            obs.append(inconclusive("D2-operators", f"utils/conditions.py::{qn}::table", fn.relpath, fn.node.lineno, fn.qualname,
                                    f"operator dispatch of {qn} not recognised (if-chain on the operator string or a dict of operator functions expected)"))
            continue
        tables[qn] = (fn, t)
        for lit, (op, in_order, line) in sorted(t.items()):
            eff = op if in_order or op not in FLIP else FLIP[op]
            want = "!=" if lit == "/=" else lit
            ok = eff == want
            obs.append(Ob("D2-operators", f"utils/conditions.py::{qn}::{lit}", fn.relpath, line, fn.qualname, ok,
                          f"source operator {lit!r} is evaluated as `value {eff} bound`" + ("" if ok else f" (expected {want})")))
        # unhandled operators must reach a raise
        c = cfg_of(fn.node)
        ends_in_raise = any(isinstance(n.ast, ast.Raise) and c.reachable_from_entry(n) for n in c.nodes if n.kind == "stmt") or \
            any(isinstance(x, ast.Raise) for g in repo_functions_of(fn) if g.name in {y.id for y in ast.walk(fn.node) if isinstance(y, ast.Name)} for x in ast.walk(g.node))
        falls_through = any(p.kind != "stmt" or not isinstance(p.ast, ast.Return) for p in c.preds(c.exit))
        for a, lit in sorted(lits.items()):
            if lit in t:
                continue
            ok = ends_in_raise and not falls_through
            obs.append(Ob("D2-operators", f"utils/conditions.py::{qn}::unhandled::{lit}", fn.relpath, fn.node.lineno, fn.qualname, ok,
                          f"grammar operator {lit!r} is not handled by {qn} and " + ("is refused by the final raise" if ok else "can fall through without an error")))
    if len(tables) < 2:
        return obs
    a, b = tables["get_valid_values"][1], tables["evaluate_cop"][1]
    same = set(a) == set(b)
    fn = tables["evaluate_cop"][0]
    obs.append(Ob("D2-operators", "utils/conditions.py::handled-sets-agree", fn.relpath, fn.node.lineno, "get_valid_values/evaluate_cop", same,
                  f"analysis side handles {sorted(a)}, simulation side handles {sorted(b)}"))
    return obs


def mut_d2(repo: Repo) -> List[Mutant]:
    out = []

    def swap(tree, qn, which, new):
        fn = find_def(tree, qn)
        if fn is None:
            return False
        for n in ast.walk(fn):
            if isinstance(n, ast.If) and isinstance(n.test, ast.Compare) and const_str(n.test.comparators[0]) == which:
                for x in ast.walk(ast.Module(body=n.body, type_ignores=[])):
                    if isinstance(x, ast.Compare) and type(x.ops[0]) in CMP:
                        x.ops = [new()]
                        return True
        return False
    cases = [("get_valid_values", "<=", ast.Lt), ("get_valid_values", ">", ast.GtE), ("evaluate_cop", "<", ast.LtE),
             ("evaluate_cop", ">=", ast.Gt), ("get_valid_values", "==", ast.NotEq)]
    for i, (qn, which, new) in enumerate(cases):
        ov = mutate_module(repo, "utils/conditions.py", lambda t, qn=qn, which=which, new=new: swap(t, qn, which, new))
        if ov:
            out.append(Mutant(f"op-{qn}-{which}", ov, "fire", f"{qn}::{which}", control=(i == 0)))

    def swap_operands(tree):
        fn = find_def(tree, "evaluate_cop")
        for n in ast.walk(fn):
            if isinstance(n, ast.Compare) and isinstance(n.ops[0], ast.Lt):
                n.left, n.comparators = n.comparators[0], [n.left]
                return True
        return False
    ov = mutate_module(repo, "utils/conditions.py", swap_operands)
    if ov:
        out.append(Mutant("op-swapped-operands", ov, "fire", "evaluate_cop::<"))

    def drop_arm(tree):
        fn = find_def(tree, "evaluate_cop")
        for i, st in enumerate(fn.body):
            if isinstance(st, ast.If) and const_str(st.test.comparators[0]) == ">":
                del fn.body[i]
                return True
        return False
    ov = mutate_module(repo, "utils/conditions.py", drop_arm)
    if ov:
        out.append(Mutant("op-sim-drops-gt", ov, "fire", "handled-sets-agree"))

    def benign_flip(tree):
        # `v <= integer`  ->  `integer >= v`
        fn = find_def(tree, "get_valid_values")
        for n in ast.walk(fn):
            if isinstance(n, ast.Compare) and isinstance(n.ops[0], ast.LtE):
                n.left, n.comparators, n.ops = n.comparators[0], [n.left], [ast.GtE()]
                return True
        return False
    ov = mutate_module(repo, "utils/conditions.py", benign_flip)
    if ov:
        out.append(Mutant("benign-flipped-spelling", ov, "silent"))
    return out


# --------------------------------------------------------------------------- is_implied_by_loop_guard spec (C05)
def rule_implied(repo: Repo) -> List[Ob]:
    """Soundness table for is_implied_by_loop_guard: the answer may be True only if the
    condition is marked, is TrueCond, or (And) all children answer True / (Or) some child does."""
    obs = []
    base = repo.cls("Condition", "program/condition/condition.py")
    for cls in repo.subclasses(base):
        m = cls.methods.get("is_implied_by_loop_guard")
        if m is None:
            raise AnalysisError(f"{cls.name} lacks is_implied_by_loop_guard")
        children = _child_fields(repo, cls)
        bad = None
        rows = 0
        unsupported = None
        for mark in (False, True):
            for vals in itertools.product((False, True), repeat=len(children)):
                env = dict(zip(children, vals))

                def cb(e, env=env, mark=mark):
                    if is_self_attr(e, "is_loop_guard"):
                        return mark
                    if isinstance(e, ast.Call) and isinstance(e.func, ast.Attribute) and is_self_attr(e.func.value) \
                            and e.func.value.attr in env and e.func.attr == "is_implied_by_loop_guard":
                        return env[e.func.value.attr]
                    return MISSING
                try:
                    outs = run_all_choices(lambda ch, cb=cb: MiniEval(cb, ch), strip_docstring(m.node.body))
                except Exception as u:
                    unsupported = str(u)
                    continue
                rows += 1
                if cls.name == "TrueCond":
                    sound_max = True
                elif cls.name == "And":
                    sound_max = mark or all(vals)
                elif cls.name == "Or":
                    sound_max = mark or any(vals)
                else:
                    sound_max = mark
                for _, r in outs:
                    r = bool(r)
                    if r and not sound_max:
                        bad = (mark, vals, r)
                    if cls.name == "TrueCond" and not r:
                        bad = (mark, vals, r)
                    if mark and not r and cls.name != "TrueCond":
                        bad = (mark, vals, r)  # the marked guard itself must be recognised
        if bad is None and (rows == 0 or unsupported):
            obs.append(inconclusive("A4-implied-spec", f"{cls.relpath}::{cls.name}.is_implied_by_loop_guard", cls.relpath, m.node.lineno, m.qualname,
                                    f"body not tabulable ({unsupported})"))
            continue
        ok = bad is None
        obs.append(Ob("A4-implied-spec", f"{cls.relpath}::{cls.name}.is_implied_by_loop_guard", cls.relpath, m.node.lineno, m.qualname, ok,
                      f"{rows} rows: answer is True only when marked" + (" / all children implied" if cls.name == "And" else " / some child implied" if cls.name == "Or" else "")
                      if ok else f"unsound row mark={bad[0]} children={bad[1]} -> {bad[2]}"))
    return obs


def mut_implied(repo: Repo) -> List[Mutant]:
    out = []

    def and_to_or(tree):
        fn = find_def(tree, "And.is_implied_by_loop_guard")
        for n in ast.walk(fn):
            if isinstance(n, ast.BoolOp) and isinstance(n.op, ast.And):
                n.op = ast.Or()
                # make it depend on both children so that the unsound row exists
                if len(n.values) == 2:
                    n.values[1] = ast.parse("self.cond2.is_implied_by_loop_guard()").body[0].value
                return True
        return False
    ov = mutate_module(repo, "program/condition/and_cond.py", and_to_or)
    if ov:
        out.append(Mutant("and-implied-if-any-child", ov, "fire", "And.is_implied_by_loop_guard", control=True))

    def atom_true(tree):
        fn = find_def(tree, "Atom.is_implied_by_loop_guard")
        fn.body = [ast.Return(value=ast.Constant(value=True))]
        return True
    ov = mutate_module(repo, "program/condition/atom_cond.py", atom_true)
    if ov:
        out.append(Mutant("atom-always-implied", ov, "fire", "Atom.is_implied_by_loop_guard"))

    def not_child(tree):
        fn = find_def(tree, "Not.is_implied_by_loop_guard")
        fn.body = [ast.parse("return self.is_loop_guard or self.cond.is_implied_by_loop_guard()").body[0]]
        return True
    ov = mutate_module(repo, "program/condition/not_cond.py", not_child)
    if ov:
        out.append(Mutant("not-inherits-child", ov, "fire", "Not.is_implied_by_loop_guard"))
    return out


# --------------------------------------------------------------------------- A4 get_moment sibling terms
def rule_a4_moment(repo: Repo) -> List[Ob]:
    """The three Assignment.get_moment bodies return IF + ELSE with
    ELSE = (1 - cond) * default**k * rest and IF carrying the factors cond and rest."""
    obs = []
    base = repo.cls("Assignment", "program/assignment/assignment.py")
    for cls in repo.subclasses(base, concrete_only=False):
        m = cls.methods.get("get_moment")
        if m is None:
            continue
        p = m.params()
        if len(p) < 5:
            obs.append(inconclusive("A4-moment-shape", f"{cls.relpath}::{cls.name}.get_moment::shape", cls.relpath, m.node.lineno, m.qualname, f"unexpected signature {p}"))
            continue
        selfn, k, _ctx, cond, rest = p[:5]
        from ..shape import expanded
        mx = expanded(repo, m)          # accumulation loops moved into helpers of the class are read in place
        defs = Defs(mx, selfn)
        rets = return_exprs(mx)
        if len(rets) != 1:
            obs.append(inconclusive("A4-moment-shape", f"{cls.relpath}::{cls.name}.get_moment::shape", cls.relpath, m.node.lineno, m.qualname, f"{len(rets)} return statements"))
            continue
        terms = flatten(rets[0], ast.Add)
        summands: List[Tuple[str, ast.AST]] = []
        for t in terms:
            if isinstance(t, ast.Name) and t.id in defs.defs:
                for v in defs.defs[t.id]:
                    if isinstance(v, ast.Constant) and v.value == 0:
                        continue
                    summands.append((t.id, v))
            else:
                summands.append(("", t))
        # sum(<term> for ...)  /  sum([...], start): the summand is the element of the comprehension
        unrolled = []
        for name, e in summands:
            if isinstance(e, ast.Call) and call_name(e) == "sum" and e.args and isinstance(e.args[0], (ast.GeneratorExp, ast.ListComp)):
                unrolled.append((name, e.args[0].elt))
                if len(e.args) > 1 and not (isinstance(e.args[1], ast.Constant) and e.args[1].value == 0):
                    unrolled.append((name, e.args[1]))
            else:
                unrolled.append((name, e))
        summands = unrolled
        else_terms = []
        if_terms = []
        for name, e in summands:
            fs = flatten(e, ast.Mult)
            nf = [norm(x) for x in fs]
            if any(n == norm(ast.parse(f"1 - {cond}").body[0].value) for n in nf):
                else_terms.append((e, nf))
            else:
                if_terms.append((e, nf, fs))
        key = f"{cls.relpath}::{cls.name}.get_moment"
        want_else = sorted([norm(ast.parse(f"1 - {cond}").body[0].value), norm(ast.parse(f"{selfn}.default ** {k}").body[0].value), rest])
        ok = len(else_terms) == 1 and sorted(else_terms[0][1]) == want_else
        if not else_terms:
            obs.append(inconclusive("A4-moment-shape", key + "::else", cls.relpath, m.node.lineno, m.qualname, "no summand with the factor (1 - cond) recognised"))
            continue
        obs.append(Ob("A4-moment-shape", key + "::else", cls.relpath, m.node.lineno, m.qualname, ok,
                      "condition-false part is (1 - cond) * default**k * rest" if ok else
                      f"condition-false part is {[src(e) for e, _ in else_terms]}, expected (1 - {cond}) * ({selfn}.default ** {k}) * {rest}"))
        ok_if = bool(if_terms)
        why = ""
        for e, nf, fs in if_terms:
            if cond not in nf or rest not in nf:
                ok_if = False
                why = f"summand `{src(e)}` lacks the factor `{cond}` or `{rest}`"
        obs.append(Ob("A4-moment-shape", key + "::if", cls.relpath, m.node.lineno, m.qualname, ok_if,
                      f"every condition-true summand carries the factors `{cond}` and `{rest}`" if ok_if else (why or "no condition-true part")))
        if cls.name == "PolyAssignment":
            verdict = None   # True / False / None, text
            for n in walk_no_nested(mx):
                if not (isinstance(n, ast.BinOp) and isinstance(n.op, ast.Mult)) or (isinstance(parent(n), ast.BinOp) and isinstance(parent(n).op, ast.Mult)):
                    continue
                fs = flatten(n, ast.Mult)
                # form 1: probabilities[i] * polynomials[j] ** k
                idx_prob = [x.slice for x in fs if isinstance(x, ast.Subscript) and is_self_attr(x.value, "probabilities", selfn)]
                pows = [x for x in fs if isinstance(x, ast.BinOp) and isinstance(x.op, ast.Pow)]
                idx_poly = [(x.left.slice, x.right) for x in pows if isinstance(x.left, ast.Subscript) and is_self_attr(x.left.value, "polynomials", selfn)]
                if idx_prob and idx_poly:
                    good = len(idx_prob) == 1 and len(idx_poly) == 1 and norm(idx_prob[0]) == norm(idx_poly[0][0]) and src(idx_poly[0][1]) == k
                    verdict = (good, "branch i contributes probabilities[i] * polynomials[i]**k (same index)" if good else
                               f"summand `{src(n)}` does not pair probabilities[i] with polynomials[i] ** {k}")
                    if not good:
                        break
                    continue
                # form 2: prob * poly ** k for prob, poly in zip(self.probabilities, self.polynomials)
                comp = next((a for a in ancestors(n) if isinstance(a, (ast.ListComp, ast.GeneratorExp, ast.For))), None)
                if comp is None:
                    continue
                tgt, it = (comp.target, comp.iter) if isinstance(comp, ast.For) else (comp.generators[0].target, comp.generators[0].iter)
                if not (isinstance(tgt, ast.Tuple) and isinstance(it, ast.Call) and call_name(it) == "zip" and len(it.args) == len(tgt.elts) == 2):
                    continue
                role = {}
                for t, a in zip(tgt.elts, it.args):
                    if isinstance(t, ast.Name):
                        role[t.id] = "prob" if is_self_attr(a, "probabilities", selfn) else "poly" if is_self_attr(a, "polynomials", selfn) else None
                if sorted(str(v) for v in role.values()) != ["poly", "prob"]:
                    continue
                plain = [x.id for x in fs if isinstance(x, ast.Name) and x.id in role]
                powered = [(x.left.id, x.right) for x in pows if isinstance(x.left, ast.Name) and x.left.id in role]
                if not plain and not powered:
                    continue
                good = len(plain) == 1 and len(powered) == 1 and role[plain[0]] == "prob" and role[powered[0][0]] == "poly" and src(powered[0][1]) == k
                verdict = (good, "branch i contributes prob_i * poly_i**k (zipped)" if good else
                           f"summand `{src(n)}` is not prob_i * poly_i ** {k}")
                if not good:
                    break
            if verdict is None:
                obs.append(inconclusive("A4-moment-shape", key + "::pairing", cls.relpath, m.node.lineno, m.qualname, "no summand p_i * poly_i**k recognised"))
            else:
                obs.append(Ob("A4-moment-shape", key + "::pairing", cls.relpath, m.node.lineno, m.qualname, verdict[0], verdict[1]))
    return obs


def mut_a4_moment(repo: Repo) -> List[Mutant]:
    out = []

    def drop_rest(tree):
        fn = find_def(tree, "DistAssignment.get_moment")
        for n in ast.walk(fn):
            if isinstance(n, ast.Assign) and isinstance(n.targets[0], ast.Name) and n.targets[0].id == "if_not_cond":
                n.value = n.value.left  # drop "* rest"
                return True
        return False
    ov = mutate_module(repo, "program/assignment/dist_assignment.py", drop_rest)
    if ov:
        out.append(Mutant("else-drops-rest", ov, "fire", "DistAssignment.get_moment::else", control=True))

    def default_no_power(tree):
        fn = find_def(tree, "PolyAssignment.get_moment")
        for n in ast.walk(fn):
            if isinstance(n, ast.BinOp) and isinstance(n.op, ast.Pow) and is_self_attr(n.left, "default"):
                return replace_node(fn, n, n.left)
        return False
    ov = mutate_module(repo, "program/assignment/poly_assignment.py", default_no_power)
    if ov:
        out.append(Mutant("else-default-not-powered", ov, "fire", "PolyAssignment.get_moment::else"))

    def wrong_index(tree):
        fn = find_def(tree, "PolyAssignment.get_moment")
        for n in ast.walk(fn):
            if isinstance(n, ast.Subscript) and is_self_attr(n.value, "probabilities"):
                n.slice = ast.BinOp(left=n.slice, op=ast.Sub(), right=ast.Constant(value=1))
                return True
        return False
    ov = mutate_module(repo, "program/assignment/poly_assignment.py", wrong_index)
    if ov:
        out.append(Mutant("prob-index-shifted", ov, "fire", "PolyAssignment.get_moment::pairing"))

    def if_drops_cond(tree):
        fn = find_def(tree, "FunctionalAssignment.get_moment")
        for n in ast.walk(fn):
            if isinstance(n, ast.Assign) and isinstance(n.targets[0], ast.Name) and n.targets[0].id == "if_cond":
                fs = flatten(n.value, ast.Mult)
                n.value = ast.BinOp(left=fs[1], op=ast.Mult(), right=fs[2])
                return True
        return False
    ov = mutate_module(repo, "program/assignment/functional_assignment.py", if_drops_cond)
    if ov:
        out.append(Mutant("if-drops-cond", ov, "fire", "FunctionalAssignment.get_moment::if"))

    def benign_reorder(tree):
        fn = find_def(tree, "DistAssignment.get_moment")
        for n in ast.walk(fn):
            if isinstance(n, ast.Assign) and isinstance(n.targets[0], ast.Name) and n.targets[0].id == "if_not_cond":
                fs = flatten(n.value, ast.Mult)
                n.value = ast.BinOp(left=ast.BinOp(left=fs[2], op=ast.Mult(), right=fs[0]), op=ast.Mult(), right=fs[1])
                return True
        return False
    ov = mutate_module(repo, "program/assignment/dist_assignment.py", benign_reorder)
    if ov:
        out.append(Mutant("benign-else-reordered", ov, "silent"))
    return out


# --------------------------------------------------------------------------- registry
RULES = {
    "A2": Rule("A2-writeback", rule_a2, 25, "every subs implementation writes back / delegates every expression-bearing field", mut_a2),
    "A1": Rule("A1-coverage", rule_cover, 80, "interface methods consult every expression-bearing field (composites recurse into every child)", mut_cover),
    "A1-cond": Rule("A1-coverage", lambda r: rule_cover(r, "Condition"), 30, "condition methods consult / recurse into every child", lambda r: mut_cover(r, "Condition")),
    "A1-dist": Rule("A1-coverage", lambda r: rule_cover(r, "Distribution"), 30, "distribution methods consult every parameter field", lambda r: mut_cover(r, "Distribution")),
    "A1-assign": Rule("A1-coverage", lambda r: rule_cover(r, "Assignment"), 10, "assignment methods consult every right-side field", lambda r: mut_cover(r, "Assignment")),
    "D1": Rule("D1-truthtable", rule_d1, 24, "evaluate / to_arithm of And, Or, Not, TrueCond, FalseCond tabulated over {F,T} / {0,1} agree with the boolean meaning; parser maps && || ! to them", mut_d1, soft=True),
    "D2": Rule("D2-operators", rule_d2, 11, "comparison-operator tables of the analysis (get_valid_values) and the simulator (evaluate_cop) are the identity and handle the same set", mut_d2, soft=True),
    "IMPLIED": Rule("A4-implied-spec", rule_implied, 6, "is_implied_by_loop_guard answers True only for marked conditions (And: all children, Or: some child)", mut_implied, soft=True),
    "A4M": Rule("A4-moment-shape", rule_a4_moment, 7, "the three get_moment bodies share the guarded-assignment shape IF + (1-cond)*default**k*rest", mut_a4_moment, soft=True),
}
