"""Families G2 (guard provenance), H (exactness-flag plumbing), D3 (function vocabulary) and the
shape rules for the after-loop arms, the simulator and the parser helpers."""
import ast
import re
from typing import Dict, List, Optional, Set, Tuple

from ..model import Repo, ClassInfo, FunctionInfo, AnalysisError, walk_no_nested, src, is_self_attr, call_name, dotted, parent, \
    ancestors, enclosing_stmt, const_str
from ..core import Ob, Rule, Mutant, mutate_module, find_def, find_defs, replace_node, remove_stmt, inconclusive
from ..dataflow import Defs
from ..cfg import cfg_of
from .validate import controlling_tests, node_for, raise_guards_before, _calls

BODY_TAINT = {"attr:loop_body", "attr:conditions", "attr:branches", "attr:else_branch", "attr:condition"}


# ------------------------------------------------------------------ G2: what gets marked as loop guard
def rule_guard_marks(repo: Repo) -> List[Ob]:
    obs = []
    n = 0
    for f in repo.functions:
        if not f.relpath.startswith("program/"):
            continue
        defs = None
        for st in walk_no_nested(f.node):
            if not isinstance(st, ast.Assign):
                continue
            for t in st.targets:
                if isinstance(t, ast.Attribute) and t.attr == "is_loop_guard":
                    n += 1
                    if defs is None:
                        defs = Defs(f.node, f.params()[0] if f.params() else None)
                    key = f"{f.relpath}::{f.qualname}::mark::{src(t.value)}"
                    v = st.value
                    if isinstance(v, ast.Attribute) and v.attr == "is_loop_guard":
                        obs.append(Ob("G2-guard", key, f.relpath, st.lineno, f.qualname, True,
                                      f"mark is propagated from `{src(v.value)}` to its copy / normal form"))
                        continue
                    if isinstance(v, ast.Constant) and v.value is True:
                        r = defs.roots(t.value)
                        tainted = sorted(x for x in r if x in BODY_TAINT or x.startswith("call:self._collapse"))
                        from_guard = "attr:loop_guard" in r
                        ok = from_guard and not tainted
                        obs.append(Ob("G2-guard", key, f.relpath, st.lineno, f.qualname, ok,
                                      f"`{src(t.value)}` is the source loop guard itself" if ok else
                                      (f"`{src(t.value)}` is marked as loop guard but also derives from {tainted}: conditions of if-statements in the body "
                                       "are conjoined into the marked object, so `while g: if c: ...` is treated as terminated as soon as c is false")
                                      if from_guard else f"`{src(t.value)}` is marked as loop guard but does not derive from program.loop_guard"))
                        continue
                    obs.append(Ob("G2-guard", key, f.relpath, st.lineno, f.qualname, False, f"guard mark set from `{src(v)}`"))
    if n < 3:
        raise AnalysisError(f"G2: only {n} stores to is_loop_guard found")
    return obs


def mut_guard_marks(repo: Repo) -> List[Mutant]:
    out = []

    def mark_branch(tree):
        fns = find_defs(tree, "IfTransformer._")
        for fn in fns:
            for i, st in enumerate(fn.body):
                if isinstance(st, ast.Assign) and src(st.targets[0]) == "conditions":
                    fn.body.insert(i + 1, ast.parse("conditions[0].is_loop_guard = True").body[0])
                    return True
        return False
    ov = mutate_module(repo, "program/transformer/if_transformer.py", mark_branch)
    if ov:
        out.append(Mutant("branch-condition-marked-as-guard", ov, "fire", "IfTransformer._::mark", control=True))

    def mark_combined(tree):
        fn = find_def(tree, "LoopGuardTransformer.execute")
        if fn is None:
            return False
        for i, st in enumerate(fn.body):
            if isinstance(st, ast.Assign) and isinstance(st.targets[0], ast.Attribute) and st.targets[0].attr == "is_loop_guard":
                st.targets[0].value = ast.Name(id="condition", ctx=ast.Load())
                # make sure it is placed after `condition` is the conjunction
                fn.body.pop(i)
                j = next((k for k, s in enumerate(fn.body) if isinstance(s, ast.Assign) and "And(" in src(s.value)), None)
                if j is None:
                    return False
                fn.body.insert(j + 1, st)
                return True
        return False
    ov = mutate_module(repo, "program/transformer/loop_guard_transformer.py", mark_combined)
    if ov:
        out.append(Mutant("collapsed-conjunction-marked", ov, "fire", "LoopGuardTransformer.execute::mark"))
    return out


def rule_original_guard(repo: Repo) -> List[Ob]:
    obs = []
    n = 0
    for f in repo.functions:
        if not f.relpath.startswith("program/"):
            continue
        defs = None
        for st in walk_no_nested(f.node):
            if isinstance(st, ast.Assign):
                for t in st.targets:
                    if isinstance(t, ast.Attribute) and t.attr == "original_loop_guard" and not (is_self_attr(t) and f.name == "__init__"):
                        n += 1
                        if defs is None:
                            defs = Defs(f.node, f.params()[0] if f.params() else None)
                        v = st.value
                        # keyed by class, not by method: moving the statement into a helper of the same class is the same site
                        key = f"{f.relpath}::{f.cls.name if f.cls is not None else f.qualname}::original_loop_guard::" + ("default" if isinstance(v, ast.Call) and call_name(v) == "TrueCond" else "recovered")
                        if isinstance(v, ast.Call) and call_name(v) == "TrueCond":
                            obs.append(Ob("G2-original-guard", key, f.relpath, st.lineno, f.qualname, True, "default: guard `true`"))
                            continue
                        r = defs.roots(v)
                        ok = "attr:condition" not in r and "attr:loop_guard" in r
                        obs.append(Ob("G2-original-guard", key, f.relpath, st.lineno, f.qualname, ok,
                                      "the guard used for conditioning on termination is taken from the source guard" if ok else
                                      f"`{src(st)[:90]}` recovers the guard from an *assignment condition*: after IfTransformer that condition speaks about the "
                                      "`_old` copies saved at the start of the iteration, so the termination indicator lags one iteration behind"))
    if n < 2:
        raise AnalysisError("G2: stores to original_loop_guard not found")
    return obs


def mut_original_guard(repo: Repo) -> List[Mutant]:
    def tr(tree):
        fn = find_def(tree, "ConstantsTransformer.execute")
        if fn is None:
            return False
        fn.body.insert(0, ast.parse("program.original_loop_guard = program.loop_body[0].condition.copy()").body[0])
        return True
    ov = mutate_module(repo, "program/transformer/constants_transformer.py", tr)
    return [Mutant("guard-from-first-assignment", ov, "fire", "ConstantsTransformer::original_loop_guard", control=True)] if ov else []


# ------------------------------------------------------------------ C09: after-loop arms
def rule_after_loop(repo: Repo) -> List[Ob]:
    obs = []
    n = 0
    for f in repo.functions:
        if not f.relpath.startswith("cli/"):
            continue
        ifs = [x for x in walk_no_nested(f.node) if isinstance(x, (ast.If, ast.IfExp)) and "after_loop" in src(x.test) and "or" not in src(x.test)]
        if not ifs:
            continue
        n += 1
        from ..shape import conjuncts, helper_calls
        c = cfg_of(f.node)
        key = f"{f.relpath}::{f.qualname}::arms"
        wrong, unknown, seen = [], [], {"cond": 0, "limit": 0}
        for call in walk_no_nested(f.node):
            if not isinstance(call, ast.Call):
                continue
            cn = call_name(call) or ""
            kind = "cond" if ("given_termination" in cn or cn == "get_all_cumulants_after_loop") else "limit" if cn == "transform_to_after_loop" else \
                "plain" if re.fullmatch(r"get_(all_)?(moment|moments|cumulants|cumulant)(_poly)?", cn) else None
            if kind is None:
                continue
            node = c.node_of(call)
            if node is None:
                unknown.append(f"`{cn}` not located in the flow graph")
                continue
            after = None
            for t, reach in controlling_tests(c, node):
                if not isinstance(t.ast, ast.expr):
                    continue
                for fact, truth in conjuncts(t.ast, bool(reach)):
                    if isinstance(fact, (ast.Attribute, ast.Name)) and "after_loop" in src(fact):
                        after = truth
            from ..shape import ifexp_facts
            for fact, truth in ifexp_facts(call):        # A(...) if args.after_loop else B(...)
                if isinstance(fact, (ast.Attribute, ast.Name)) and "after_loop" in src(fact):
                    after = truth
            if kind in ("cond", "limit"):
                if after is True:
                    seen[kind] += 1
                elif after is False:
                    wrong.append(f"`{cn}` runs when --after_loop is off")
                else:
                    unknown.append(f"`{cn}` is not controlled by a recognised --after_loop test")
            elif after is True:
                wrong.append(f"the --after_loop arm calls the unconditioned `{cn}`")
        if wrong:
            obs.append(Ob("E-after-loop", key, f.relpath, ifs[0].lineno, f.qualname, False,
                          "; ".join(wrong) + ": conditioning on termination and the limit n->oo must occur exactly in the after_loop arm"))
        elif seen["cond"] and not seen["limit"] and not unknown and not any(call_name(x) in ("transform_to_after_loop", "get_all_cumulants_after_loop") for g in [f] + [hh for hh, _, _ in helper_calls(repo, f)] for x in ast.walk(g.node) if isinstance(x, ast.Call)):
            obs.append(Ob("E-after-loop", key, f.relpath, ifs[0].lineno, f.qualname, False,
                          "the --after_loop arm conditions on termination but the limit n->oo (transform_to_after_loop) is never taken"))
        elif unknown or not (seen["cond"] and (seen["limit"] or any(call_name(x) == "get_all_cumulants_after_loop" for x in ast.walk(f.node) if isinstance(x, ast.Call)))):
            obs.append(inconclusive("E-after-loop", key, f.relpath, ifs[0].lineno, f.qualname, "; ".join(unknown) or "conditioning / limit calls of the after_loop arm not recognised"))
        else:
            obs.append(Ob("E-after-loop", key, f.relpath, ifs[0].lineno, f.qualname, True,
                          "the --after_loop arm conditions on termination and takes the limit; the other arm does neither"))
    # the limit n->oo is taken of the quantity that is reported, after raw moments were combined into cumulants / central moments:
    # limits and combinations do not commute when raw moments diverge (oo - oo)
    for f in repo.functions:
        if not f.relpath.startswith("cli/"):
            continue
        convs = [x for x in walk_no_nested(f.node) if isinstance(x, ast.Call) and (call_name(x) or "") in ("raw_moments_to_cumulants", "raw_moments_to_centrals") and x.args]
        lims = [x for x in walk_no_nested(f.node) if isinstance(x, ast.Call) and call_name(x) == "transform_to_after_loop"]
        if not convs or not lims:
            continue
        fd = Defs(f.node, f.params()[0] if f.params() and f.cls is not None else None)
        n += 1
        keyl = f"{f.relpath}::{f.qualname}::limit-after-combination"
        early = [cv for cv in convs if any(r.startswith("call:") and r.endswith("transform_to_after_loop") for r in fd.roots(cv.args[0]))]
        late = [lm for lm in lims if lm.args and any(r.startswith("call:") and r[5:].split(".")[-1] in ("raw_moments_to_cumulants", "raw_moments_to_centrals") for r in fd.roots(lm.args[0]))]
        if early:
            obs.append(Ob("E-after-loop", keyl, f.relpath, early[0].lineno, f.qualname, False,
                          f"`{src(early[0])[:60]}` combines raw moments whose limit n->oo was already taken: for diverging moments the combination is oo - oo (nan) instead of the limit of the combined quantity"))
        elif late:
            obs.append(Ob("E-after-loop", keyl, f.relpath, late[0].lineno, f.qualname, True, "the limit is taken of the combined quantity (cumulant / central moment), not of the raw moments"))
        else:
            obs.append(inconclusive("E-after-loop", keyl, f.relpath, lims[0].lineno, f.qualname, "order of limit and combination not recognised"))
    # the limit helper is handed a kind of value it dispatches on: it maps over the containers it tests for with isinstance and treats
    # everything else as ONE expression -- a list built by the caller must be among the tested containers
    tl = repo.function("cli/common.py", "transform_to_after_loop")
    handled = set()
    for x in walk_no_nested(tl.node):
        if isinstance(x, ast.Call) and call_name(x) == "isinstance" and len(x.args) == 2:
            for y in ast.walk(x.args[1]):
                if isinstance(y, ast.Name) and y.id in ("dict", "list", "tuple", "set"):
                    handled.add(y.id)
    for f in repo.functions:
        if not f.relpath.startswith("cli/"):
            continue
        fd = None
        for cl in [x for x in walk_no_nested(f.node) if isinstance(x, ast.Call) and call_name(x) == "transform_to_after_loop" and x.args]:
            if fd is None:
                fd = Defs(f.node, f.params()[0] if f.params() and f.cls is not None else None)
            a0 = cl.args[0]
            vals = fd.defs.get(a0.id, []) if isinstance(a0, ast.Name) and a0.id not in fd.params else [a0]
            kinds = set()
            for v in vals:
                if isinstance(v, (ast.List, ast.ListComp)) or (isinstance(v, ast.Call) and call_name(v) in ("list", "sorted")):
                    kinds.add("list")
                elif isinstance(v, (ast.Dict, ast.DictComp)) or (isinstance(v, ast.Call) and call_name(v) == "dict"):
                    kinds.add("dict")
                elif isinstance(v, (ast.Tuple,)):
                    kinds.add("tuple")
                elif isinstance(v, (ast.Set, ast.SetComp)):
                    kinds.add("set")
            missing = sorted(k for k in kinds if k not in handled)
            keyk = f"{f.relpath}::{f.qualname}::limit-argument-kind"
            if missing:
                obs.append(Ob("E-after-loop", keyk, f.relpath, cl.lineno, f.qualname, False,
                              f"`{src(cl)[:60]}` passes a {missing[0]} to transform_to_after_loop, which maps over {sorted(handled) or ['nothing']} only and takes the limit of anything else "
                              "as ONE expression: the goal ends in an AttributeError instead of a result whenever --after_loop is given"))
            elif kinds:
                obs.append(Ob("E-after-loop", keyk, f.relpath, cl.lineno, f.qualname, True, f"the {sorted(kinds)[0]} passed to transform_to_after_loop is one of the containers it maps over"))
    g = repo.function("cli/common.py", "get_all_cumulants_after_loop")
    names = {call_name(c) for c in walk_no_nested(g.node) if isinstance(c, ast.Call)}
    ok = "get_all_moments_given_termination" in names and "transform_to_after_loop" in names
    obs.append(Ob("E-after-loop", "cli/common.py::get_all_cumulants_after_loop::arms", g.relpath, g.node.lineno, g.qualname, ok,
                  "cumulants after the loop come from moments given termination and the limit" if ok else "cumulants after the loop skip the conditioning or the limit"))
    n += 1
    # the conditional moment: one negated-guard indicator for numerator and denominator, numerator / denominator
    h = repo.function("cli/common.py", "get_moment_given_termination")
    defs = Defs(h.node, None)
    nots = [c for c in walk_no_nested(h.node) if isinstance(c, ast.Call) and call_name(c) == "Not"]
    ind_ok = len(nots) == 1 and "original_loop_guard" in src(nots[0]) and isinstance(parent(nots[0]), ast.Attribute) and parent(nots[0]).attr == "to_arithm"
    polys = [c for c in walk_no_nested(h.node) if isinstance(c, ast.Call) and call_name(c) == "get_moment_poly"]
    ratio_ok = False
    detail = ""
    if len(polys) == 2 and ind_ok:
        ind_name = None
        for nm, vals in defs.defs.items():
            if any(isinstance(v, ast.Call) and "to_arithm" in src(v) and "Not(" in src(v) for v in vals):
                ind_name = nm
        arg0 = [p.args[0] for p in polys]
        den = [a for a in arg0 if isinstance(a, ast.Name) and a.id == ind_name]
        num = [a for a in arg0 if isinstance(a, ast.BinOp) and isinstance(a.op, ast.Mult) and any(isinstance(x, ast.Name) and x.id == ind_name for x in (a.left, a.right))
               and any(isinstance(x, ast.Name) and x.id == h.params()[0] for x in (a.left, a.right))]
        divs = [b for b in walk_no_nested(h.node) if isinstance(b, ast.BinOp) and isinstance(b.op, ast.Div)]
        if den and num and len(divs) == 1:
            # which result variable belongs to which call
            def var_of(call):
                st = enclosing_stmt(call)
                if isinstance(st, ast.Assign) and isinstance(st.targets[0], ast.Tuple):
                    return st.targets[0].elts[0].id
                return None
            num_call = next(p for p in polys if p.args[0] is num[0])
            den_call = next(p for p in polys if p.args[0] is den[0])
            d = divs[0]
            ratio_ok = isinstance(d.left, ast.Name) and isinstance(d.right, ast.Name) and d.left.id == var_of(num_call) and d.right.id == var_of(den_call)
            detail = src(d)
    key_r = "cli/common.py::get_moment_given_termination::ratio"
    uses_guard = [c for c in walk_no_nested(h.node) if isinstance(c, ast.Call) and call_name(c) == "to_arithm" and "original_loop_guard" in src(c)]
    if uses_guard and not nots:
        obs.append(Ob("E-after-loop", key_r, h.relpath, uses_guard[0].lineno, h.qualname, False,
                      "the indicator is built from the loop guard itself, not from its negation: the moments are conditioned on the loop still RUNNING"))
    elif ind_ok and ratio_ok:
        obs.append(Ob("E-after-loop", key_r, h.relpath, h.node.lineno, h.qualname, True,
                      "E(M | terminated) = E(M * [not guard]) / E([not guard]) with one indicator built from the original loop guard"))
    elif ind_ok and len(polys) == 2 and detail:
        obs.append(Ob("E-after-loop", key_r, h.relpath, h.node.lineno, h.qualname, False,
                      f"conditional moment `{detail}` is not E(M*[not guard]) / E([not guard]) (numerator and denominator exchanged)"))
    else:
        obs.append(inconclusive("E-after-loop", key_r, h.relpath, h.node.lineno, h.qualname, "indicator / quotient construction not recognised"))
    if n < 6:
        raise AnalysisError(f"E-after-loop: only {n} after-loop sites found")
    return obs


def mut_after_loop(repo: Repo) -> List[Mutant]:
    out = []

    def drop_limit(tree):
        fn = find_def(tree, "GoalsAction.handle_cumulant_goal")
        for n in ast.walk(fn):
            if isinstance(n, ast.If) and "after_loop" in src(n.test) and "transform_to_after_loop" in src(n):
                return replace_node(fn, n, ast.Pass())
        return False
    ov = mutate_module(repo, "cli/actions/goals_action.py", drop_limit)
    if ov:
        out.append(Mutant("cumulant-without-limit", ov, "fire", "handle_cumulant_goal::arms", control=True))

    def uncond(tree):
        fn = find_def(tree, "GoalsAction.handle_tail_bound_lower_goal")
        for n in ast.walk(fn):
            if isinstance(n, ast.Call) and call_name(n) == "get_all_moments_given_termination":
                n.func = ast.Name(id="get_all_moments", ctx=ast.Load())
                return True
        return False
    ov = mutate_module(repo, "cli/actions/goals_action.py", uncond)
    if ov:
        out.append(Mutant("tail-bound-unconditioned", ov, "fire", "handle_tail_bound_lower_goal::arms"))

    def inverted(tree):
        fn = find_def(tree, "get_moment_given_termination")
        for n in ast.walk(fn):
            if isinstance(n, ast.BinOp) and isinstance(n.op, ast.Div):
                n.left, n.right = n.right, n.left
                return True
        return False
    ov = mutate_module(repo, "cli/common.py", inverted)
    if ov:
        out.append(Mutant("ratio-inverted", ov, "fire", "get_moment_given_termination::ratio"))

    def guard_not_negated(tree):
        fn = find_def(tree, "get_moment_given_termination")
        for n in ast.walk(fn):
            if isinstance(n, ast.Call) and call_name(n) == "Not":
                return replace_node(fn, n, n.args[0])
        return False
    ov = mutate_module(repo, "cli/common.py", guard_not_negated)
    if ov:
        out.append(Mutant("guard-not-negated", ov, "fire", "get_moment_given_termination::ratio"))
    return out


# ------------------------------------------------------------------ H: exactness flags
PAIR_CALLEES = {"get_moment", "get_moment_poly", "get_moment_given_termination", "get_all_moments", "get_all_moments_given_termination",
                "get_solution", "handle_moment_goal", "handle_cumulant_goal", "handle_central_moment_goal", "get_all_roots", "numerify_croots"}


def _name_closure(defs: Defs, expr) -> Set[str]:
    seen: Set[str] = set()
    stack = [expr]
    while stack:
        e = stack.pop()
        if e is None or not isinstance(e, ast.AST):
            continue
        if type(e).__name__ in ("_Iter", "_Elem"):
            stack.append(e.expr)
            continue
        for n in ast.walk(e):
            if isinstance(n, ast.Name) and n.id not in seen:
                seen.add(n.id)
                stack.extend(defs.defs.get(n.id, []))
    return seen


def rule_flag_combiners(repo: Repo) -> List[Ob]:
    obs = []
    for f in repo.functions:
        if not f.relpath.startswith(("cli/common.py", "cli/actions/goals_action.py", "cli/actions/sensitivity_action.py", "recurrences/", "utils/expressions.py")):
            continue
        flags: List[Tuple[str, ast.Call]] = []
        for st in walk_no_nested(f.node):
            if isinstance(st, ast.Assign) and isinstance(st.value, ast.Call) and call_name(st.value) in PAIR_CALLEES \
                    and len(st.targets) == 1 and isinstance(st.targets[0], ast.Tuple) and len(st.targets[0].elts) == 2:
                fl = st.targets[0].elts[1]
                if isinstance(fl, ast.Name):
                    flags.append((fl.id, st.value))
        if not flags:
            continue
        defs = Defs(f.node, f.params()[0] if f.params() else None)
        rets = [r.value for r in walk_no_nested(f.node) if isinstance(r, ast.Return) and isinstance(r.value, ast.Tuple) and len(r.value.elts) == 2]
        sinks = [("return", r.elts[1]) for r in rets]
        for c in walk_no_nested(f.node):
            if isinstance(c, ast.Call) and call_name(c) in ("print_is_exact",) and c.args:
                sinks.append(("print_is_exact", c.args[0]))
            if isinstance(c, ast.Call) and call_name(c).startswith("print_") and call_name(c).endswith("_goal"):
                for a in c.args:
                    if isinstance(a, ast.Name) and a.id in {n for n, _ in flags}:
                        sinks.append((call_name(c), a))
        if not sinks:
            if any(n != "_" for n, _ in flags) and f.relpath.startswith("cli/common.py"):
                obs.append(Ob("H2-flags", f"{f.relpath}::{f.qualname}::dropped", f.relpath, f.node.lineno, f.qualname, True,
                              "flags are not forwarded (function returns values only)", trivial=True))
            continue
        names_per_sink = [(_name_closure(defs, e), kind, e) for kind, e in sinks]
        cg = cfg_of(f.node)
        for name, call in flags:
            if name == "_":
                continue
            key = f"{f.relpath}::{f.qualname}::flag::{name}<-{call_name(call)}"
            # a flag must reach every return that can follow the call; without returns, some reporting sink
            reached = [kind for cl, kind, e in names_per_sink if name in cl]
            cn = cg.node_of(call)
            in_loop = any(isinstance(a, (ast.For, ast.While)) for a in ancestors(call))
            ret_names = {e.id for kind, e in sinks if kind == "return" and isinstance(e, ast.Name)}
            if in_loop and name in ret_names:
                # x, flag = f(...) inside a loop with `flag` itself returned: every iteration overwrites the flag of the previous ones
                obs.append(Ob("H2-flags", key, f.relpath, call.lineno, f.qualname, False,
                              f"`{name}` is overwritten by each {call_name(call)}(...) in the loop and returned: only the last sub-result's exactness survives, a rounded earlier one is reported as exact"))
                continue
            if any(kind != "return" for kind in reached):
                ok = True      # the flag is handed to the printer that reports exactness
            elif rets:
                ok = True
                for cl, kind, e in names_per_sink:
                    if kind != "return":
                        continue
                    rn = cg.node_of(e)
                    if cn is not None and rn is not None and not cg.reachable(cn, rn):
                        continue
                    if name not in cl:
                        ok = False
            else:
                ok = bool(reached)
            obs.append(Ob("H2-flags", key, f.relpath, call.lineno, f.qualname, ok,
                          f"exactness flag `{name}` of {call_name(call)}(...) flows into the reported flag" if ok else
                          f"exactness flag `{name}` of {call_name(call)}(...) is dropped: a rounded sub-result would be reported as exact"))
    return obs


def mut_flag_combiners(repo: Repo) -> List[Mutant]:
    out = []

    def drop_and(tree, qn, which):
        fn = find_def(tree, qn)
        if fn is None:
            return False
        for n in ast.walk(fn):
            if isinstance(n, ast.BoolOp) and isinstance(n.op, ast.And) and len(n.values) == 2 and any(isinstance(v, ast.Name) and v.id == which for v in n.values):
                keep = [v for v in n.values if not (isinstance(v, ast.Name) and v.id == which)][0]
                return replace_node(fn, n, keep)
        return False
    cases = [("cli/common.py", "get_moment_poly", "is_exact"), ("cli/common.py", "get_all_moments", "is_exact"),
             ("cli/common.py", "get_moment_given_termination", "is_exact_guard"), ("cli/common.py", "get_all_moments_given_termination", "is_exact")]
    for i, (rp, qn, which) in enumerate(cases):
        ov = mutate_module(repo, rp, lambda t, qn=qn, which=which: drop_and(t, qn, which))
        if ov:
            out.append(Mutant(f"flag-dropped:{qn}", ov, "fire", f"{qn}::flag::{which}", control=(i == 0)))

    def const_true(tree):
        fn = find_def(tree, "GoalsAction.handle_moment_goal")
        for n in ast.walk(fn):
            if isinstance(n, ast.Return) and isinstance(n.value, ast.Tuple):
                n.value.elts[1] = ast.Constant(value=True)
                return True
        return False
    ov = mutate_module(repo, "cli/actions/goals_action.py", const_true)
    if ov:
        out.append(Mutant("goal-always-exact", ov, "fire", "handle_moment_goal::flag"))
    return out


LOSSY_CALLS = {"N", "evalf", "round", "float", "nsimplify"}
H1_SCOPE = ("recurrences/", "utils/expressions.py", "program/assignment/functional_assignment.py", "program/distribution/", "cli/common.py",
            "utils/solvers.py", "utils/matrix.py", "utils/finite_power_reduction.py")
H1_EXEMPT_FUNCS = {"sample": "simulation only", "evaluate": "simulation only", "evaluate_right_side": "simulation only",
                   "mgf_exists_at": "decides existence, returns no value"}


def rule_lossy_sources(repo: Repo) -> List[Ob]:
    """every value-approximating call in the moment pipeline must be reflected in a returned exactness flag"""
    obs = []
    for f in repo.functions:
        if not f.relpath.startswith(H1_SCOPE) or f.name in H1_EXEMPT_FUNCS:
            continue
        sites = []
        for c in walk_no_nested(f.node):
            if isinstance(c, ast.Call) and call_name(c) in LOSSY_CALLS:
                if call_name(c) == "float" and not any(isinstance(a, ast.Call) and call_name(a) in ("Rational", "str") for a in ancestors(c) if isinstance(a, ast.Call)):
                    continue
                if call_name(c) == "round" and not isinstance(c.func, ast.Attribute):
                    continue
                sites.append(c)
            if isinstance(c, ast.Call) and call_name(c) == "intervals":
                sites.append(c)
        if not sites:
            continue
        cg = cfg_of(f.node)
        rets = [r for r in walk_no_nested(f.node) if isinstance(r, ast.Return) and r.value is not None]
        defs = Defs(f.node, f.params()[0] if f.params() else None)
        for s in sites:
            key = f"{f.relpath}::{f.qualname}::lossy::{call_name(s)}"
            ok = False
            computed = False
            last_wins = None
            why = "the function returns a bare value"
            sn = cg.node_of(s)
            for r in rets:
                if isinstance(r.value, ast.Tuple) and len(r.value.elts) == 2:
                    fl = r.value.elts[1]
                    rn = cg.node_of(r)
                    on_path = sn is not None and rn is not None and (cg.reachable(sn, rn) or sn is rn)
                    if not on_path:
                        continue
                    if isinstance(fl, ast.Constant) and fl.value is False:
                        ok = True
                    elif isinstance(fl, ast.Constant):
                        pass
                    else:
                        # some definition of the flag is False, or is computed from the approximated values
                        vals = [fl]
                        if isinstance(fl, ast.Name):
                            vals = []
                            for v, site in zip(defs.defs.get(fl.id, []), defs.def_sites.get(fl.id, [])):
                                dn = cg.node_of(site) if isinstance(site, ast.AST) else None
                                # only definitions that can flow into this return
                                if dn is None or dn is rn or cg.reachable(dn, rn):
                                    vals.append(v)
                                    if isinstance(site, ast.Assign) and isinstance(v, ast.expr) and not isinstance(v, ast.Constant) \
                                            and any(isinstance(a, (ast.For, ast.While)) for a in ancestors(site)) \
                                            and fl.id not in {x.id for x in ast.walk(v) if isinstance(x, ast.Name)}:
                                        last_wins = (site, v)
                        for v in vals:
                            if isinstance(v, ast.Constant) and v.value is False:
                                ok = True
                            elif isinstance(v, ast.expr) and not isinstance(v, ast.Constant):
                                rts = defs.roots(v)
                                if f"call:{dotted(s.func) or call_name(s)}" in rts or any(r.endswith("." + (call_name(s) or "?")) or r == "call:" + (call_name(s) or "?") for r in rts):
                                    ok = True
                                else:
                                    computed = True
                    why = "the returned flag can never become False on the path through the approximation"
            if not ok and f.cls is None and not any(isinstance(r.value, ast.Tuple) and len(r.value.elts) == 2 for r in rets):
                # a module-level helper (possibly a generator) that hands the approximated values to a caller in the same module:
                # the caller is the function that owes the flag
                callers = [g for g in repo.functions if g.module is f.module and g.node is not f.node
                           and any(isinstance(c0, ast.Call) and call_name(c0) == f.name for c0 in walk_no_nested(g.node))]
                def carries_flag(g):
                    gd = Defs(g.node, g.params()[0] if g.params() else None)
                    for r0 in walk_no_nested(g.node):
                        if isinstance(r0, ast.Return) and isinstance(r0.value, ast.Tuple) and len(r0.value.elts) == 2:
                            fl0 = r0.value.elts[1]
                            if isinstance(fl0, ast.Constant):
                                if fl0.value is False:
                                    return True
                                continue
                            rts0 = gd.roots(fl0)
                            if any(x == "call:" + f.name or x.endswith("." + f.name) for x in rts0 if x.startswith("call:")):
                                return True
                    return False
                if callers and all(carries_flag(g) for g in callers):
                    obs.append(Ob("H1-lossy", key, f.relpath, s.lineno, f.qualname, True,
                                  f"`{src(s)[:40]}` is handed to {', '.join(g.name for g in callers)}, which derive(s) the returned exactness flag from it"))
                    continue
            if last_wins is not None:
                obs.append(Ob("H1-lossy", key, f.relpath, last_wins[0].lineno, f.qualname, False,
                              f"the returned flag is overwritten with `{src(last_wins[1])[:40]}` in every loop iteration: only the last item's exactness survives, an earlier approximated one is reported as exact"))
                continue
            if not ok and computed:
                obs.append(inconclusive("H1-lossy", key, f.relpath, s.lineno, f.qualname, f"the returned flag is computed; its dependence on `{src(s)[:40]}` was not recognised"))
                continue
            obs.append(Ob("H1-lossy", key, f.relpath, s.lineno, f.qualname, ok,
                          f"`{src(s)[:40]}` is reflected in the returned exactness flag" if ok else
                          f"`{src(s)[:50]}` approximates a value but {why}: the CLI prints 'Solution is exact' for a rounded result"))
    return obs


def mut_lossy_sources(repo: Repo) -> List[Mutant]:
    out = []

    def numerify_true(tree):
        fn = find_def(tree, "numerify_croots")
        for n in ast.walk(fn):
            if isinstance(n, ast.Return) and isinstance(n.value, ast.Tuple) and isinstance(n.value.elts[1], ast.Constant) and n.value.elts[1].value is False:
                n.value.elts[1] = ast.Constant(value=True)
                return True
        return False
    ov = mutate_module(repo, "utils/expressions.py", numerify_true)
    if ov:
        out.append(Mutant("numerified-roots-flagged-exact", ov, "fire", "numerify_croots::lossy::N", control=True))

    def intervals_exact(tree):
        fn = find_def(tree, "get_all_roots")
        for n in ast.walk(fn):
            if isinstance(n, ast.Assign) and isinstance(n.targets[0], ast.Name) and n.targets[0].id == "exact" and isinstance(n.value, ast.Constant) and n.value.value is False:
                n.value = ast.Constant(value=True)
                return True
        return False
    ov = mutate_module(repo, "utils/expressions.py", intervals_exact)
    if ov:
        out.append(Mutant("interval-midpoints-flagged-exact", ov, "fire", "get_all_roots::lossy::intervals"))
    return out


def rule_solver_flag(repo: Repo) -> List[Ob]:
    """CyclicSolver.is_exact is the flag returned by get_all_roots; RecurrenceSolver and get_solution forward it."""
    obs = []
    R = "H2-solver-flag"
    rp = "recurrences/solver/cyclic_solver.py"
    cyc = repo.cls("CyclicSolver", rp)
    flag_attr = None
    site = None
    for m in cyc.all_methods:
        for st in walk_no_nested(m.node):
            if isinstance(st, ast.Assign) and isinstance(st.value, ast.Call) and call_name(st.value) == "get_all_roots" and isinstance(st.targets[0], ast.Tuple) \
                    and len(st.targets[0].elts) == 2 and is_self_attr(st.targets[0].elts[1], None, m.params()[0]):
                flag_attr = st.targets[0].elts[1].attr
                site = (m, st)
    key = f"{rp}::CyclicSolver::_is_exact"
    if flag_attr is None:
        obs.append(inconclusive(R, key, rp, cyc.node.lineno, "CyclicSolver", "the flag returned with the roots is not stored on the solver in a recognised way"))
    else:
        obs.append(Ob(R, key, rp, site[1].lineno, site[0].qualname, True, f"the solver's exactness flag self.{flag_attr} is the one returned with the roots"))
        # the options reach get_all_roots in the right positions
        call = site[1].value
        g = repo.function("utils/expressions.py", "get_all_roots")
        gp = g.params()
        OPTION_OF_PARAM = {"numeric": "numeric_roots", "numeric_croots": "numeric_croots", "eps": "numeric_eps"}  # parameter -> settings flag
        got = {}
        for i, a_ in enumerate(call.args):
            if i < len(gp):
                got[gp[i]] = a_.attr if is_self_attr(a_) else src(a_)
        for k in call.keywords:
            got[k.arg] = k.value.attr if is_self_attr(k.value) else src(k.value)
        if set(OPTION_OF_PARAM) <= set(gp):
            wrong = {p_: got.get(p_) for p_, fl in OPTION_OF_PARAM.items() if got.get(p_) in OPTION_OF_PARAM.values() and got.get(p_) != fl}
            known = all(got.get(p_) in OPTION_OF_PARAM.values() for p_ in OPTION_OF_PARAM)
            if wrong:
                obs.append(Ob(R, f"{rp}::CyclicSolver::options", rp, call.lineno, site[0].qualname, False, f"root options are crossed: {wrong} (expected {OPTION_OF_PARAM})"))
            elif known:
                obs.append(Ob(R, f"{rp}::CyclicSolver::options", rp, call.lineno, site[0].qualname, True, f"root options reach get_all_roots as {OPTION_OF_PARAM}"))
            else:
                obs.append(inconclusive(R, f"{rp}::CyclicSolver::options", rp, call.lineno, site[0].qualname, f"arguments {got} not recognised as the solver's option fields"))
        init = cyc.methods.get("__init__")
        for flag in OPTION_OF_PARAM.values():
            st = [x for x in walk_no_nested(init.node) if isinstance(x, ast.Assign) and any(is_self_attr(t, flag) for t in x.targets)] if init else []
            k2 = f"{rp}::CyclicSolver.__init__::{flag}"
            if len(st) != 1:
                obs.append(inconclusive(R, k2, rp, init.node.lineno if init else 0, "CyclicSolver.__init__", f"initialisation of self.{flag} not recognised"))
                continue
            v = src(st[0].value)
            other = [f2 for f2 in OPTION_OF_PARAM.values() if f2 != flag and f"settings.{f2}" in v]
            if other:
                obs.append(Ob(R, k2, rp, st[0].lineno, "CyclicSolver.__init__", False, f"self.{flag} defaults to settings.{other[0]}"))
            elif f"settings.{flag}" in v:
                obs.append(Ob(R, k2, rp, st[0].lineno, "CyclicSolver.__init__", True, f"self.{flag} defaults to settings.{flag} when the caller passes None"))
            else:
                obs.append(inconclusive(R, k2, rp, st[0].lineno, "CyclicSolver.__init__", f"default of self.{flag} not recognised"))

    def forwards(fi, describe, accept):
        rets = [r.value for r in walk_no_nested(fi.node) if isinstance(r, ast.Return) and r.value is not None]
        k2 = f"{fi.relpath}::{fi.qualname}"
        if not rets:
            obs.append(inconclusive(R, k2, fi.relpath, fi.node.lineno, fi.qualname, "no return"))
            return
        vals = []
        for r in rets:
            e = r.elts[1] if isinstance(r, ast.Tuple) and len(r.elts) == 2 else r
            vals.append(e)
        if any(isinstance(e, ast.Constant) for e in vals):
            obs.append(Ob(R, k2, fi.relpath, fi.node.lineno, fi.qualname, False, f"{describe} is the constant {src(vals[0])}: rounded results are reported as exact"))
        elif all(accept(e) for e in vals):
            obs.append(Ob(R, k2, fi.relpath, fi.node.lineno, fi.qualname, True, f"{describe} is forwarded unchanged ({src(vals[0])})"))
        else:
            obs.append(inconclusive(R, k2, fi.relpath, fi.node.lineno, fi.qualname, f"{describe} is `{src(vals[0])}`"))
    if flag_attr is not None:
        forwards(repo.function(rp, "CyclicSolver.is_exact"), "the solver's exactness", lambda e: is_self_attr(e, flag_attr))
    forwards(repo.function("recurrences/solver/recurrence_solver.py", "RecurrenceSolver.is_exact"), "the chosen solver's exactness",
             lambda e: isinstance(e, ast.Attribute) and e.attr == "is_exact")
    for rp2, qn in (("recurrences/rec_builder.py", "RecBuilder.get_solution"), ("recurrences/diff_rec_builder.py", "DiffRecBuilder.get_solution")):
        forwards(repo.function(rp2, qn), "the exactness returned with a solution", lambda e: isinstance(e, ast.Attribute) and e.attr == "is_exact")
    return obs


def mut_solver_flag(repo: Repo) -> List[Mutant]:
    out = []

    def always(tree):
        fn = find_def(tree, "CyclicSolver.is_exact")
        for n in ast.walk(fn):
            if isinstance(n, ast.Return):
                n.value = ast.Constant(value=True)
                return True
        return False
    ov = mutate_module(repo, "recurrences/solver/cyclic_solver.py", always)
    if ov:
        out.append(Mutant("cyclic-always-exact", ov, "fire", "CyclicSolver.is_exact", control=True))

    def swapped(tree):
        fn = find_def(tree, "CyclicSolver._compute_general_solution")
        for c in ast.walk(fn):
            if isinstance(c, ast.Call) and call_name(c) == "get_all_roots":
                c.args[1], c.args[2] = c.args[2], c.args[1]
                return True
        return False
    ov = mutate_module(repo, "recurrences/solver/cyclic_solver.py", swapped)
    if ov:
        out.append(Mutant("root-options-swapped", ov, "fire", "CyclicSolver::options"))
    return out


# ------------------------------------------------------------------ D3: Sin/Cos/Exp vocabulary
def rule_vocabulary(repo: Repo) -> List[Ob]:
    obs = []
    gram = repo.text("inputparser/syntax.lark")
    m = re.search(r'^FUNC_NAME(?:\.\d+)?\s*:\s*(.+)$', gram, re.M)
    if not m:
        raise AnalysisError("FUNC_NAME terminal not found")
    vocab = set(re.findall(r'"([^"]+)"', m.group(1)))
    if len(vocab) < 2:
        raise AnalysisError("FUNC_NAME vocabulary not readable")
    allowed = vocab | {"Id"}
    nlit = 0
    for rp in ("program/assignment/functional_assignment.py", "program/assignment/dist_assignment.py"):
        for f in [x for x in repo.functions if x.relpath == rp]:
            for n in walk_no_nested(f.node):
                lits = []
                if isinstance(n, ast.Compare) and len(n.ops) == 1:
                    a, b = n.left, n.comparators[0]
                    if isinstance(n.ops[0], (ast.Eq, ast.NotEq)) and (("func" in src(a) and const_str(b) is not None) or ("func" in src(b) and const_str(a) is not None)):
                        lits.append(const_str(b) if const_str(b) is not None else const_str(a))
                    if isinstance(n.ops[0], (ast.In, ast.NotIn)) and const_str(a) is not None and "func_powers" in src(b):
                        lits.append(const_str(a))
                if isinstance(n, ast.Subscript) and "func_powers" in src(n.value) and const_str(n.slice) is not None:
                    lits.append(const_str(n.slice))
                if isinstance(n, ast.Dict) and isinstance(parent(n), (ast.IfExp, ast.Assign)) and "func_powers" in src(enclosing_stmt(n)):
                    lits += [const_str(k) for k in n.keys if const_str(k) is not None]
                for lit in lits:
                    nlit += 1
                    ok = lit in allowed
                    obs.append(Ob("D3-vocabulary", f"{rp}::{f.qualname}::literal::{lit}", rp, n.lineno, f.qualname, ok,
                                  f"function name {lit!r} is in the grammar's vocabulary" if ok else
                                  f"function name {lit!r} is not in the vocabulary {sorted(allowed)}: the test can never succeed, the branch it guards is dead"))
    if nlit < 10:
        raise AnalysisError(f"D3: only {nlit} function-name literals found")
    # dispatchers on .func handle the whole vocabulary or end in raise
    for qn in ("FunctionalAssignment.evaluate_right_side", "FunctionalAssignment.get_support", "FunctionalAssignment.get_const_moment"):
        f = repo.function("program/assignment/functional_assignment.py", qn)
        handled = set()
        mismapped = []

        def table_keys(e):
            """string keys of a literal tuple/list/set/dict, or of the module- or class-level constant a name refers to"""
            if isinstance(e, (ast.Tuple, ast.List, ast.Set)):
                return {const_str(x) for x in e.elts if const_str(x)}, None
            if isinstance(e, ast.Dict):
                return {const_str(x) for x in e.keys if x is not None and const_str(x)}, e
            name = e.id if isinstance(e, ast.Name) else e.attr if isinstance(e, ast.Attribute) and isinstance(e.value, ast.Name) and e.value.id in ("self", "cls") else None
            if name is None:
                return set(), None
            bodies = [f.module.tree.body] + ([f.cls.node.body] if f.cls is not None else [])
            for body in bodies:
                for st in body:
                    if isinstance(st, (ast.Assign, ast.AnnAssign)) and st.value is not None:
                        tg = st.targets[0] if isinstance(st, ast.Assign) else st.target
                        if isinstance(tg, ast.Name) and tg.id == name and not isinstance(st.value, ast.Name):
                            return table_keys(st.value)
            return set(), None

        for n in walk_no_nested(f.node):
            if isinstance(n, ast.Compare) and len(n.ops) == 1 and isinstance(n.ops[0], ast.Eq):
                # self.func == 'Sin'  /  'Sin' == self.func
                for a_, b_ in ((n.left, n.comparators[0]), (n.comparators[0], n.left)):
                    if "func" in src(a_) and const_str(b_):
                        handled.add(const_str(b_))
            elif isinstance(n, ast.Compare) and "func" in src(n.left) and isinstance(n.ops[0], ast.Eq):
                for cmp in n.comparators:
                    if const_str(cmp):
                        handled.add(const_str(cmp))
            tab = None
            if isinstance(n, ast.Compare) and "func" in src(n.left) and isinstance(n.ops[0], (ast.In, ast.NotIn)):
                tab = n.comparators[0]
            if isinstance(n, ast.Subscript) and "func" in src(n.slice) and isinstance(n.ctx, ast.Load):
                tab = n.value
            if isinstance(n, ast.Call) and call_name(n) == "get" and isinstance(n.func, ast.Attribute) and n.args and "func" in src(n.args[0]):
                tab = n.func.value
            if tab is not None:
                keys, dnode = table_keys(tab)
                handled |= keys
                if dnode is not None:
                    for kx, vx in zip(dnode.keys, dnode.values):
                        kn = const_str(kx) if kx is not None else None
                        vn = vx.id if isinstance(vx, ast.Name) else vx.attr if isinstance(vx, ast.Attribute) else None
                        if kn in vocab and vn and vn.lower() in {w.lower() for w in vocab} and vn.lower() != kn.lower():
                            mismapped.append(f"{kn!r} -> {vn}")
        if mismapped:
            obs.append(Ob("D3-vocabulary", f"program/assignment/functional_assignment.py::{qn}::table", f.relpath, f.node.lineno, qn, False,
                          f"dispatch table maps {', '.join(mismapped)}"))
        if qn.endswith("get_const_moment") and len(f.params()) >= 2:
            # f(c)**k: the order k is an exponent of the function value, never part of its argument (sin(k*c) != sin(c)**k)
            kname = f.params()[1]
            trig_tables = set()
            for st in list(f.module.tree.body) + list(walk_no_nested(f.node)):
                if isinstance(st, ast.Assign) and isinstance(st.value, ast.Dict) and isinstance(st.targets[0], ast.Name):
                    vals = {v.id.lower() for v in st.value.values if isinstance(v, ast.Name)}
                    if vals & {"sin", "cos"}:
                        trig_tables.add(st.targets[0].id)
            inside = []
            for c0 in walk_no_nested(f.node):
                if not isinstance(c0, ast.Call) or not c0.args:
                    continue
                callee = c0.func
                trig = (isinstance(callee, ast.Name) and callee.id.lower() in ("sin", "cos")) or \
                    (isinstance(callee, ast.Subscript) and isinstance(callee.value, ast.Name) and callee.value.id in trig_tables) or \
                    (isinstance(callee, ast.Name) and any(isinstance(v, ast.Subscript) and isinstance(v.value, ast.Name) and v.value.id in trig_tables
                                                          for v in Defs(f.node, f.params()[0]).defs.get(callee.id, []) if isinstance(v, ast.expr)))
                if trig and any(isinstance(x, ast.Name) and x.id == kname for a in c0.args for x in ast.walk(a)):
                    inside.append(c0)
            if inside:
                obs.append(Ob("D3-vocabulary", f"program/assignment/functional_assignment.py::{qn}::power", f.relpath, inside[0].lineno, qn, False,
                              f"`{src(inside[0])[:60]}` puts the order {kname} into the argument of a trigonometric function: sin(k*c) is not sin(c)**k"))
            else:
                pw = [x for x in walk_no_nested(f.node) if isinstance(x, ast.BinOp) and isinstance(x.op, ast.Pow) and isinstance(x.right, ast.Name) and x.right.id == kname]
                if pw:
                    obs.append(Ob("D3-vocabulary", f"program/assignment/functional_assignment.py::{qn}::power", f.relpath, pw[0].lineno, qn, True,
                                  f"the k-th moment of f(c) is f(c)**{kname}"))
        c = cfg_of(f.node)
        falls = [p for p in c.preds(c.exit) if not (p.kind == "stmt" and isinstance(p.ast, ast.Return))]
        ok = vocab <= handled and not falls
        if not handled and not falls:
            obs.append(inconclusive("D3-vocabulary", f"program/assignment/functional_assignment.py::{qn}::dispatch", f.relpath, f.node.lineno, qn,
                                    "dispatch on the function name not recognised"))
            continue
        obs.append(Ob("D3-vocabulary", f"program/assignment/functional_assignment.py::{qn}::dispatch", f.relpath, f.node.lineno, qn, ok,
                      f"handles {sorted(handled)} and raises for anything else" if ok else
                      f"handles {sorted(handled)} of {sorted(vocab)}" + ("; can fall through without raising" if falls else "")))
    # joint-moment dispatcher: trig / exp classification uses the vocabulary and refuses mixing
    f = repo.function("program/assignment/functional_assignment.py", "FunctionalAssignment.get_func_moment")
    c = cfg_of(f.node)
    defs = Defs(f.node, f.params()[0])
    guards = [t for t, _ in c.raise_guards()]
    mix = None
    for t in guards:
        names = {n.id for n in ast.walk(t.ast) if isinstance(n, ast.Name)}
        lits_by_name = {}
        for nm in names:
            ls = set()
            for v in defs.defs.get(nm, []):
                ls |= {const_str(x) for x in ast.walk(v) if const_str(x) is not None}
            lits_by_name[nm] = ls
        inline = {const_str(x) for x in ast.walk(t.ast) if const_str(x) is not None}
        all_l = set().union(*lits_by_name.values()) | inline if lits_by_name or inline else set()
        if {"Sin", "Cos"} & all_l:
            mix = (t, all_l)
    def conjunctive(t, raise_on) -> Optional[bool]:
        """does the test lead to `raise` exactly when ALL its leaf conditions hold?  (truth table over the leaves; spelling-independent)"""
        leaves = []

        def ev(e, env):
            if isinstance(e, ast.UnaryOp) and isinstance(e.op, ast.Not):
                return not ev(e.operand, env)
            if isinstance(e, ast.BoolOp):
                vals = [ev(v, env) for v in e.values]
                return all(vals) if isinstance(e.op, ast.And) else any(vals)
            k = src(e)
            if k not in leaves:
                leaves.append(k)
            return env.get(k, False)
        ev(t, {})
        if not (2 <= len(leaves) <= 4):
            return None
        import itertools
        raising = [vals for vals in itertools.product([False, True], repeat=len(leaves)) if ev(t, dict(zip(leaves, vals))) == raise_on]
        return raising == [tuple([True] * len(leaves))]
    raise_on = next((r for t0, r in c.raise_guards() if mix is not None and t0 is mix[0]), True)
    # raise_guards reports the outcome that does NOT raise or the one that does, depending on the helper: accept either polarity that is conjunctive
    conj = None if mix is None else (conjunctive(mix[0].ast, True) or conjunctive(mix[0].ast, False))
    ok = mix is not None and {"Sin", "Cos", "Exp"} <= mix[1] and bool(conj)
    obs.append(Ob("D3-vocabulary", "program/assignment/functional_assignment.py::FunctionalAssignment.get_func_moment::mixing-guard", f.relpath,
                  mix[0].lineno if mix else f.node.lineno, f.qualname, ok,
                  "a product of trigonometric and exponential factors of one draw is refused" if ok else
                  f"the guard against mixing trigonometric and exponential factors tests {sorted(mix[1]) if mix else 'nothing'}: "
                  "E(Sin(x)*Exp(x)) is answered by the trigonometric formula alone"))
    # every dispatch target returns through the class's classmethods for the right key
    return obs


def mut_vocabulary(repo: Repo) -> List[Mutant]:
    out = []

    def typo(tree):
        fn = find_def(tree, "FunctionalAssignment.get_support")
        for n in ast.walk(fn):
            if isinstance(n, ast.Constant) and n.value == "Cos":
                n.value = "cos"
                return True
        return False
    ov = mutate_module(repo, "program/assignment/functional_assignment.py", typo)
    if ov:
        out.append(Mutant("lowercase-cos", ov, "fire", "literal::cos", control=True))

    def drop_exp(tree):
        fn = find_def(tree, "FunctionalAssignment.evaluate_right_side")
        for n in ast.walk(fn):
            if isinstance(n, ast.If) and "'Exp'" in src(n.test):
                return replace_node(fn, n, ast.Pass())
        return False
    ov = mutate_module(repo, "program/assignment/functional_assignment.py", drop_exp)
    if ov:
        out.append(Mutant("simulator-forgets-exp", ov, "fire", "evaluate_right_side::dispatch"))
    return out


# ------------------------------------------------------------------ C12: simulator shape
def rule_simulator(repo: Repo) -> List[Ob]:
    obs = []
    rp = "simulation/simulator.py"
    sim = repo.cls("Simulator", rp)
    # the generic function is the method decorated with singledispatchmethod; its overloads are the methods decorated `<generic>.register`
    # (whatever they are called: `_` or a descriptive name), dispatched on the annotation of the first argument or on register(<type>)
    generic = next((m for m in sim.all_methods if any("singledispatch" in src(d) for d in m.node.decorator_list)), None) or sim.methods.get("execute")
    gname = generic.name if generic is not None else "execute"
    kinds = {}
    default = generic
    for m in sim.all_methods:
        regs = [d for d in m.node.decorator_list if src(d).startswith(gname + ".register")]
        if not regs or m is generic:
            continue
        a = m.node.args.args[1].annotation if len(m.node.args.args) > 1 else None
        if a is None and isinstance(regs[0], ast.Call) and regs[0].args:
            a = regs[0].args[0]
        kinds[src(a) if a is not None else "?"] = m
    ok = default is not None and any(isinstance(n, ast.Raise) for n in walk_no_nested(default.node)) and {"list", "IfStatem", "Assignment"} <= set(kinds)
    obs.append(Ob("S-simulator", f"{rp}::Simulator.execute::dispatch", rp, default.node.lineno if default else 0, "Simulator.execute", ok,
                  "dispatch covers list, IfStatem and Assignment and raises for anything else" if ok else f"dispatch covers {sorted(kinds)}; default raises: {default is not None}"))
    # list handler: in order, threading the state
    m = kinds.get("list")
    ok = False
    if m is not None:
        loops = [n for n in walk_no_nested(m.node) if isinstance(n, ast.For)]
        ok = len(loops) == 1 and isinstance(loops[0].iter, ast.Name) and loops[0].iter.id == m.params()[1] and "reversed" not in src(loops[0])
    if m is not None and not ok and "reversed" not in src(m.node) and "[::-1]" not in src(m.node):
        obs.append(inconclusive("S-simulator", f"{rp}::Simulator._[list]::order", rp, m.node.lineno, "Simulator._[list]", "iteration over the statement list not recognised"))
    else:
        obs.append(Ob("S-simulator", f"{rp}::Simulator._[list]::order", rp, m.node.lineno if m else 0, "Simulator._[list]", ok,
                      "statements are executed in source order" if ok else "statement list is not executed in plain source order"))
    # if handler: first true condition wins, condition k selects branch k, else only if none held  (decided on the CFG)
    m = kinds.get("IfStatem")
    ok = False
    msg = "IfStatem handler not found"
    if m is not None:
        el = m.params()[1]
        c = cfg_of(m.node)
        d = Defs(m.node, m.params()[0])

        def derives(e, attr):
            return ("attr:" + attr) in d.roots(e) and ("param:" + el) in d.roots(e)
        tests = [n for n in c.nodes if n.kind == "test" and any(isinstance(x, ast.Call) and call_name(x) == "evaluate" and derives(x.func.value, "conditions") for x in ast.walk(n.ast))]
        execs = [n for n in c.nodes if n.ast is not None and n.kind == "stmt" and any(isinstance(x, ast.Call) and call_name(x) == "execute" and x.args and derives(x.args[0], "branches") for x in ast.walk(n.ast))]
        elses = [n for n in c.nodes if n.ast is not None and n.kind == "stmt" and any(isinstance(x, ast.Call) and call_name(x) == "execute" and x.args and "else_branch" in src(x.args[0]) for x in ast.walk(n.ast))]
        problems = []
        # first-match written as a search:  k = next((i for i, c in enumerate(conditions) if c.evaluate(state)), None); if k is not None: run branches[k]
        searched = None
        for st_ in walk_no_nested(m.node):
            if isinstance(st_, ast.Assign) and len(st_.targets) == 1 and isinstance(st_.targets[0], ast.Name) and isinstance(st_.value, ast.Call) and call_name(st_.value) == "next" \
                    and st_.value.args and isinstance(st_.value.args[0], ast.GeneratorExp) and len(st_.value.args[0].generators) == 1:
                ge = st_.value.args[0]
                g0 = ge.generators[0]
                if isinstance(g0.iter, ast.Call) and call_name(g0.iter) == "enumerate" and g0.iter.args and derives(g0.iter.args[0], "conditions") and isinstance(g0.target, ast.Tuple) \
                        and len(g0.target.elts) == 2 and all(isinstance(x, ast.Name) for x in g0.target.elts) and isinstance(ge.elt, ast.Name) and ge.elt.id == g0.target.elts[0].id \
                        and len(g0.ifs) == 1 and isinstance(g0.ifs[0], ast.Call) and call_name(g0.ifs[0]) == "evaluate" and isinstance(g0.ifs[0].func.value, ast.Name) \
                        and g0.ifs[0].func.value.id == g0.target.elts[1].id and len(st_.value.args) == 2 and isinstance(st_.value.args[1], ast.Constant) and st_.value.args[1].value is None:
                    searched = st_.targets[0].id
        if searched is not None and not tests:
            from ..shape import conjuncts as _cj
            good = bool(execs) and bool(elses)
            for b in execs:
                call = [x for x in ast.walk(b.ast) if isinstance(x, ast.Call) and call_name(x) == "execute"][0]
                idx_ok = isinstance(call.args[0], ast.Subscript) and isinstance(call.args[0].slice, ast.Name) and call.args[0].slice.id == searched
                facts = [(src(f_), tr_) for t, reach in controlling_tests(c, b) if isinstance(t.ast, ast.expr) and isinstance(reach, bool) for f_, tr_ in _cj(t.ast, reach)]
                found_ = (f"{searched} is not None", True) in facts or (f"{searched} is None", False) in facts
                good = good and idx_ok and found_ and not any(c.reachable(b, e) for e in elses)
            for e in elses:
                facts = [(src(f_), tr_) for t, reach in controlling_tests(c, e) if isinstance(t.ast, ast.expr) and isinstance(reach, bool) for f_, tr_ in _cj(t.ast, reach)]
                good = good and ((f"{searched} is not None", False) in facts or (f"{searched} is None", True) in facts or
                                 all(not c.reachable(b, e) and any(isinstance(b.ast, ast.Return) for _ in [0]) for b in execs))
            if good:
                obs.append(Ob("S-simulator", f"{rp}::Simulator._[IfStatem]::first-match", rp, m.node.lineno, "Simulator._[IfStatem]", True,
                              "the index of the first true condition is searched for, the branch at that index runs, the else branch only if none held"))
            else:
                obs.append(inconclusive("S-simulator", f"{rp}::Simulator._[IfStatem]::first-match", rp, m.node.lineno, "Simulator._[IfStatem]", "first-match search recognised, its use not"))
            m = None
    if m is not None:
        if not tests and any(isinstance(x, ast.Call) and call_name(x) == "evaluate" for x in walk_no_nested(m.node)):
            obs.append(inconclusive("S-simulator", f"{rp}::Simulator._[IfStatem]::first-match", rp, m.node.lineno, "Simulator._[IfStatem]", "conditions are evaluated in a way that is not recognised"))
            m = None
    if m is not None:
        if not tests or not execs:
            problems.append("no condition test / branch execution found")

        def held(t):
            """the outcome label of test node t on which the evaluated condition HELD (`if not cond.evaluate(s): continue` tests the negation)"""
            e, pos = t.ast, True
            while isinstance(e, ast.UnaryOp) and isinstance(e.op, ast.Not):
                e, pos = e.operand, not pos
            return pos
        for b in execs:
            # the branch runs only if its condition held
            ct = [t for t in tests if c.dominates(t, b) and any(x is b or c.reachable(x, b, avoid={t}) for x, lab in c.succ[t] if lab is held(t))
                  and not any(x is b or c.reachable(x, b, avoid={t}) for x, lab in c.succ[t] if lab is (not held(t)))]
            if not ct:
                problems.append("a branch can run although its condition was not tested true")
            # after a branch ran no further condition is tested and the else branch cannot run
            if any(c.reachable(b, t) for t in tests):
                problems.append("after a branch ran, later conditions are still tested (all true branches run, not the first)")
            if any(c.reachable(b, e) for e in elses):
                problems.append("the else branch can run after a branch ran")
        for e in elses:
            for t in tests:
                for x, lab in c.succ[t]:
                    if lab is held(t) and (x is e or c.reachable(x, e, avoid={t})) and not any(x is b or c.reachable(x, b, avoid={t}) for b in execs):
                        problems.append("the else branch is reachable from a true condition")
        if not elses:
            problems.append("else branch is never executed")
        # pairing of condition k with branch k
        pair_ok = False
        for b in execs:
            call = [x for x in ast.walk(b.ast) if isinstance(x, ast.Call) and call_name(x) == "execute"][0]
            barg = call.args[0]
            for t in tests:
                ev = [x for x in ast.walk(t.ast) if isinstance(x, ast.Call) and call_name(x) == "evaluate"][0]
                carg = ev.func.value
                if isinstance(barg, ast.Subscript) and isinstance(carg, ast.Subscript) and src(barg.slice) == src(carg.slice):
                    pair_ok = True
                # element of enumerate(conditions) with index i  <->  branches[i]  (or the other way round)
                for loop in [n for n in walk_no_nested(m.node) if isinstance(n, ast.For)]:
                    if isinstance(loop.iter, ast.Call) and call_name(loop.iter) == "enumerate" and isinstance(loop.target, ast.Tuple) and len(loop.target.elts) == 2 \
                            and all(isinstance(x, ast.Name) for x in loop.target.elts) and len(loop.iter.args) == 1:
                        iv, ev_ = loop.target.elts[0].id, loop.target.elts[1].id
                        over = src(loop.iter.args[0])
                        if isinstance(carg, ast.Name) and carg.id == ev_ and over.endswith("conditions") and isinstance(barg, ast.Subscript) and src(barg.slice) == iv:
                            pair_ok = True
                        if isinstance(barg, ast.Name) and barg.id == ev_ and over.endswith("branches") and isinstance(carg, ast.Subscript) and src(carg.slice) == iv:
                            pair_ok = True
                if isinstance(barg, ast.Name) and isinstance(carg, ast.Name):
                    for loop in [n for n in walk_no_nested(m.node) if isinstance(n, ast.For)]:
                        if isinstance(loop.iter, ast.Call) and call_name(loop.iter) == "zip" and isinstance(loop.target, ast.Tuple) and len(loop.target.elts) == 2 and len(loop.iter.args) == 2:
                            tn = [x.id for x in loop.target.elts if isinstance(x, ast.Name)]
                            zs = [src(a) for a in loop.iter.args]
                            if len(tn) == 2 and ((tn[0] == carg.id and tn[1] == barg.id and zs[0].endswith("conditions") and zs[1].endswith("branches")) or
                                                 (tn[1] == carg.id and tn[0] == barg.id and zs[1].endswith("conditions") and zs[0].endswith("branches"))):
                                pair_ok = True
        if not pair_ok:
            problems.append("condition k is not paired with branch k")
        ok = not problems
        msg = "conditions are tested in order; the first true one runs the branch at the same position and nothing else; else runs only if none held" if ok else "; ".join(sorted(set(problems)))
    if not any(o.key.endswith("Simulator._[IfStatem]::first-match") for o in obs):
        obs.append(Ob("S-simulator", f"{rp}::Simulator._[IfStatem]::first-match", rp, m.node.lineno if m else 0, "Simulator._[IfStatem]", ok, msg))
    # guard: the body runs only if the guard holds in the current state (searched in all methods of the class)
    body_calls = []
    for mm in sim.all_methods:
        for x in walk_no_nested(mm.node):
            if isinstance(x, ast.Call) and call_name(x) == "execute" and x.args and src(x.args[0]).endswith(".loop_body"):
                body_calls.append((mm, x))
    key = f"{rp}::Simulator.simulate::guard"
    if not body_calls:
        obs.append(inconclusive("S-simulator", key, rp, sim.node.lineno, "Simulator", "no `execute(<program>.loop_body, ...)` call found in the simulator"))
    else:
        verdicts = []
        for mm, call in body_calls:
            cg = cfg_of(mm.node)
            tests = [(t, reach) for t, reach in controlling_tests(cg, node_for(cg, call)) if isinstance(t.ast, ast.expr) and isinstance(reach, bool)]
            atoms: List[str] = []

            def evb(e, env):
                if isinstance(e, ast.UnaryOp) and isinstance(e.op, ast.Not):
                    return not evb(e.operand, env)
                if isinstance(e, ast.BoolOp):
                    vals = [evb(v, env) for v in e.values]
                    return all(vals) if isinstance(e.op, ast.And) else any(vals)
                k_ = "G" if (isinstance(e, ast.Call) and call_name(e) == "evaluate" and "loop_guard" in src(e.func)) else "U:" + src(e)
                if k_ not in atoms:
                    atoms.append(k_)
                return env.get(k_, False)

            def runs(env):
                return all(evb(t.ast, env) == reach for t, reach in tests)
            runs({})
            for _ in range(2):
                for bits in range(2 ** len(atoms)):
                    runs({a_: bool(bits >> i_ & 1) for i_, a_ in enumerate(atoms)})
            if "G" not in atoms:
                verdicts.append((False, call, mm, "the loop body is executed without testing the loop guard on the current state: the state does not freeze when the guard is false"))
            elif len(atoms) > 6:
                verdicts.append((True, call, mm, "guard test too large to tabulate"))
            else:
                envs = [{a_: bool(bits >> i_ & 1) for i_, a_ in enumerate(atoms)} for bits in range(2 ** len(atoms))]
                wrong = [e_ for e_ in envs if not e_["G"] and runs(e_)]
                verdicts.append((not wrong, call, mm, "the body runs only when the guard holds in the current state; otherwise the previous state is kept" if not wrong else
                                 "the loop body runs when the guard is FALSE"))
            # what decides whether the body runs must not be carried over from the previous run: a local that is written inside the per-sample
            # loop and read there before it is written again (on some path) still holds the value of the previous sample
            if True:
                sample_heads = [n_ for n_ in cg.nodes if n_.kind == "test" and n_.label == "for" and "samples" in src(n_.ast)]
                if sample_heads:
                    h_ = sample_heads[0]
                    deciding = {x.id for t, _ in tests for x in ast.walk(t.ast) if isinstance(x, ast.Name)} | {x.id for a_ in call.args for x in ast.walk(a_) if isinstance(x, ast.Name)}
                    inside = {n_ for n_ in cg.nodes if n_ is not h_ and any(b_ is n_ or cg.reachable(b_, n_, avoid={h_}) for b_, lab in cg.succ[h_] if lab is True)}

                    def stores(n_, v):
                        return n_.ast is not None and any(isinstance(x, ast.Name) and x.id == v and isinstance(x.ctx, ast.Store) for x in ast.walk(n_.ast) if not isinstance(n_.ast, (ast.For, ast.While)) or True)

                    def loads(n_, v):
                        return n_.ast is not None and any(isinstance(x, ast.Name) and x.id == v and isinstance(x.ctx, ast.Load) for x in ast.walk(n_.ast))
                    for v in sorted(deciding):
                        st_in = [n_ for n_ in inside if stores(n_, v) and not (n_.kind == "test" and n_.label == "for")]
                        if not st_in:
                            continue
                        pure_stores = {n_ for n_ in st_in if not loads(n_, v)}
                        entries = [b_ for b_, lab in cg.succ[h_] if lab is True]
                        stale = [n_ for n_ in inside if loads(n_, v) and any(b_ is n_ or cg.reachable(b_, n_, avoid=pure_stores | {h_}) for b_ in entries if b_ not in pure_stores)]
                        if stale:
                            verdicts.append((False, call, mm, f"`{v}` decides whether / on what the loop body runs, is written inside the per-sample loop and is read there before it is "
                                             f"written again (line {stale[0].lineno}): the value of the previous run is used, runs are not independent"))
        bad = [v for v in verdicts if not v[0]]
        okv, call, mm, msg = (bad or verdicts)[0]
        obs.append(Ob("S-simulator", key, rp, call.lineno, mm.qualname, okv, msg))
    # every run starts with the initial block on an empty state
    f = repo.function(rp, "Simulator.simulate")
    key = f"{rp}::Simulator.simulate::initial"
    from ..shape import expanded as _expanded
    fsim = _expanded(repo, f)          # the per-sample loop may have been moved into a helper of the simulator

    def runs_initial(fn_node, selfn):
        """nodes of fn that execute the initial block (directly, or through a helper that always does)"""
        out = []
        cgx = cfg_of(fn_node)
        for n in cgx.nodes:
            if n.ast is None:
                continue
            for x in ast.walk(n.ast):
                if isinstance(x, ast.Call) and call_name(x) == "execute" and x.args and src(x.args[0]).endswith(".initial"):
                    out.append(n)
                elif isinstance(x, ast.Call) and isinstance(x.func, ast.Attribute) and isinstance(x.func.value, ast.Name) and x.func.value.id == selfn:
                    h = sim.find_method(x.func.attr)
                    if h is not None and h.node is not fn_node and h.name != "execute":
                        hc = cfg_of(h.node)
                        hn = [y for y in hc.nodes if y.ast is not None and any(isinstance(z, ast.Call) and call_name(z) == "execute" and z.args and src(z.args[0]).endswith(".initial") for z in ast.walk(y.ast))]
                        if hn and all(hc.postdominates(y, hc.entry) or hc.dominates(y, hc.exit) for y in hn[:1]):
                            out.append(n)
        return out
    cgf = cfg_of(fsim)
    sample_loops = [n for n in cgf.nodes if n.kind == "test" and n.label == "for" and "samples" in src(n.ast)]
    init_nodes = runs_initial(fsim, f.params()[0])
    if not sample_loops or not init_nodes:
        any_init = any(isinstance(x, ast.Call) and call_name(x) == "execute" and x.args and src(x.args[0]).endswith(".initial") for mm in sim.all_methods for x in walk_no_nested(mm.node))
        if not any_init:
            obs.append(Ob("S-simulator", key, rp, f.node.lineno, f.qualname, False, "the initial block is never executed by the simulator"))
        else:
            obs.append(inconclusive("S-simulator", key, rp, f.node.lineno, f.qualname, "per-sample loop or the execution of the initial block not recognised"))
    else:
        h = sample_loops[0]
        body_entries = [b for b, lab in cgf.succ[h] if lab is True]
        skip = any(b not in init_nodes and cgf.reachable(b, h, avoid=set(init_nodes)) for b in body_entries)
        obs.append(Ob("S-simulator", key, rp, h.lineno, f.qualname, not skip,
                      "every sample run executes the initial block afresh" if not skip else
                      "some path through the per-sample loop skips the execution of the initial block: runs share one initial state, random initial assignments are drawn once for all runs"))
    # Assignment.evaluate: rhs iff the condition holds, else the default variable's value
    g = repo.function("program/assignment/assignment.py", "Assignment.evaluate")
    acls = repo.cls("Assignment", "program/assignment/assignment.py")
    key = "program/assignment/assignment.py::Assignment.evaluate::guarded"
    cg = cfg_of(g.node)
    selfn = g.params()[0]
    rhs = [n for n in cg.nodes if n.ast is not None and any(isinstance(x, ast.Call) and call_name(x) == "evaluate_right_side" for x in ast.walk(n.ast))]
    if not rhs:
        obs.append(inconclusive("S-simulator", key, g.relpath, g.node.lineno, g.qualname, "call of evaluate_right_side not found"))
    else:
        tests = controlling_tests(cg, rhs[0])
        ct = [(t, reach) for t, reach in tests if "condition" in src(t.ast) and "evaluate" in src(t.ast)]
        if not ct:
            obs.append(Ob("S-simulator", key, g.relpath, rhs[0].lineno, g.qualname, False, "the right side is evaluated without testing the assignment's condition"))
        else:
            t, reach = ct[0]
            negated = isinstance(t.ast, ast.UnaryOp) and isinstance(t.ast.op, ast.Not)
            ok = (reach is True and not negated) or (reach is False and negated)
            # the other outcome uses the default variable's value
            other = [b for b, lab in cg.succ[t] if lab is (not reach)]

            def reads_default(node):
                for y in cg._reach(node, cg.succs):
                    if y.ast is None or y in rhs:
                        continue
                    for x in ast.walk(y.ast):
                        if is_self_attr(x, "default", selfn):
                            return True
                        if isinstance(x, ast.Call) and isinstance(x.func, ast.Attribute) and isinstance(x.func.value, ast.Name) and x.func.value.id == selfn:
                            hh = acls.find_method(x.func.attr)
                            if hh is not None and any(is_self_attr(z, "default", hh.params()[0]) for z in ast.walk(hh.node)):
                                return True
                return False
            dflt = any(reads_default(b) for b in other) if other else False
            obs.append(Ob("S-simulator", key, g.relpath, t.lineno, g.qualname, ok and dflt,
                          "x = rhs | cond : default  --  rhs if the condition holds in the current state, else the default variable's value" if ok and dflt else
                          ("the right side is used when the condition is FALSE" if not ok else "when the condition is false the default variable's value is not used")))
    return obs


def mut_simulator(repo: Repo) -> List[Mutant]:
    out = []
    rp = "simulation/simulator.py"

    def no_freeze(tree):
        fn = find_def(tree, "Simulator.simulate")
        for n in ast.walk(fn):
            if isinstance(n, ast.If) and "loop_guard" in src(n.test):
                n.body = n.orelse
                return True
        return False
    ov = mutate_module(repo, rp, no_freeze)
    if ov:
        out.append(Mutant("guard-ignored", ov, "fire", "Simulator.simulate::guard", control=True))

    def all_true(tree):
        for fn in find_defs(tree, "Simulator._"):
            if "IfStatem" in src(fn.args):
                for n in ast.walk(fn):
                    if isinstance(n, ast.Return) and "branches" in src(n):
                        new = ast.parse("state = self.execute(program_element.branches[i], state)").body[0]
                        return replace_node(fn, n, new)
        return False
    ov = mutate_module(repo, rp, all_true)
    if ov:
        out.append(Mutant("all-true-branches-run", ov, "fire", "first-match"))

    def shifted(tree):
        for fn in find_defs(tree, "Simulator._"):
            if "IfStatem" in src(fn.args):
                for n in ast.walk(fn):
                    if isinstance(n, ast.Subscript) and src(n.value).endswith("branches"):
                        n.slice = ast.parse("i - 1").body[0].value
                        return True
        return False
    ov = mutate_module(repo, rp, shifted)
    if ov:
        out.append(Mutant("branch-index-shifted", ov, "fire", "first-match"))

    def default_when_true(tree):
        fn = find_def(tree, "Assignment.evaluate")
        for n in ast.walk(fn):
            if isinstance(n, ast.If) and "condition.evaluate" in src(n.test):
                n.test = ast.UnaryOp(op=ast.Not(), operand=n.test)
                return True
        return False
    ov = mutate_module(repo, "program/assignment/assignment.py", default_when_true)
    if ov:
        out.append(Mutant("guarded-assignment-inverted", ov, "fire", "Assignment.evaluate::guarded"))
    return out


# ------------------------------------------------------------------ C19 / C17: parser helpers
def rule_parser_helpers(repo: Repo) -> List[Ob]:
    obs = []
    rp = "inputparser/structure_transformer.py"
    st = repo.cls("StructureTransformer", rp)
    # --- probability vectors of probabilistic choices are validated before the assignment is built
    cat = None
    for m in st.all_methods:
        if any(isinstance(c, ast.Call) and call_name(c) == "PolyAssignment" and len(c.args) == 3 for c in walk_no_nested(m.node)):
            cat = m
    if cat is None:
        raise AnalysisError("construction of the probabilistic PolyAssignment not found")
    c = cfg_of(cat.node)
    defs = Defs(cat.node, cat.params()[0])
    sinks = [x for x in walk_no_nested(cat.node) if isinstance(x, ast.Call) and ((call_name(x) == "PolyAssignment" and len(x.args) == 3) or call_name(x) == "_transform_categorical")]
    for i, sk in enumerate(sinks):
        prob_arg = sk.args[2]
        pname = prob_arg.id if isinstance(prob_arg, ast.Name) else None
        ok, how = _validated(repo, st, cat, c, defs, sk, pname)
        obs.append(Ob("E-probabilities", f"{rp}::{cat.qualname}::validated::{call_name(sk)}", rp, sk.lineno, cat.qualname, ok,
                      f"constant probability vectors are checked ({how}) before {call_name(sk)}(...)" if ok else
                      f"`{src(sk)[:60]}` is built without validating the probabilities: `x = 1 {{3/2}} 2` or a negative probability is accepted and analysed"))
    # --- the validator looks at every probability, for both defects (negative entry, total above 1)
    vf, vparam = _find_validator(repo, st, cat, pname)
    if vf is not None:
        vc = cfg_of(vf.node)
        vd = Defs(vf.node, vf.params()[0] if vf.params() else None)
        guards = [t for t, _ in vc.raise_guards() if ("param:" + vparam) in vd.roots(t.ast)]
        # raising tests in helpers of the validator that are handed the probabilities (a generator that raises on the first negative entry, ...)
        from ..shape import helper_calls as _hc
        for hf, binding, _call in _hc(repo, vf, depth=2):
            passed = [p_ for p_, a_ in binding.items() if ("param:" + vparam) in vd.roots(a_)]
            if not passed:
                continue
            hd = Defs(hf.node, None)
            hcfg = cfg_of(hf.node)
            guards += [t for t, _ in hcfg.raise_guards() if any(("param:" + p_) in hd.roots(t.ast) for p_ in passed)]

        def cmp_const(t, k):
            for n in ast.walk(t.ast):
                if isinstance(n, ast.Compare) and len(n.ops) == 1 and isinstance(n.ops[0], (ast.Lt, ast.Gt, ast.LtE, ast.GtE)):
                    for side in (n.left, n.comparators[0]):
                        if isinstance(side, ast.Constant) and side.value == k and not isinstance(side.value, bool):
                            return True
            return False
        neg = any(cmp_const(t, 0) for t in guards)
        tot = any(cmp_const(t, 1) for t in guards)
        early = []
        for loop in [n for n in walk_no_nested(vf.node) if isinstance(n, ast.For) and ("param:" + vparam) in vd.roots(n.iter)]:
            for n in ast.walk(loop):
                if isinstance(n, (ast.Return, ast.Break)):
                    early.append(n)
        obs.append(Ob("E-probabilities", f"{rp}::{vf.qualname}::negative", rp, vf.node.lineno, vf.qualname, neg,
                      "a raising test compares the (constant) probabilities with 0" if neg else "no raising test rejects negative probabilities"))
        obs.append(Ob("E-probabilities", f"{rp}::{vf.qualname}::total", rp, vf.node.lineno, vf.qualname, tot,
                      "a raising test compares the accumulated total with 1" if tot else "no raising test rejects totals above 1"))
        obs.append(Ob("E-probabilities", f"{rp}::{vf.qualname}::exhaustive", rp, early[0].lineno if early else vf.node.lineno, vf.qualname, not early,
                      "the validation loop visits every probability (no early exit other than raise)" if not early else
                      f"the validation loop is left early by `{src(early[0])}`: the entries after the first such element, and the total, are never checked"))
    # --- implicit last probability = 1 - sum(others)
    lasts = [n for n in walk_no_nested(cat.node) if isinstance(n, ast.Call) and call_name(n) == "append" and isinstance(n.func.value, ast.Name) and n.func.value.id == (pname or "probabilities")]
    ok = bool(lasts)
    controlled = False
    if lasts:
        tests = controlling_tests(c, node_for(c, lasts[0]))
        controlled = any("len(" in src(t.ast) and "<" in src(t.ast) for t, r in tests)
    if ok and controlled:
        obs.append(Ob("E-probabilities", f"{rp}::{cat.qualname}::implicit-last", rp, lasts[0].lineno, cat.qualname, True,
                      "the remainder probability is appended exactly when one probability is missing"))
    else:
        obs.append(inconclusive("E-probabilities", f"{rp}::{cat.qualname}::implicit-last", rp, cat.node.lineno, cat.qualname, "handling of the implicit last probability not recognised"))
    # --- assigned names are CAS symbols
    adds = []
    for m in st.all_methods:
        for x in walk_no_nested(m.node):
            if isinstance(x, ast.Call) and call_name(x) == "add" and isinstance(x.func, ast.Attribute) and is_self_attr(x.func.value, "program_variables", m.params()[0]):
                adds.append((m, x))
    if len(adds) < 2:
        raise AnalysisError("program_variables.add sites not found")
    for m, x in adds:
        cg = cfg_of(m.node)
        d = Defs(m.node, m.params()[0])
        var = x.args[0]
        guards = raise_guards_before(cg, node_for(cg, x))
        vroots = d.roots(var)
        ok = False
        for t in guards:
            s = src(t.ast)
            troots = d.roots(t.ast)
            shares = bool({r for r in vroots if r.startswith(("param:", "attr:"))} & troots) or (isinstance(var, ast.Name) and re.search(r"\b%s\b" % var.id, s))
            if shares and ("is_Symbol" in s or "is_symbol" in s or "sympify" in s or "_check_variable" in s or "RESERVED" in s.upper() or "constant" in s.lower()):
                ok = True
        if not ok:
            # validator in a callee invoked before the add with the name as argument
            ok = _callee_validates(repo, st, m, cg, d, x, var)
        obs.append(Ob("E-names", f"{rp}::{m.qualname}::assigned-name", rp, x.lineno, m.qualname, ok,
                      "an assigned name is checked to denote a CAS symbol before it becomes a program variable" if ok else
                      f"`{src(var)}` becomes a program variable without checking that the CAS reads it as a symbol: a variable called `e`, `pi` or `oo` "
                      "is silently read as the constant on every right-hand side"))
    # --- simultaneous assignment: all temporaries first
    sim = st.methods.get("_assign_simult")
    key_s = f"{rp}::StructureTransformer._assign_simult::order"
    verdict, msg = None, "expansion of the simultaneous assignment not recognised"
    if sim is not None:
        d = Defs(sim.node, sim.params()[0])
        rets = [r.value for r in walk_no_nested(sim.node) if isinstance(r, ast.Return)]
        tmp = next((nm for nm, vals in d.defs.items() if any(isinstance(v, ast.Call) and call_name(v) == "get_unique_var" for v in vals)), None)
        if len(rets) == 1 and isinstance(rets[0], ast.BinOp) and isinstance(rets[0].op, ast.Add) and isinstance(rets[0].left, ast.Name) and isinstance(rets[0].right, ast.Name) and tmp:
            def kinds(lst):
                apps = [x for x in walk_no_nested(sim.node) if isinstance(x, ast.Call) and call_name(x) in ("append", "insert") and isinstance(x.func.value, ast.Name) and x.func.value.id == lst]
                out = []
                inners = []
                for ap in apps:
                    a0 = ap.args[-1]
                    inners.append(a0.args[0] if isinstance(a0, ast.Call) and a0.args else a0)
                # lst += translated if isinstance(translated, list) else [translated]   /   lst.extend(...)  with translated = self.assign([...])
                from ..shape import inline_locals as _il
                grown = [x.value for x in walk_no_nested(sim.node) if isinstance(x, ast.AugAssign) and isinstance(x.op, ast.Add) and isinstance(x.target, ast.Name) and x.target.id == lst]
                grown += [x.args[0] for x in walk_no_nested(sim.node) if isinstance(x, ast.Call) and call_name(x) == "extend" and isinstance(x.func.value, ast.Name) and x.func.value.id == lst and x.args]
                for g_ in grown:
                    seen_src = set()
                    for c_ in ast.walk(_il(g_, d, keep={tmp})):
                        if isinstance(c_, ast.Call) and c_.args and isinstance(c_.args[0], ast.List) and len(c_.args[0].elts) == 3 and src(c_.args[0]) not in seen_src:
                            seen_src.add(src(c_.args[0]))
                            inners.append(c_.args[0])
                for inner in inners:
                    k = None
                    if isinstance(inner, ast.List) and len(inner.elts) == 3:
                        first, last = src(inner.elts[0]), src(inner.elts[2])
                        if re.search(r"\b%s\b" % tmp, first) and not re.search(r"\b%s\b" % tmp, last):
                            k = "temp"     # t_i = value_i
                        elif re.search(r"\b%s\b" % tmp, last) and not re.search(r"\b%s\b" % tmp, first):
                            k = "target"   # x_i = t_i
                        elif not re.search(r"\b%s\b" % tmp, first) and not re.search(r"\b%s\b" % tmp, last):
                            k = "direct"   # x_i = value_i  (no temporary)
                    out.append(k)
                return out
            kl, kr = kinds(rets[0].left.id), kinds(rets[0].right.id)
            if kl and kr and all(k == "temp" for k in kl) and all(k == "target" for k in kr):
                verdict, msg = True, "x, y = a, b  becomes  t1 = a; t2 = b; x = t1; y = t2  (all right sides read the old values)"
            elif kl and any(k in ("target", "direct") for k in kl):
                verdict, msg = False, "a target variable is assigned in the block that still evaluates right-hand sides: a later right-hand side of the simultaneous assignment reads the new value"
            elif kr and any(k == "temp" for k in kr):
                verdict, msg = False, "a right-hand side is evaluated into its temporary after target variables have been written"
    if verdict is None:
        obs.append(inconclusive("E-simult", key_s, rp, sim.node.lineno if sim else 0, "StructureTransformer._assign_simult", msg))
    else:
        obs.append(Ob("E-simult", key_s, rp, sim.node.lineno, sim.qualname, verdict, msg))
    # --- a translation that can yield several statements is spliced into a statement sequence, never appended as one element
    def may_return_list(m_, depth=0) -> bool:
        if m_ is None or depth > 3:
            return False
        for r in walk_no_nested(m_.node):
            if isinstance(r, ast.Return) and r.value is not None:
                v = r.value
                if isinstance(v, (ast.List, ast.ListComp)) or (isinstance(v, ast.BinOp) and isinstance(v.op, ast.Add) and all(isinstance(x, ast.Name) for x in (v.left, v.right))):
                    return True
                if isinstance(v, ast.Call) and isinstance(v.func, ast.Attribute) and isinstance(v.func.value, ast.Name) and v.func.value.id == "self" and v.func.attr != m_.name:
                    if may_return_list(st.find_method(v.func.attr), depth + 1):
                        return True
        return False
    listy = {m_.name for m_ in st.all_methods if may_return_list(m_)}
    for m_ in st.all_methods:
        for cl in walk_no_nested(m_.node):
            if isinstance(cl, ast.Call) and call_name(cl) == "append" and cl.args and isinstance(cl.args[0], ast.Call) and isinstance(cl.args[0].func, ast.Attribute) \
                    and isinstance(cl.args[0].func.value, ast.Name) and cl.args[0].func.value.id == "self" and cl.args[0].func.attr in listy:
                inner = cl.args[0].func.attr
                # what is translated: a fresh name / a literal is one plain assignment whatever the options say
                a_in = cl.args[0].args[0] if cl.args[0].args else None
                last = a_in.elts[-1] if isinstance(a_in, (ast.List, ast.Tuple)) and a_in.elts else a_in
                mdefs = Defs(m_.node, m_.params()[0] if m_.params() else None)
                if isinstance(last, ast.Constant) or (isinstance(last, ast.Name) and last.id in mdefs.defs and
                                                     all(isinstance(v, ast.Call) and call_name(v) in ("get_unique_var", "get_unique_name", "str") for v in mdefs.defs[last.id])):
                    continue
                single = [r for r in walk_no_nested(st.find_method(inner).node) if isinstance(r, ast.Return) and r.value is not None and not isinstance(r.value, (ast.List, ast.ListComp))]
                obs.append(Ob("E-simult", f"{rp}::{m_.qualname}::splice::{inner}", rp, cl.lineno, m_.qualname, False,
                              f"`{src(cl)[:70]}` appends the result of `{inner}` as ONE statement, but `{inner}` can return a list of statements (a probabilistic choice under "
                              "--transform_categoricals): the nested list is not a statement, the program ends in an AttributeError instead of being analysed"))
    # --- categorical expansion keeps index, value and probability aligned
    tc = st.methods.get("_transform_categorical")
    key_c = f"{rp}::StructureTransformer._transform_categorical::aligned"
    verdict, msg = None, "categorical expansion not recognised"
    if tc is not None:
        p = tc.params()
        polys, probs = (p[2], p[3]) if len(p) >= 4 else (None, None)
        cats = [c for c in walk_no_nested(tc.node) if isinstance(c, ast.Call) and call_name(c) == "Categorical" and c.args]
        ifs_ = [c for c in walk_no_nested(tc.node) if isinstance(c, ast.Call) and call_name(c) == "IfStatem"]
        loops = [n for n in walk_no_nested(tc.node) if isinstance(n, ast.For)]
        problems = []
        good = 0
        if cats and probs:
            if src(cats[0].args[0]) == probs:
                good += 1
            elif isinstance(cats[0].args[0], ast.Subscript):
                problems.append(f"the draw is Categorical({src(cats[0].args[0])}): not all probabilities are used")
        if ifs_:
            me = [k for k in ifs_[0].keywords if k.arg == "mutually_exclusive"]
            if me and isinstance(me[0].value, ast.Constant) and me[0].value.value is True:
                good += 1
            elif not me and len(ifs_[0].args) < 4:
                problems.append("the generated if-statement is not marked mutually exclusive: later branches are additionally guarded by the negation of earlier ones")
        if len(loops) == 1 and isinstance(loops[0].target, ast.Name) and polys:
            i = loops[0].target.id
            atoms = [c for c in ast.walk(loops[0]) if isinstance(c, ast.Call) and call_name(c) == "Atom" and len(c.args) == 3]
            subs_ = [x for x in ast.walk(loops[0]) if isinstance(x, ast.Subscript) and isinstance(x.value, ast.Name) and x.value.id == polys]
            if atoms and subs_:
                val = atoms[0].args[2]
                val = val.args[0] if isinstance(val, ast.Call) and call_name(val) == "str" and val.args else val
                if src(val) == i and src(subs_[0].slice) == i and src(loops[0].iter) in (f"range(len({polys}))", f"range(len({probs}))"):
                    good += 1
                elif src(val) != src(subs_[0].slice):
                    problems.append(f"branch testing `c == {src(val)}` assigns polynomial [{src(subs_[0].slice)}]")
        if problems:
            verdict, msg = False, "; ".join(problems)
        elif good == 3:
            verdict, msg = True, "branch i of the expansion tests `c == i`, assigns polynomial i, and c is Categorical(all probabilities)"
    if verdict is None:
        obs.append(inconclusive("E-categorical", key_c, rp, tc.node.lineno if tc else 0, "StructureTransformer._transform_categorical", msg))
    else:
        obs.append(Ob("E-categorical", key_c, rp, tc.node.lineno, tc.qualname, verdict, msg))
    return obs


def _validated(repo, st, m, c, defs, sink_call, pname) -> Tuple[bool, str]:
    sink = node_for(c, sink_call)
    for t in raise_guards_before(c, sink):
        if pname and re.search(r"\b%s\b" % pname, src(t.ast)):
            return True, "raising test on the probabilities"
    # a validating helper called with the probabilities before the sink
    for call in walk_no_nested(m.node):
        if isinstance(call, ast.Call) and call is not sink_call and any(isinstance(a, ast.Name) and a.id == pname for a in call.args):
            cn = c.node_of(call)
            if cn is None or not c.dominates(cn, sink):
                continue
            callee = None
            if isinstance(call.func, ast.Attribute) and isinstance(call.func.value, ast.Name) and call.func.value.id == m.params()[0]:
                callee = st.find_method(call.func.attr)
            elif isinstance(call.func, ast.Name):
                r = repo.resolve_name(m.module, call.func.id)
                callee = r[1] if r and r[0] == "func" else None
            if callee is not None and _raises_on_param(callee, call, pname):
                return True, f"{callee.qualname}"
    # the constructor itself validates
    pa = repo.find_cls("PolyAssignment")
    if pa is not None and call_name(sink_call) == "PolyAssignment":
        init = pa.methods.get("__init__")
        if init is not None:
            ci = cfg_of(init.node)
            d = Defs(init.node, "self")
            for t, _ in ci.raise_guards():
                r = d.roots(t.ast)
                if "param:probabilities" in r or "self.probabilities" in r:
                    return True, "PolyAssignment.__init__"
    return False, ""


def _find_validator(repo, st, m, pname):
    """the function whose raise-guards validate the probability list: a helper called with it, or m itself"""
    for call in walk_no_nested(m.node):
        if isinstance(call, ast.Call) and any(isinstance(a, ast.Name) and a.id == pname for a in call.args):
            callee = None
            if isinstance(call.func, ast.Attribute) and isinstance(call.func.value, ast.Name) and call.func.value.id == m.params()[0]:
                callee = st.find_method(call.func.attr)
            elif isinstance(call.func, ast.Name):
                r = repo.resolve_name(m.module, call.func.id)
                callee = r[1] if r and r[0] == "func" else None
            if callee is not None and _raises_on_param(callee, call, pname):
                params = callee.params()
                if callee.cls is not None and params and params[0] in ("self", "cls"):
                    params = params[1:]
                idx = next(i for i, a in enumerate(call.args) if isinstance(a, ast.Name) and a.id == pname)
                return callee, params[idx]
    return None, None


def _raises_on_param(callee: FunctionInfo, call: ast.Call, argname: str) -> bool:
    params = callee.params()
    if callee.cls is not None and params and params[0] in ("self", "cls"):
        params = params[1:]
    idx = next((i for i, a in enumerate(call.args) if isinstance(a, ast.Name) and a.id == argname), None)
    if idx is None or idx >= len(params):
        return False
    p = params[idx]
    c = cfg_of(callee.node)
    d = Defs(callee.node, None)
    for t, _ in c.raise_guards():
        if ("param:" + p) in d.roots(t.ast):
            return True
    return False


def _callee_validates(repo, st, m, cg, d, add_call, var) -> bool:
    sink = node_for(cg, add_call)
    vname = var.id if isinstance(var, ast.Name) else None
    for call in walk_no_nested(m.node):
        if isinstance(call, ast.Call) and call is not add_call and vname and any(isinstance(a, ast.Name) and a.id == vname for a in call.args):
            cn = cg.node_of(call)
            if cn is None or not (cg.dominates(cn, sink)):
                continue
            callee = None
            if isinstance(call.func, ast.Attribute) and isinstance(call.func.value, ast.Name) and call.func.value.id == m.params()[0]:
                callee = st.find_method(call.func.attr)
            elif isinstance(call.func, ast.Name):
                r = repo.resolve_name(m.module, call.func.id)
                callee = r[1] if r and r[0] == "func" else None
            if callee is not None and _raises_on_param(callee, call, vname):
                return True
    return False


def mut_parser_helpers(repo: Repo) -> List[Mutant]:
    out = []
    rp = "inputparser/structure_transformer.py"

    def swap_simult(tree):
        fn = find_def(tree, "StructureTransformer._assign_simult")
        for n in ast.walk(fn):
            if isinstance(n, ast.Return) and isinstance(n.value, ast.BinOp):
                n.value.left, n.value.right = n.value.right, n.value.left
                return True
        return False
    ov = mutate_module(repo, rp, swap_simult)
    if ov:
        out.append(Mutant("simult-targets-first", ov, "fire", "_assign_simult::order", control=True))

    def cat_drop_last(tree):
        fn = find_def(tree, "StructureTransformer._transform_categorical")
        for c in ast.walk(fn):
            if isinstance(c, ast.Call) and call_name(c) == "Categorical":
                c.args[0] = ast.parse("probabilities[:-1]").body[0].value
                return True
        return False
    ov = mutate_module(repo, rp, cat_drop_last)
    if ov:
        out.append(Mutant("categorical-loses-last-probability", ov, "fire", "_transform_categorical::aligned"))

    def cat_not_exclusive(tree):
        fn = find_def(tree, "StructureTransformer._transform_categorical")
        for c in ast.walk(fn):
            if isinstance(c, ast.Call) and call_name(c) == "IfStatem":
                c.keywords = []
                return True
        return False
    ov = mutate_module(repo, rp, cat_not_exclusive)
    if ov:
        out.append(Mutant("categorical-not-exclusive", ov, "fire", "_transform_categorical::aligned"))
    return out


RULES = {
    "GUARD": Rule("G2-guard", rule_guard_marks, 3, "only the source loop guard (and its copies / normal forms) is ever marked as loop guard", mut_guard_marks, soft=True),
    "ORIGGUARD": Rule("G2-original-guard", rule_original_guard, 2, "the guard used for conditioning on termination derives from the source guard, not from a renamed assignment condition", mut_original_guard, soft=True),
    "AFTERLOOP": Rule("E-after-loop", rule_after_loop, 7, "--after_loop arms condition on termination and take the limit; the conditional moment is a ratio over one negated-guard indicator", mut_after_loop, soft=True),
    "FLAGS": Rule("H2-flags", rule_flag_combiners, 8, "every (value, is_exact) combiner forwards all incoming exactness flags", mut_flag_combiners),
    "LOSSY": Rule("H1-lossy", rule_lossy_sources, 3, "every approximating call in the moment pipeline clears the returned exactness flag", mut_lossy_sources),
    "SOLVERFLAG": Rule("H2-solver-flag", rule_solver_flag, 6, "solver exactness is the flag returned with the roots and is forwarded unchanged", mut_solver_flag, soft=True),
    "VOCAB": Rule("D3-vocabulary", rule_vocabulary, 14, "function-name literals are in the grammar's vocabulary; dispatchers are total; mixing trig/exp is refused", mut_vocabulary, soft=True),
    "SIMULATOR": Rule("S-simulator", rule_simulator, 6, "the simulator's dispatch, first-match branching, guard stuttering and guarded assignment have the semantics the analysis assumes", mut_simulator, soft=True),
    "PARSER": Rule("E-probabilities", rule_parser_helpers, 9, "probabilistic choices are validated, assigned names are CAS symbols, simultaneous assignment and categorical expansion keep their alignment", mut_parser_helpers, soft=True),
}
