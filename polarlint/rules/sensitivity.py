"""C10 (necessary conditions only): the product rule that DiffRecBuilder emulates on each recurrence summand, decided as
a case table over the two dependence tests; the transitive closure of parameter dependence; and that every
differentiation is with respect to the validated parameter symbol.  Source-level only, nothing is evaluated."""
import ast
import itertools
from typing import Dict, List, Optional, Set, Tuple

from ..model import Repo, FunctionInfo, AnalysisError, walk_no_nested, src, call_name, parent, ancestors, is_self_attr
from ..core import Ob, Rule, Mutant, mutate_module, find_def, replace_node, text_mutant, inconclusive
from ..dataflow import Defs
from ..cfg import cfg_of
from ..ratfun import Normalizer, RF, Poly
from ..shape import resolve_alias, conjuncts
from .validate import controlling_tests, node_for

DRB = "recurrences/diff_rec_builder.py"
SA = "sensitivity_analysis/sensitivity_analyzer.py"
ACT = "cli/actions/sensitivity_action.py"
R = "F-sensitivity"


def _paths(stmts: List[ast.stmt], atoms: Dict[str, bool], classify) -> List[Tuple[Dict[str, bool], List[ast.AST], bool]]:
    """all paths through a statement list (if/else only): (truth of the classified tests, `x += e` terms, skipped by continue?).
    `classify(test)` -> atom name or None (unknown tests are explored both ways under a synthetic name)."""
    results = [(dict(atoms), [], False)]
    for st in stmts:
        nxt = []
        for env, terms, skipped in results:
            if skipped:
                nxt.append((env, terms, skipped))
                continue
            if isinstance(st, ast.If):
                nm, neg = classify(st.test)
                if nm is None:
                    nm, neg = "?" + src(st.test)[:40], False
                for val in (True, False):
                    if nm in env and env[nm] != (val != neg):
                        continue
                    e2 = dict(env)
                    e2[nm] = (val != neg)
                    for e3, t3, s3 in _paths(st.body if val else st.orelse, e2, classify):
                        nxt.append((e3, terms + t3, s3))
            elif isinstance(st, ast.Continue):
                nxt.append((env, terms, True))
            elif isinstance(st, ast.AugAssign) and isinstance(st.op, ast.Add):
                nxt.append((env, terms + [(src(st.target), st.value)], skipped))
            else:
                nxt.append((env, terms, skipped))
        results = nxt
    return results


def rule_product_rule(repo: Repo) -> List[Ob]:
    f = repo.function(DRB, "DiffRecBuilder.get_recurrence")
    selfn = f.params()[0]
    key = f"{DRB}::{f.qualname}::product-rule"
    # the loop over the summands of the original recurrence
    loops = [l for l in walk_no_nested(f.node) if isinstance(l, ast.For) and isinstance(l.target, ast.Name)
             and any(isinstance(x, ast.AugAssign) for x in ast.walk(l)) and any(isinstance(x, ast.Call) and call_name(x) == "diff" for x in ast.walk(l))]
    if not loops:
        return [inconclusive(R, key, DRB, f.node.lineno, f.qualname, "loop over the summands with the emulated differentiation not found")]
    loop = loops[0]
    summand = loop.target.id
    # constant part / monomial part: the two accumulators of the factor loop, told apart by the test on the program's symbols
    cpart = mpart = None
    for inner in [n for n in ast.walk(loop) if isinstance(n, ast.For) and n is not loop]:
        for iff in [n for n in ast.walk(inner) if isinstance(n, ast.If)]:
            tb = [x.target.id for x in iff.body if isinstance(x, ast.AugAssign) and isinstance(x.op, ast.Mult) and isinstance(x.target, ast.Name)]
            fb = [x.target.id for x in iff.orelse if isinstance(x, ast.AugAssign) and isinstance(x.op, ast.Mult) and isinstance(x.target, ast.Name)]
            if len(tb) == 1 and len(fb) == 1 and "symbols" in src(iff.test):
                # `factor.free_symbols.difference(program.symbols)` is non-empty for factors with program variables
                if "difference" in src(iff.test) or " - " in src(iff.test):
                    mpart, cpart = tb[0], fb[0]
                elif "issubset" in src(iff.test) or "<=" in src(iff.test):
                    cpart, mpart = tb[0], fb[0]
    def parts_in(node):
        """(constant part, monomial part) accumulators of a factor loop inside `node`"""
        for inner in [n for n in ast.walk(node) if isinstance(n, ast.For) and n is not loop]:
            for iff in [n for n in ast.walk(inner) if isinstance(n, ast.If)]:
                tb = [x.target.id for x in iff.body if isinstance(x, ast.AugAssign) and isinstance(x.op, ast.Mult) and isinstance(x.target, ast.Name)]
                fb = [x.target.id for x in iff.orelse if isinstance(x, ast.AugAssign) and isinstance(x.op, ast.Mult) and isinstance(x.target, ast.Name)]
                if len(tb) == 1 and len(fb) == 1 and "symbols" in src(iff.test):
                    if "difference" in src(iff.test) or " - " in src(iff.test):
                        return fb[0], tb[0]
                    if "issubset" in src(iff.test) or "<=" in src(iff.test):
                        return tb[0], fb[0]
        return None
    if cpart is None:
        # the separation may live in a helper:  c, m = self._split(summand)
        for st in ast.walk(loop):
            if isinstance(st, ast.Assign) and isinstance(st.targets[0], ast.Tuple) and len(st.targets[0].elts) == 2 and isinstance(st.value, ast.Call) \
                    and isinstance(st.value.func, ast.Attribute) and isinstance(st.value.func.value, ast.Name) and st.value.func.value.id == selfn and f.cls is not None:
                h = f.cls.find_method(st.value.func.attr)
                if h is None:
                    continue
                pr = parts_in(h.node)
                rets = [r.value for r in walk_no_nested(h.node) if isinstance(r, ast.Return) and isinstance(r.value, ast.Tuple) and len(r.value.elts) == 2]
                if pr and len(rets) == 1 and all(isinstance(e, ast.Name) for e in rets[0].elts):
                    order = [e.id for e in rets[0].elts]
                    names = [e.id for e in st.targets[0].elts if isinstance(e, ast.Name)]
                    if len(names) == 2 and set(order) == set(pr):
                        cpart = names[order.index(pr[0])]
                        mpart = names[order.index(pr[1])]
    if cpart is None:
        return [inconclusive(R, key, DRB, loop.lineno, f.qualname, "separation of a summand into its constant and its monomial part not recognised")]
    dep_helpers = {m.name for m in (f.cls.all_methods if f.cls else []) if "dependent" in m.name}

    def classify(test) -> Tuple[Optional[str], bool]:
        neg = False
        t = test
        while isinstance(t, ast.UnaryOp) and isinstance(t.op, ast.Not):
            t = t.operand
            neg = not neg
        if isinstance(t, ast.Compare) and len(t.ops) == 1 and isinstance(t.ops[0], (ast.Is, ast.Eq, ast.IsNot, ast.NotEq)) and isinstance(t.comparators[0], ast.Constant) \
                and isinstance(t.comparators[0].value, bool):
            flip = (t.comparators[0].value is False) != isinstance(t.ops[0], (ast.IsNot, ast.NotEq))
            nm, n2 = classify(t.left)
            return nm, (n2 != flip) != neg if nm else False
        if isinstance(t, ast.Call) and call_name(t) in dep_helpers and t.args and isinstance(t.args[0], ast.Name):
            which = {summand: "S", mpart: "M", cpart: "C"}.get(t.args[0].id)
            return which, neg
        if isinstance(t, ast.Compare) and len(t.ops) == 1 and isinstance(t.ops[0], (ast.In, ast.NotIn)) and "param" in src(t.left) and "free_symbols" in src(t.comparators[0]):
            which = {summand: "S", mpart: "M", cpart: "C"}.get(src(t.comparators[0]).split(".")[0])
            return which, neg != isinstance(t.ops[0], ast.NotIn)
        return None, False

    subst = {}
    nz = Normalizer()
    c_rf, m_rf = nz(ast.Name(id=cpart, ctx=ast.Load())), nz(ast.Name(id=mpart, ctx=ast.Load()))
    fdefs = Defs(f.node, selfn)
    _stack: List[str] = []

    def local_cb(name):
        # temporaries:  dc = constant_part.diff(self.param);  rec += dc * monomial_part
        vals = fdefs.defs.get(name, [])
        if name in (cpart, mpart, summand) or name in fdefs.params or name in _stack or len(vals) != 1 or not isinstance(vals[0], ast.expr):
            return None
        _stack.append(name)
        try:
            return nz(vals[0])
        finally:
            _stack.pop()
    nz = Normalizer(subst={summand: c_rf * m_rf}, name_cb=local_cb)
    delta = next((src(x) for x in ast.walk(loop) if isinstance(x, ast.Attribute) and x.attr == "delta"), f"{selfn}.delta")
    param = next((src(x) for x in ast.walk(loop) if isinstance(x, ast.Attribute) and x.attr == "param"), f"{selfn}.param")
    dc = f"{cpart}.diff({param})"
    want = {
        (True, True): f"{dc} * {mpart} + {cpart} * {mpart} * {delta}",
        (True, False): f"{dc} * {mpart}",
        (False, True): f"{cpart} * {mpart} * {delta}",
    }
    obs = []
    problems, unknown = [], []
    seen = set()
    for env, terms, skipped in _paths(loop.body, {}, classify):
        if any(k.startswith("?") for k in env):
            unknown.append("test `" + next(k for k in env if k.startswith("?"))[1:] + "` not recognised")
            continue
        if skipped and not terms:
            if env.get("S") is False or (env.get("C") is False and env.get("M") is False):
                continue          # derivative of a parameter-independent summand is 0
            problems.append(f"a summand is skipped although it depends on the parameter ({env})")
            continue
        c, m = env.get("C"), env.get("M")
        if c is None or m is None:
            # a path on which one of the two tests is not evaluated: expand it
            vals = [(cv, mv) for cv in ([c] if c is not None else [True, False]) for mv in ([m] if m is not None else [True, False])]
        else:
            vals = [(c, m)]
        try:
            got = RF(Poly.const(0))
            for _, e in terms:
                got = got + nz(e)
        except AnalysisError as e:
            unknown.append(str(e))
            continue
        for cv, mv in vals:
            if not cv and not mv:
                if env.get("S") is True and not got.n.is_zero():
                    # S true but neither part depends: impossible combination, whatever is added is irrelevant
                    pass
                continue
            seen.add((cv, mv))
            exp = nz(ast.parse(want[(cv, mv)], mode="eval").body)
            if not got.equiv(exp):
                problems.append(f"constant part {'depends' if cv else 'does not depend'} on the parameter, monomial part {'depends' if mv else 'does not depend'}: "
                                f"the derivative collected is `{' + '.join(src(e) for _, e in terms) or '0'}`, the product rule gives `{want[(cv, mv)]}`")
    if problems:
        obs.append(Ob(R, key, DRB, loop.lineno, f.qualname, False, problems[0]))
    elif unknown or len(seen) < 3:
        obs.append(inconclusive(R, key, DRB, loop.lineno, f.qualname, unknown[0] if unknown else f"only the cases {sorted(seen)} of the product rule were recognised"))
    else:
        obs.append(Ob(R, key, DRB, loop.lineno, f.qualname, True,
                      "d(c*m) = c'*m + c*m*delta when both parts depend on the parameter, c'*m / c*m*delta when one does, nothing for independent summands"))
    return obs


def mut_product_rule(repo: Repo) -> List[Mutant]:
    out = []
    cases = [
        ("rec += constant_part * monomial_part * self.delta", "rec += monomial_part * self.delta", True),
        ("rec += summand * self.delta", "rec += summand", False),
    ]
    for old, new, control in cases:
        ov = text_mutant(repo, DRB, old, new)
        if ov:
            out.append(Mutant(f"product-rule:{new[:30]}", ov, "fire", "product-rule", control=control))

    def drop_first(tree):
        fn = find_def(tree, "DiffRecBuilder.get_recurrence")
        for n in ast.walk(fn):
            if isinstance(n, ast.If) and "_is_monomial_p_dependent(monomial_part)" in src(n.test) and len(n.body) == 2:
                n.body = n.body[1:]
                return True
        return False
    ov = mutate_module(repo, DRB, drop_first)
    if ov:
        out.append(Mutant("product-rule-loses-c-prime", ov, "fire", "product-rule"))
    ov = text_mutant(repo, DRB, "rec += constant_part * monomial_part * self.delta", "rec += self.delta * (monomial_part * constant_part)")
    if ov:
        out.append(Mutant("benign-reordered-factors", ov, "silent"))
    return out


# ------------------------------------------------------------------ with respect to the validated parameter
def rule_diff_param(repo: Repo) -> List[Ob]:
    obs = []
    # DiffRecBuilder: initial values are differentiated with respect to self.param; the solution looked up is the one of monom*delta
    f = repo.function(DRB, "DiffRecBuilder.get_initial_value")
    selfn = f.params()[0]
    diffs = [c for c in walk_no_nested(f.node) if isinstance(c, ast.Call) and call_name(c) == "diff"]
    key = f"{DRB}::{f.qualname}::wrt"
    if not diffs:
        obs.append(inconclusive(R, key, DRB, f.node.lineno, f.qualname, "differentiation of the initial value not found"))
    else:
        ok = all(len(c.args) >= 1 and is_self_attr(c.args[0], "param", selfn) for c in diffs)
        obs.append(Ob(R, key, DRB, diffs[0].lineno, f.qualname, ok, "initial values are differentiated with respect to the parameter" if ok else
                      f"`{src(diffs[0])[:60]}` does not differentiate with respect to {selfn}.param"))
    # a shortcut that answers 0 without differentiating is right only for a monomial NONE of whose variables depends on the parameter
    for hname in ("DiffRecBuilder.get_initial_value", "DiffRecBuilder.get_recurrence"):
        hf = repo.function(DRB, hname)
        hc = cfg_of(hf.node)
        for r in [x for x in walk_no_nested(hf.node) if isinstance(x, ast.Return) and isinstance(x.value, ast.Call) and call_name(x.value) in ("Zero", "sympify") and
                  (not x.value.args or src(x.value.args[0]) == "0")]:
            node = hc.node_of(r)
            if node is None:
                continue
            facts = []
            for t, reach in controlling_tests(hc, node):
                if isinstance(t.ast, ast.expr):
                    facts += conjuncts(t.ast, bool(reach))
            for t, truth in facts:
                txt = src(t)
                if "dep_vars" not in txt and "dependent" not in txt:
                    continue
                keyz = f"{DRB}::{hname}::zero-shortcut"
                if isinstance(t, ast.Call) and call_name(t) == "issubset":
                    # `not X.issubset(dep)`: some variable is independent -- but the others may depend
                    obs.append(Ob(R, keyz, DRB, r.lineno, hname, False,
                                  f"0 is returned when `{txt}` is {truth}: that only says that not ALL variables of the monomial depend on the parameter; a product of a dependent and an independent variable has a non-zero derivative"))
                elif isinstance(t, ast.Call) and call_name(t) == "isdisjoint" and truth:
                    obs.append(Ob(R, keyz, DRB, r.lineno, hname, True, "0 is returned only if no variable of the monomial depends on the parameter"))
    g = repo.function(DRB, "DiffRecBuilder.get_solution")
    gs = g.params()[0]
    subs = [s for s in walk_no_nested(g.node) if isinstance(s, ast.Subscript) and isinstance(s.ctx, ast.Load)]
    gets = [c for c in walk_no_nested(g.node) if isinstance(c, ast.Call) and call_name(c) == "get" and c.args]
    key = f"{DRB}::{g.qualname}::marked-monomial"
    exprs = [s.slice for s in subs] + [c.args[0] for c in gets]
    gdefs = Defs(g.node, gs)
    exprs = [resolve_alias(e, gdefs) for e in exprs]
    if not exprs:
        obs.append(inconclusive(R, key, DRB, g.node.lineno, g.qualname, "lookup of the solution not recognised"))
    else:
        ok = all(any(isinstance(x, ast.Attribute) and x.attr == "delta" for x in ast.walk(e)) for e in exprs)
        obs.append(Ob(R, key, DRB, g.node.lineno, g.qualname, ok, "the solution reported is the one of the monomial marked as differentiated (monom * delta)" if ok else
                      "the solution of the *undifferentiated* monomial is reported as the sensitivity"))
    # closed-form path: every result.diff(x) uses the parameter that passed the symbolic-constant test (raise otherwise)
    h = repo.function(ACT, "SensitivityAction._diff_closed_form")
    hdefs = Defs(h.node, h.params()[0])
    c = cfg_of(h.node)
    diffs = [x for x in walk_no_nested(h.node) if isinstance(x, ast.Call) and call_name(x) == "diff"]
    key = f"{ACT}::{h.qualname}::wrt"
    if not diffs:
        obs.append(inconclusive(R, key, ACT, h.node.lineno, h.qualname, "differentiation of the closed forms not found"))
    else:
        params = set()
        for nm, vals in hdefs.defs.items():
            for v in vals:
                if type(v).__name__ == "_Elem" and isinstance(v.expr, ast.Call) and "symbolic_param" in (call_name(v.expr) or "") and v.index == 1:
                    params.add(nm)
        bad = [d for d in diffs if not (len(d.args) == 1 and isinstance(d.args[0], ast.Name) and d.args[0].id in params)]
        guarded = any("valid" in src(t.ast) or any(p in src(t.ast) for p in params) for t, _ in c.raise_guards())
        # what is differentiated is the whole reported closed form (special cases included), not a projection of it
        proj = [d for d in diffs if isinstance(d.func, ast.Attribute) and isinstance(d.func.value, ast.Call)
                and (call_name(d.func.value) or "") in ("unpack_piecewise", "without_piecewise")]
        proj += [d for d in diffs if isinstance(d.func, ast.Attribute) and isinstance(d.func.value, ast.Name)
                 and any(isinstance(v, ast.Call) and (call_name(v) or "") in ("unpack_piecewise", "without_piecewise") for v in hdefs.defs.get(d.func.value.id, []))]
        if proj:
            obs.append(Ob(R, f"{ACT}::{h.qualname}::whole-closed-form", ACT, proj[0].lineno, h.qualname, False,
                          f"`{src(proj[0])[:70]}` differentiates only the general case of the closed form: the listed special cases (small n) are reported with the derivative of a formula that does not hold there"))
        else:
            obs.append(Ob(R, f"{ACT}::{h.qualname}::whole-closed-form", ACT, diffs[0].lineno, h.qualname, True, "the whole piecewise closed form is differentiated"))
        if not params:
            obs.append(inconclusive(R, key, ACT, diffs[0].lineno, h.qualname, "validated parameter symbol not recognised"))
        else:
            ok = not bad and guarded
            obs.append(Ob(R, key, ACT, diffs[0].lineno, h.qualname, ok,
                          f"all {len(diffs)} closed forms are differentiated with respect to the validated symbolic constant" if ok else
                          (f"`{src(bad[0])[:60]}` differentiates with respect to something else than the validated parameter" if bad else "the parameter is used without the raising validity test")))
        # the differentiated value of a goal kind is printed with that kind's printer
        for d in diffs:
            st = next((a for a in ancestors(d) if isinstance(a, ast.Assign)), None)
    return obs


def mut_diff_param(repo: Repo) -> List[Mutant]:
    out = []
    ov = text_mutant(repo, DRB, "original_init_val.diff(self.param)", "original_init_val.diff(self.delta)")
    if ov:
        out.append(Mutant("initial-value-wrt-marker", ov, "fire", "get_initial_value::wrt", control=True))
    ov = text_mutant(repo, DRB, "solver = solvers[monom * self.delta]", "solver = solvers[monom]")
    if ov:
        ov = {k: v.replace("solver.get(monom * self.delta)", "solver.get(monom)") for k, v in ov.items()}
        out.append(Mutant("undifferentiated-solution-reported", ov, "fire", "get_solution::marked-monomial"))
    return out


# ------------------------------------------------------------------ dependence on the parameter is transitive
def rule_dependence_closure(repo: Repo) -> List[Ob]:
    f = repo.function(SA, "SensivitiyAnalyzer.get_dependent_variables")
    key = f"{SA}::{f.qualname}::closure"
    defs = Defs(f.node, f.params()[0])
    # the set that is returned (first component) and grown by .add
    grown = {c.func.value.id for c in walk_no_nested(f.node) if isinstance(c, ast.Call) and call_name(c) in ("add", "update") and isinstance(c.func, ast.Attribute) and isinstance(c.func.value, ast.Name)}
    if not grown:
        return [inconclusive(R, key, SA, f.node.lineno, f.qualname, "set of dependent variables not recognised")]
    dep = sorted(grown)[0]
    obs = []
    # (i) both sections seed the set with direct uses of the parameter, (ii) a loop repeats the transitive step until nothing is added
    loops = [w for w in walk_no_nested(f.node) if isinstance(w, ast.While)]
    fix = None
    for w in loops:
        adds_inside = [c for c in ast.walk(w) if isinstance(c, ast.Call) and call_name(c) in ("add", "update") and isinstance(c.func, ast.Attribute) and src(c.func.value) == dep]
        if not adds_inside:
            continue
        # exit condition compares sizes / sets before and after, or a changed flag
        exits = [b for b in ast.walk(w) if isinstance(b, ast.Break)]
        cond_text = src(w.test) + " ".join(src(parent(b).test) for b in exits if isinstance(parent(b), ast.If))
        fix = (w, ("len(" in cond_text and dep in cond_text) or "changed" in cond_text or (dep in cond_text and "==" in cond_text))
    sections_in = lambda node: {s for s in ("initial", "loop_body") if any(isinstance(x, ast.Attribute) and x.attr == s for x in ast.walk(node))}
    if fix is None:
        # is there at least a transitive step at all?
        trans = [c for c in walk_no_nested(f.node) if isinstance(c, ast.Call) and "dependent_variable" in (call_name(c) or "")]
        if trans:
            obs.append(Ob(R, key, SA, trans[0].lineno, f.qualname, False,
                          "the transitive step (an assignment that uses a dependent variable makes its target dependent) is not repeated until nothing changes: dependence through two or more assignments is missed"))
        else:
            obs.append(inconclusive(R, key, SA, f.node.lineno, f.qualname, "transitive closure not recognised"))
        return obs
    # every assignment kind takes part: a filter on a subclass of Assignment drops draws / functional assignments from the closure
    base = repo.cls("Assignment", "program/assignment/assignment.py")
    subnames = {c0.name for c0 in repo.subclasses(base)} - {"Assignment"}
    narrow = [t for t in walk_no_nested(f.node) if isinstance(t, ast.Call) and call_name(t) == "isinstance" and len(t.args) == 2
              and any(isinstance(x, ast.Name) and x.id in subnames for x in ast.walk(t.args[1]))]
    keyk = f"{SA}::{f.qualname}::all-kinds"
    if narrow:
        obs.append(Ob(R, keyk, SA, narrow[0].lineno, f.qualname, False,
                      f"`{src(narrow[0])}` restricts the dependence analysis to one kind of assignment: a draw or functional assignment that depends on the parameter only through its condition or arguments is treated as independent"))
    else:
        obs.append(Ob(R, keyk, SA, f.node.lineno, f.qualname, True, "all kinds of assignments take part in the dependence analysis"))
    w, stable_exit = fix
    secs = sections_in(w)
    if not secs:
        # the loop may iterate a list that a helper (or an earlier statement) collected from both sections
        for lp in [x for x in ast.walk(w) if isinstance(x, ast.For) and isinstance(x.iter, ast.Name)]:
            for v in defs.defs.get(lp.iter.id, []):
                if isinstance(v, ast.expr):
                    secs |= sections_in(v)
                    for hc in [x for x in ast.walk(v) if isinstance(x, ast.Call) and isinstance(x.func, ast.Attribute) and f.cls is not None]:
                        hm = f.cls.find_method(hc.func.attr)
                        if hm is not None:
                            secs |= sections_in(hm.node)
    if not secs:
        obs.append(inconclusive(R, key, SA, w.lineno, f.qualname, "which sections the closure loop propagates through was not recognised"))
        return obs
    if not stable_exit:
        obs.append(inconclusive(R, key, SA, w.lineno, f.qualname, "exit condition of the closure loop not recognised"))
    else:
        ok = secs == {"initial", "loop_body"}
        obs.append(Ob(R, key, SA, w.lineno, f.qualname, ok,
                      "dependence is propagated through both sections until the set is stable" if ok else
                      f"the closure loop only looks at {sorted(secs)}: dependence through the other section is missed"))
    return obs


def mut_dependence_closure(repo: Repo) -> List[Mutant]:
    def once(tree):
        fn = find_def(tree, "SensivitiyAnalyzer.get_dependent_variables")
        for i, n in enumerate(fn.body):
            if isinstance(n, ast.While):
                body = [s for s in n.body if not (isinstance(s, ast.If) and any(isinstance(x, ast.Break) for x in ast.walk(s)))]
                fn.body[i:i + 1] = body
                return True
        return False
    ov = mutate_module(repo, SA, once)
    return [Mutant("closure-step-done-once", ov, "fire", "get_dependent_variables::closure", control=True)] if ov else []


RULES = {
    "PRODUCTRULE": Rule(R, rule_product_rule, 1, "DiffRecBuilder's emulated differentiation of a summand c*m is the product rule in each dependence case (path enumeration + rational-function identity)", mut_product_rule, soft=True),
    "DIFFPARAM": Rule(R, rule_diff_param, 3, "initial values and closed forms are differentiated with respect to the validated parameter; the reported solution is the one of the marked monomial", mut_diff_param, soft=True),
    "DEPCLOSURE": Rule(R, rule_dependence_closure, 1, "parameter dependence of variables is closed transitively over both sections (fixed-point loop)", mut_dependence_closure, soft=True),
}
