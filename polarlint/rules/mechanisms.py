"""Shape rules for the individual mechanisms the properties' anchors name (if-flattening,
single-assignment renaming, draw rewriting, conditions-to-arithmetic, recurrence-builder context,
per-program caches).  Each rule states a *necessary* structural condition of the mechanism and finds
its instances by role (what the code does), not by position."""
import ast
import re
from typing import Dict, List, Optional, Set, Tuple

from ..model import Repo, ClassInfo, FunctionInfo, AnalysisError, walk_no_nested, src, is_self_attr, call_name, dotted, parent, \
    ancestors, enclosing_stmt, const_str
from ..core import Ob, Rule, Mutant, mutate_module, find_def, find_defs, replace_node, text_mutant, inconclusive
from ..dataflow import Defs
from ..cfg import cfg_of
from ..astq import flatten, norm, template_of, Lit, Hole
from ..ratfun import Normalizer, RF, Poly
from .validate import controlling_tests, node_for, loop_heads

IFT = "program/transformer/if_transformer.py"


def _emit(obs, rule, key, rp, line, qn, verdict, msg):
    """verdict True/False -> obligation; None -> inconclusive"""
    if verdict is None:
        obs.append(inconclusive(rule, key, rp, line, qn, msg))
    else:
        obs.append(Ob(rule, key, rp, line, qn, verdict, msg))


def _ifstatem_handler(repo: Repo) -> FunctionInfo:
    cls = repo.cls("IfTransformer", IFT)
    for m in cls.all_methods:
        if any(a.annotation is not None and "IfStatem" in src(a.annotation) for a in m.node.args.args):
            return m
    raise AnalysisError("IfTransformer: handler for IfStatem not found")


def _loops_over(fn_node, name_pred) -> List[ast.For]:
    return [n for n in walk_no_nested(fn_node) if isinstance(n, ast.For) and name_pred(src(n.iter))]


# ------------------------------------------------------------------ if-flattening
def rule_if_flattening(repo: Repo) -> List[Ob]:
    m = _ifstatem_handler(repo)
    defs = Defs(m.node, m.params()[0])
    c = cfg_of(m.node)
    obs = []
    key = f"{IFT}::{m.qualname}"
    # names of the condition list / branch list
    cond_names = {nm for nm, vals in defs.defs.items() if any(isinstance(v, ast.Attribute) and v.attr == "conditions" for v in vals)}
    branch_names = {nm for nm, vals in defs.defs.items() if any(isinstance(v, ast.Attribute) and v.attr == "branches" for v in vals)}
    if not cond_names or not branch_names:
        raise AnalysisError("IfTransformer: condition / branch lists not found")
    cn = sorted(cond_names)[0]
    # main loop over the branches
    loops = [l for l in walk_no_nested(m.node) if isinstance(l, ast.For) and any(b in src(l.iter) for b in branch_names) and parent(l) is m.node]
    if not loops:
        raise AnalysisError("IfTransformer: loop over branches not found")
    loop = loops[0]
    idx = None
    if isinstance(loop.target, ast.Tuple) and isinstance(loop.iter, ast.Call) and call_name(loop.iter) == "enumerate":
        idx = loop.target.elts[0].id
    # R1: which assigned variables get an `_old` copy is decided against the symbols of *all* conditions
    stores = [n for n in ast.walk(loop) if isinstance(n, ast.Assign) and isinstance(n.targets[0], ast.Subscript)
              and isinstance(n.value, ast.Call) and call_name(n.value) == "get_unique_var"]
    if not stores:
        raise AnalysisError("IfTransformer: creation of `_old` names not found")
    rename_map = src(stores[0].targets[0].value)
    tests = controlling_tests(c, node_for(c, stores[0]))
    sym_names = set()
    from ..shape import conjuncts as _conjuncts
    for t, reach in tests:
        if not isinstance(t.ast, ast.expr) or not isinstance(reach, bool):
            continue
        for fact, truth in _conjuncts(t.ast, reach):     # `if v in S:` / `if not v in S: continue` / `if v not in S: continue`
            if isinstance(fact, ast.Compare) and len(fact.ops) == 1 and isinstance(fact.comparators[0], ast.Name) and \
                    ((isinstance(fact.ops[0], ast.In) and truth is True) or (isinstance(fact.ops[0], ast.NotIn) and truth is False)):
                sym_names.add(fact.comparators[0].id)
    sym_names -= {rename_map}
    ok = None
    why = "no membership test against the condition symbols controls the creation of `_old` copies"
    if sym_names:
        sn = sorted(sym_names)[0]
        vals = defs.defs.get(sn, [])
        sites = defs.def_sites.get(sn, [])
        inside = [s for s in sites if any(a is loop for a in ancestors(s))]
        whole = all(isinstance(v, ast.expr) and any(isinstance(x, ast.Name) and x.id in cond_names and not isinstance(parent(x), ast.Subscript) for x in ast.walk(v)) for v in vals)
        ok = bool(vals) and not inside and whole
        why = ("variables that occur in *any* condition of the if-statement get an `_old` copy when a branch assigns them" if ok else
               f"`{sn}` is computed " + ("inside the branch loop" if inside else "from only part of the conditions") +
               ": a variable tested by an earlier branch and reassigned in a later one is read with its new value by the later guards")
    _emit(obs, "M-if-flatten", key + "::old-copies-all-conditions", IFT, stores[0].lineno, m.qualname, ok, why)
    # R2: the condition handed to the assignments is a renamed *copy*
    adds = [n for n in ast.walk(loop) if isinstance(n, ast.Call) and call_name(n) == "add_to_condition"]
    ok = None
    why = "add_to_condition call not found"
    if adds:
        a = adds[0].args[0]
        if isinstance(a, ast.Name):
            vals = defs.defs.get(a.id, [])
            copied = any(isinstance(v, ast.expr) and any(isinstance(x, ast.Call) and call_name(x) == "copy" for x in ast.walk(v)) for v in vals)
            subs_calls = [n for n in ast.walk(loop) if isinstance(n, ast.Call) and call_name(n) == "subs" and isinstance(n.func.value, ast.Name)
                          and n.func.value.id == a.id and n.args and src(n.args[0]) == rename_map]
            before = bool(subs_calls) and c.dominates(node_for(c, subs_calls[0]), node_for(c, adds[0]))
            # every `_old` name must exist before the condition is renamed
            store_first = not c.reachable(node_for(c, subs_calls[0]), node_for(c, stores[0]), avoid=loop_heads(c)) if subs_calls else False
            ok = (copied and before and store_first) if subs_calls or not copied else None
            why = ("each branch's guard is a copy with the `_old` renaming applied (after all `_old` names of the branch exist)" if ok else
                   "the guard given to the assignments is " + ("not a copy" if not copied else "not renamed to the `_old` values before use" if not before else "renamed before the branch's `_old` names are known"))
    _emit(obs, "M-if-flatten", key + "::guard-copy-renamed", IFT, adds[0].lineno if adds else m.node.lineno, m.qualname, ok, why)
    # R3: negations of all previous conditions accumulate
    acc = None
    for n in ast.walk(loop):
        if isinstance(n, ast.Assign) and isinstance(n.targets[0], ast.Name) and isinstance(n.value, ast.Call) and any(isinstance(x, ast.Call) and call_name(x) == "Not" for x in ast.walk(n.value)):
            acc = n
    ok = None
    why = "no accumulation of negated previous conditions"
    if acc is not None:
        nm = acc.targets[0].id
        v = acc.value
        keeps = call_name(v) == "And" and any(isinstance(x, ast.Name) and x.id == nm for x in v.args)
        nots = [x for x in ast.walk(v) if isinstance(x, ast.Call) and call_name(x) == "Not"]
        cur = bool(nots) and idx is not None and re.search(r"\b%s\[%s\]" % (cn, idx), src(nots[0])) is not None
        copied = bool(nots) and "copy()" in src(nots[0])
        init_true = any(isinstance(x, ast.Call) and call_name(x) == "TrueCond" for x in defs.defs.get(nm, []) if isinstance(x, ast.expr))
        at_end = acc is loop.body[-1] or all(not any(isinstance(y, ast.Call) and call_name(y) == "add_to_condition" for y in ast.walk(s)) for s in loop.body[loop.body.index(acc) + 1:]) if acc in loop.body else False
        ok = keeps and cur and copied and init_true and at_end
        why = ("`%s` accumulates the negation of every earlier branch condition (conjunction, starting from true, updated after the branch was handled)" % nm if ok else
               f"`{src(acc)}` " + ("forgets the earlier negations: branch k>=3 only excludes its direct predecessor" if not keeps else
                                   "does not negate a copy of the current branch condition" if not (cur and copied) else "is not initialised to true / is updated before the branch is handled"))
        # R4: the branch guard is `And(not_previous, conditions[i])` unless the statement is mutually exclusive
        guard_ok = None
        for n in ast.walk(loop):
            if isinstance(n, ast.IfExp) and "mutually_exclusive" in src(n.test):
                pos, neg = n.body, n.orelse
                guard_ok = re.fullmatch(r"%s\[%s\]" % (cn, idx), src(pos)) is not None and isinstance(neg, ast.Call) and call_name(neg) == "And" \
                    and {src(x) for x in neg.args} == {nm, f"{cn}[{idx}]"}
        _emit(obs, "M-if-flatten", key + "::branch-guard", IFT, loop.lineno, m.qualname, guard_ok,
              "branch i is guarded by (not any earlier condition) and condition i; mutually exclusive statements by condition i alone" if guard_ok else
              ("the guard of a branch is not `And(not_previous, conditions[i])` (or conditions[i] for mutually exclusive statements)" if guard_ok is False else "branch guard construction not recognised"))
    _emit(obs, "M-if-flatten", key + "::not-previous", IFT, acc.lineno if acc is not None else loop.lineno, m.qualname, ok, why)
    # R5: saving assignments come first
    rets = [r.value for r in walk_no_nested(m.node) if isinstance(r, ast.Return)]
    ok = None
    if rets:
        r = rets[-1]
        inner = r.args[0] if isinstance(r, ast.Call) and call_name(r) == "tuple" and r.args else r
        if isinstance(inner, ast.Name):
            for v in defs.defs.get(inner.id, []):
                if isinstance(v, ast.BinOp) and isinstance(v.op, ast.Add) and isinstance(v.left, ast.Name) and isinstance(v.right, ast.Name):
                    def saves(nm):
                        return any(isinstance(x, ast.expr) and "deterministic" in src(x) for x in defs.defs.get(nm, []))
                    if saves(v.left.id) and not saves(v.right.id):
                        ok = True
                    elif saves(v.right.id) and not saves(v.left.id):
                        ok = False
            # all_assigns += rename_assigns  (the accumulated spelling of all_assigns = all_assigns + rename_assigns)
            for v, site in zip(defs.defs.get(inner.id, []), defs.def_sites.get(inner.id, [])):
                if isinstance(site, ast.AugAssign) and isinstance(site.op, ast.Add) and isinstance(v, ast.Name):
                    own = any(isinstance(x, ast.expr) and "deterministic" in src(x) for x, s_ in zip(defs.defs.get(inner.id, []), defs.def_sites.get(inner.id, [])) if s_ is not site)
                    appended = any(isinstance(x, ast.expr) and "deterministic" in src(x) for x in defs.defs.get(v.id, []))
                    if appended and not own:
                        ok = False
                    elif own and not appended and ok is None:
                        ok = True
    _emit(obs, "M-if-flatten", key + "::old-copies-first", IFT, m.node.lineno, m.qualname, ok,
          "the assignments that save old values precede all branch assignments" if ok else
          ("the `_old = x` assignments are placed AFTER the flattened branch assignments" if ok is False else "order of saving assignments not recognised"))
    # R6: else is the last branch with condition true
    ok = None
    for n in walk_no_nested(m.node):
        if isinstance(n, ast.If) and "else_branch" in src(n.test):
            body = " ".join(src(x) for x in n.body)
            if re.search(r"%s\.append\(TrueCond\(\)\)" % cn, body) is not None and any(f"{b}.append(" in body and "else_branch" in body for b in branch_names):
                ok = True
            elif "FalseCond()" in body or ".insert(0" in body:
                ok = False
    _emit(obs, "M-if-flatten", key + "::else-last", IFT, m.node.lineno, m.qualname, ok,
          "the else branch is appended as a last branch with condition true" if ok else ("the else branch is not appended as `(true, else_branch)`" if ok is False else "handling of the else branch not recognised"))
    return obs


def mut_if_flattening(repo: Repo) -> List[Mutant]:
    out = []
    cases = [
        ("forget-earlier-negations", "not_previous = And(not_previous, Not(conditions[i].copy()))", "not_previous = Not(conditions[i].copy())", "not-previous", True),
        ("negation-shares-condition", "Not(conditions[i].copy())", "Not(conditions[i])", "not-previous", False),
        ("guard-not-copied", "extra_condition = current_condition.copy().simplify()", "extra_condition = current_condition.simplify()", "guard-copy-renamed", False),
        ("old-copies-last", "all_assigns = rename_assigns + all_assigns", "all_assigns = all_assigns + rename_assigns", "old-copies-first", False),
        ("guard-without-negations", "else And(not_previous, conditions[i])", "else And(TrueCond(), conditions[i])", "branch-guard", False),
    ]
    for name, old, new, key, control in cases:
        ov = text_mutant(repo, IFT, old, new)
        if ov:
            out.append(Mutant(name, ov, "fire", key, control=control))

    def per_branch(tree):
        for fn in find_defs(tree, "IfTransformer._"):
            st = None
            for i, s in enumerate(fn.body):
                if isinstance(s, ast.Assign) and "_get_all_symbols" in src(s.value):
                    st = fn.body.pop(i)
                    break
            if st is None:
                continue
            st.value.args = [ast.parse("conditions[i:i + 1]").body[0].value]
            for n in ast.walk(fn):
                if isinstance(n, ast.For) and "enumerate" in src(n.iter):
                    n.body.insert(1, st)
                    return True
        return False
    ov = mutate_module(repo, IFT, per_branch)
    if ov:
        out.append(Mutant("symbols-of-own-condition-only", ov, "fire", "old-copies-all-conditions"))
    return out


# ------------------------------------------------------------------ single-assignment renaming
MAT = "program/transformer/multi_assign_transformer.py"


def rule_multi_assign(repo: Repo) -> List[Ob]:
    m = repo.function(MAT, "MultiAssignTransformer.execute")
    obs = []
    key = f"{MAT}::{m.qualname}"
    loops = [l for l in walk_no_nested(m.node) if isinstance(l, ast.For) and "loop_body" in src(l.iter)]
    if not loops:
        raise AnalysisError("MultiAssignTransformer: loop over the body not found")
    loop = loops[0]
    a = loop.target.id
    c = cfg_of(m.node)
    subs = [n for n in ast.walk(loop) if isinstance(n, ast.Call) and call_name(n) == "subs" and isinstance(n.func.value, ast.Name) and n.func.value.id == a]
    renames = [n for n in ast.walk(loop) if isinstance(n, ast.Assign) and any(isinstance(t, ast.Attribute) and t.attr == "variable" for t in n.targets)]
    smap = src(subs[0].args[0]) if subs and subs[0].args else "?"
    if not subs or not renames:
        ok = None
    else:
        # the renamings must be applied before the assignment's own target is read or re-bound in this iteration
        reads_target = [n for n in ast.walk(loop) if isinstance(n, ast.Attribute) and n.attr == "variable" and isinstance(n.value, ast.Name) and n.value.id == a]
        first_use = min((c.node_of(n) for n in reads_target if c.node_of(n) is not None), key=lambda nd: nd.lineno, default=None)
        sn = node_for(c, subs[0])
        ok = c.dominates(sn, node_for(c, renames[0])) and (first_use is None or first_use is sn or c.dominates(sn, first_use))
    _emit(obs, "M-multi-assign", key + "::subs-first", MAT, loop.lineno, m.qualname, ok,
          "every assignment first has the pending renamings applied to its right side and condition, then its own target is examined" if ok else
          ("the pending renamings are applied to an assignment only after its target was handled" if ok is False else "application of pending renamings not recognised"))
    # rename only non-final occurrences; final occurrence clears the pending renaming
    ok = None
    why = "renaming branch not recognised"
    if renames:
        tests = controlling_tests(c, node_for(c, renames[0]))
        gt1 = [t for t, reach in tests if isinstance(t.ast, ast.Compare) and isinstance(t.ast.ops[0], ast.Gt) and src(t.ast.comparators[0]) == "1" and reach is True]
        if gt1:
            ifnode = gt1[0].stmt
            else_src = " ".join(src(x) for x in ifnode.orelse)
            body_src = " ".join(src(x) for x in ifnode.body)
            pops = re.search(r"%s\.pop\(" % re.escape(smap), else_src) is not None
            records = re.search(r"%s\[\w+\] = \w+" % re.escape(smap), body_src) is not None
            decrements = re.search(r"\[\w+\] -= 1", body_src) is not None
            ok = pops and records and decrements
            why = ("all but the last assignment of a variable are renamed (recorded for the following statements, counter decreased); the last one keeps the name and clears the renaming"
                   if ok else "renaming bookkeeping incomplete: " + ", ".join(x for x, y in (("no pop at the last occurrence", pops), ("renaming not recorded", records), ("counter not decreased", decrements)) if not y))
    _emit(obs, "M-multi-assign", key + "::bookkeeping", MAT, renames[0].lineno if renames else loop.lineno, m.qualname, ok, why)
    # fresh name is unique per occurrence: depends on the variable and on both counters
    ok = None
    if renames and not any(isinstance(x, ast.Call) and isinstance(x.func, ast.Attribute) and isinstance(x.func.value, ast.Name) and x.func.value.id in ("self", "cls") for x in ast.walk(renames[0].value)):
        defs = Defs(m.node, m.params()[0])
        v = renames[0].value
        names = {n.id for n in ast.walk(v) if isinstance(n, ast.Name)}
        for nm in list(names):
            for d in defs.defs.get(nm, []):
                if isinstance(d, ast.expr):
                    names |= {n.id for n in ast.walk(d) if isinstance(n, ast.Name)}
        cnt = [nm for nm, vals in defs.defs.items() if any(isinstance(x, ast.Call) and ("_get_count_assign_per_var" in src(x) or call_name(x) == "copy") for x in vals if isinstance(x, ast.expr))]
        tgt_names = {n.id for n in ast.walk(renames[0].value) if isinstance(n, ast.Name)}
        has_var = "var" in names or any(isinstance(x, ast.Attribute) and x.attr == "variable" for x in ast.walk(renames[0].value))
        has_counter = bool([x for x in cnt if x in names]) or any(isinstance(x, ast.Subscript) for x in ast.walk(renames[0].value))
        ok = True if (has_var and has_counter) else (False if not has_var and not has_counter else None)
    _emit(obs, "M-multi-assign", key + "::fresh-name", MAT, renames[0].lineno if renames else loop.lineno, m.qualname, ok,
          "the new name is built from the variable and its occurrence number" if ok else
          ("the new name depends neither on the variable nor on an occurrence counter" if ok is False else "construction of the new name not recognised"))
    return obs


def mut_multi_assign(repo: Repo) -> List[Mutant]:
    out = []
    cases = [
        ("no-pop-at-last", "substitutions.pop(var, None)", "pass", "bookkeeping", True),
        ("subs-after-rename", None, None, "subs-first", False),
    ]
    ov = text_mutant(repo, MAT, "substitutions.pop(var, None)", "pass")
    if ov:
        out.append(Mutant("no-pop-at-last", ov, "fire", "bookkeeping", control=True))

    def move_subs(tree):
        fn = find_def(tree, "MultiAssignTransformer.execute")
        for n in ast.walk(fn):
            if isinstance(n, ast.For) and "loop_body" in src(n.iter):
                first = n.body.pop(0)
                n.body.append(first)
                return True
        return False
    ov = mutate_module(repo, MAT, move_subs)
    if ov:
        out.append(Mutant("subs-after-rename", ov, "fire", "subs-first"))
    ov = text_mutant(repo, MAT, "assigns_count[var] -= 1", "pass")
    if ov:
        out.append(Mutant("counter-never-decreases", ov, "fire", "bookkeeping"))
    return out


# ------------------------------------------------------------------ location/scale rewriting of draws
DT = "program/transformer/dist_transformer.py"


def _template_rf(chunks, hole_rf, newvar_name) -> Tuple[RF, RF]:
    """(c0, c1) of the affine template  c0 + c1 * NEWVAR  as rational functions"""
    text = ""
    env = {}
    k = 0
    for ch in chunks:
        if isinstance(ch, Lit):
            text += ch.text
        else:
            nm = f"H{k}_"
            k += 1
            env[nm] = ch.expr
            text += f"({nm})"
    try:
        e = ast.parse(text.strip(), mode="eval").body
    except SyntaxError:
        raise AnalysisError(f"rewrite template `{text}` is not an arithmetic expression")

    def run(newval):
        def name_cb(n):
            if n in env:
                h = env[n]
                if isinstance(h, ast.Name) and h.id == newvar_name:
                    return RF(Poly.const(newval))
                return hole_rf(h)
            return None
        return Normalizer(name_cb=name_cb)(e)
    c0 = run(0)
    c1 = run(1) - c0
    c2 = run(2) - c0
    if not c2.equiv(c1 + c1):
        raise AnalysisError("rewrite template is not affine in the fresh variable")
    return c0, c1


def rule_dist_rewrite(repo: Repo) -> List[Ob]:
    """x = D(params(vars))  ->  u = D(const params); x = c0 + c1*u   must denote the same law:
    Normal(m, v): mean c0 + c1*m', variance c1^2 v'; Laplace(m, b): (c0 + c1 m', c1 b'); Uniform(a, b): (c0 + c1 a', c0 + c1 b');
    Exponential(rate l): rate l'/c1 and c0 = 0."""
    obs = []
    cls = repo.cls("DistTransformer", DT)
    fam = {"Normal": ("mu", "sigma2"), "Laplace": ("mu", "b"), "Uniform": ("a", "b"), "Exponential": ("lamb",)}
    n = 0
    for m in cls.all_methods:
        ctor = [x for x in walk_no_nested(m.node) if isinstance(x, ast.Call) and call_name(x) == "DistAssignment" and len(x.args) == 2
                and isinstance(x.args[1], ast.Call) and call_name(x.args[1]) in fam]
        det = [x for x in walk_no_nested(m.node) if isinstance(x, ast.Call) and call_name(x) == "deterministic" and len(x.args) == 2]
        if not ctor or not det:
            continue
        n += 1
        family = call_name(ctor[0].args[1])
        fields = fam[family]
        defs = Defs(m.node, m.params()[0])
        newvar = ctor[0].args[0].id if isinstance(ctor[0].args[0], ast.Name) else None
        # local aliases of the original distribution object and of str(field)
        dist_names = {nm for nm, vals in defs.defs.items() if any(isinstance(v, ast.Attribute) and v.attr == "distribution" for v in vals)}

        stack = []

        def hole_rf(e):
            if isinstance(e, ast.Call) and call_name(e) == "str" and e.args:
                return hole_rf(e.args[0])
            if isinstance(e, ast.Attribute) and isinstance(e.value, ast.Name) and e.value.id in dist_names and e.attr in fields:
                if family == "Exponential":
                    return RF(Poly.atom("$num")) / RF(Poly.atom("$den"))
                return RF(Poly.atom("$" + e.attr))
            if isinstance(e, ast.Name):
                # numerator / denominator of the rate
                for v in defs.defs.get(e.id, []):
                    if type(v).__name__ == "_Elem" and isinstance(v.expr, ast.Call) and call_name(v.expr) == "as_numer_denom":
                        return RF(Poly.atom("$num" if v.index == 0 else "$den"))
                vals = [v for v in defs.defs.get(e.id, []) if isinstance(v, ast.expr)]
                if len(vals) == 1 and e.id not in stack:
                    stack.append(e.id)
                    try:
                        return hole_rf(vals[0])
                    finally:
                        stack.pop()
            if isinstance(e, ast.Tuple):
                raise AnalysisError("tuple hole")
            return Normalizer(name_cb=lambda nm: None, attr_cb=lambda a: hole_rf(a) if (isinstance(a.value, ast.Name) and a.value.id in dist_names and a.attr in fields) else None)(e)

        key = f"{DT}::{m.qualname}::{family}"
        try:
            chunks = template_of(det[0].args[1], defs)
            c0, c1 = _template_rf(chunks, hole_rf, newvar)
            plist = ctor[0].args[1].args[0]
            if not isinstance(plist, ast.List):
                raise AnalysisError("parameters of the fresh draw are not a list literal")
            newp = [hole_rf(x) for x in plist.elts]
            if family == "Normal":
                mu, s2 = RF(Poly.atom("$mu")), RF(Poly.atom("$sigma2"))
                sq = RF(Poly.atom(f"sqrt[{s2.canon()}]"))
                ok = (c0 + c1 * newp[0]).equiv(mu) and ((c1 * c1 * newp[1]).equiv(s2) or (c1.equiv(sq) and newp[1].equiv(RF(Poly.const(1)))))
                law = f"mean {(c0 + c1 * newp[0]).canon()}, variance ({c1.canon()})^2 * {newp[1].canon()}"
            elif family == "Laplace":
                ok = (c0 + c1 * newp[0]).equiv(RF(Poly.atom("$mu"))) and (c1 * newp[1]).equiv(RF(Poly.atom("$b")))
                law = f"location {(c0 + c1 * newp[0]).canon()}, scale {(c1 * newp[1]).canon()}"
            elif family == "Uniform":
                ok = (c0 + c1 * newp[0]).equiv(RF(Poly.atom("$a"))) and (c0 + c1 * newp[1]).equiv(RF(Poly.atom("$b")))
                law = f"from {(c0 + c1 * newp[0]).canon()} to {(c0 + c1 * newp[1]).canon()}"
            else:
                rate = RF(Poly.atom("$num")) / RF(Poly.atom("$den"))
                ok = c0.n.is_zero() and (newp[0] / c1).equiv(rate)
                law = f"rate {(newp[0] / c1).canon()}" + ("" if c0.n.is_zero() else f" shifted by {c0.canon()}")
        except AnalysisError as e:
            raise AnalysisError(f"{m.key}: {e}")
        obs.append(Ob("M-dist-rewrite", key, DT, det[0].lineno, m.qualname, ok,
                      f"rewritten draw has the original law ({law})" if ok else f"rewritten draw has {law}, which is not the law of the original {family} draw"))
    if n < 4:
        raise AnalysisError(f"only {n} draw rewritings found")
    return obs


def mut_dist_rewrite(repo: Repo) -> List[Mutant]:
    out = []
    cases = [
        ("exponential-unit-rate", "Exponential([numerator])", "Exponential([1])", "Exponential", True),
        ("laplace-unit-scale", "Laplace([0, laplace.b])", "Laplace([0, 1])", "Laplace", False),
        ("uniform-wrong-span", "Uniform([0, 1])", "Uniform([0, 2])", "Uniform", False),
        ("normal-variance-as-scale", "Normal([0, 1])", "Normal([0, normal.sigma2])", "Normal", False),
    ]
    for name, old, new, key, control in cases:
        ov = text_mutant(repo, DT, old, new)
        if ov:
            out.append(Mutant(name, ov, "fire", key, control=control))
    return out


# ------------------------------------------------------------------ conditions to arithmetic
C2A = "program/transformer/conditions_to_arithm.py"


def rule_cond2arithm(repo: Repo) -> List[Ob]:
    obs = []
    cls = repo.cls("ConditionsToArithm", C2A)
    m = None
    for x in cls.all_methods:
        if any(isinstance(c, ast.Call) and call_name(c) == "to_arithm" for c in walk_no_nested(x.node)):
            m = x
    if m is None:
        raise AnalysisError("ConditionsToArithm: conversion loop not found")
    defs = Defs(m.node, m.params()[0])
    c = cfg_of(m.node)
    av = next((nm for nm, vals in defs.defs.items() if any(isinstance(v, ast.Call) and call_name(v) == "to_arithm" for v in vals)), None)
    if av is None:
        raise AnalysisError("ConditionsToArithm: arithmetic condition variable not found")
    key = f"{C2A}::{m.qualname}"
    # every place that drops the condition (sets it to true) either rewrote the right side with the indicator, or tested indicator == 1
    stores = [n for n in walk_no_nested(m.node) if isinstance(n, ast.Assign) and any(isinstance(t, ast.Attribute) and t.attr == "condition" for t in n.targets)
              and isinstance(n.value, ast.Call) and call_name(n.value) == "TrueCond"]
    if not stores:
        raise AnalysisError("ConditionsToArithm: no store of TrueCond()")
    for i, st in enumerate(stores):
        tests = controlling_tests(c, node_for(c, st))
        eq1 = any(isinstance(t.ast, ast.Compare) and isinstance(t.ast.ops[0], ast.Eq) and reach is True and
                  {src(t.ast.left), src(t.ast.comparators[0])} == {av, "1"} for t, reach in tests)
        blk = [s for s in (getattr(parent(st), "body", []) or [])]
        rewrote = any(isinstance(s, ast.Assign) and any(isinstance(t, ast.Attribute) and t.attr == "polynomials" for t in s.targets) and av in src(s.value) for s in blk)
        ok = eq1 or rewrote
        symbol_test = next((t for t, _ in tests if any(isinstance(x, ast.Call) and call_name(x) == "get_free_symbols" or (isinstance(x, ast.Attribute) and x.attr == "free_symbols")
                                                        for x in ast.walk(t.ast)) and "condition" in src(t.ast)), None)
        if not ok and symbol_test is not None and not any(av in src(t.ast) for t, _ in tests):
            obs.append(Ob("M-cond2arithm", key + f"::drop-condition#{i}", C2A, st.lineno, m.qualname, False,
                          f"`{src(st)}` drops the condition because it mentions no variable (`{src(symbol_test.ast)[:60]}`): a condition that normalised to `false` has no variables "
                          "either, its assignment would become unconditional"))
            continue
        if not ok and not any(av in src(t.ast) for t, _ in tests):
            obs.append(inconclusive("M-cond2arithm", key + f"::drop-condition#{i}", C2A, st.lineno, m.qualname, "condition removal is not controlled by a recognisable test on the indicator"))
            continue
        obs.append(Ob("M-cond2arithm", key + f"::drop-condition#{i}", C2A, st.lineno, m.qualname, ok,
                      "the condition is dropped only when its indicator is 1 or after the right side was rewritten with the indicator" if ok else
                      f"`{src(st)}` drops the condition under [{' ; '.join(src(t.ast) for t, _ in tests)}]: a condition whose indicator is 0 (never true) would make the assignment unconditional"))
    # the rewritten right sides are  ind * rhs + (1 - ind) * default
    shapes = 0
    for n in walk_no_nested(m.node):
        if isinstance(n, ast.BinOp) and isinstance(n.op, ast.Add) and av in src(n) and not (isinstance(parent(n), ast.BinOp) and isinstance(parent(n).op, ast.Add)):
            terms = flatten(n, ast.Add)
            if len(terms) != 2:
                continue
            fs = [sorted(norm(x) for x in flatten(t, ast.Mult)) for t in terms]
            want_else = norm(ast.parse(f"1 - {av}").body[0].value)
            else_t = [f for f in fs if want_else in f]
            if_t = [f for f in fs if av in f and want_else not in f]
            shapes += 1
            ok = len(else_t) == 1 and len(if_t) == 1 and len(else_t[0]) == 2 and len(if_t[0]) == 2 and any(x.endswith(".default") for x in else_t[0])
            if not ok and not else_t and not if_t:
                obs.append(inconclusive("M-cond2arithm", key + f"::rewrite#{shapes}", C2A, n.lineno, m.qualname, "sum does not look like an indicator blend"))
                continue
            obs.append(Ob("M-cond2arithm", key + f"::rewrite#{shapes}", C2A, n.lineno, m.qualname, ok,
                          "right side becomes indicator * rhs + (1 - indicator) * default" if ok else f"`{src(n)[:80]}` is not indicator * rhs + (1 - indicator) * default"))
    if shapes < 2:
        raise AnalysisError("ConditionsToArithm: rewritten right sides not found")
    return obs


def mut_cond2arithm(repo: Repo) -> List[Mutant]:
    out = []
    ov = text_mutant(repo, C2A, "if arithm_cond == 1:", "if arithm_cond.is_Number:")
    if ov:
        out.append(Mutant("constant-condition-shortcut", ov, "fire", "drop-condition", control=True))
    ov = text_mutant(repo, C2A, "arithm_cond * p + (1 - arithm_cond) * assign.default", "arithm_cond * p + (1 - arithm_cond) * assign.variable")
    if ov:
        out.append(Mutant("else-uses-target", ov, "fire", "rewrite"))
    ov = text_mutant(repo, C2A, "arithm_cond * new_var + (1 - arithm_cond) * assign.default", "arithm_cond * new_var + assign.default")
    if ov:
        out.append(Mutant("else-unweighted", ov, "fire", "rewrite"))
    return out


# ------------------------------------------------------------------ recurrence builder: fresh context per backward pass
RB = "recurrences/rec_builder.py"


def rule_fresh_context(repo: Repo) -> List[Ob]:
    obs = []
    cls = repo.cls("RecBuilder", RB)
    n = 0
    from ..shape import expanded, callers_of
    for m in cls.all_methods:
        if m.name.startswith("_") and any(g.cls is cls and any(isinstance(x, ast.Call) and call_name(x) == "_replace_assign" for x in walk_no_nested(expanded(repo, g, keep=("_replace_assign",)))) and
                                          not any(isinstance(x, ast.Call) and call_name(x) == "_replace_assign" for x in walk_no_nested(g.node)) for g in callers_of(repo, m)):
            continue      # a private helper holding the loop of a backward pass: judged in its caller, where it is read in place
        mx = expanded(repo, m, keep=("_replace_assign",))
        calls = [x for x in walk_no_nested(mx) if isinstance(x, ast.Call) and call_name(x) == "_replace_assign" and isinstance(x.func, ast.Attribute)
                 and isinstance(x.func.value, ast.Name) and x.func.value.id == m.params()[0]]
        if not calls:
            continue
        n += 1
        c = cfg_of(mx)
        fresh = [s for s in walk_no_nested(mx) if isinstance(s, ast.Assign) and any(is_self_attr(t, "context", m.params()[0]) for t in s.targets)
                 and isinstance(s.value, ast.Call) and call_name(s.value) == "RecBuilderContext"]
        if not fresh:
            # a helper of the class that installs a fresh context
            for s in walk_no_nested(mx):
                if isinstance(s, ast.Expr) and isinstance(s.value, ast.Call) and isinstance(s.value.func, ast.Attribute) and isinstance(s.value.func.value, ast.Name) \
                        and s.value.func.value.id == m.params()[0]:
                    h = cls.find_method(s.value.func.attr)
                    if h is not None and any(isinstance(x, ast.Assign) and any(is_self_attr(t, "context", h.params()[0]) for t in x.targets)
                                             and isinstance(x.value, ast.Call) and call_name(x.value) == "RecBuilderContext" for x in walk_no_nested(h.node)):
                        fresh.append(s)
        heads = loop_heads(c)
        ok = bool(fresh) and c.dominates(node_for(c, fresh[0]), node_for(c, calls[0])) and not any(any(a is h.stmt for a in ancestors(fresh[0])) for h in heads)
        obs.append(Ob("M-fresh-context", f"{RB}::{m.qualname}::context", RB, m.node.lineno, m.qualname, ok,
                      "each backward pass over the assignments starts with a fresh RecBuilderContext (no triggers from earlier queries)" if ok else
                      "the backward substitution runs on a context that survives from earlier queries: triggers registered for one monomial redirect the substitution of the next"))
    if n < 2:
        raise AnalysisError("RecBuilder: backward passes not found")
    # the context class starts empty
    ctx = repo.cls("RecBuilderContext", "recurrences/rec_builder_context.py")
    init = ctx.methods.get("__init__")
    empties = [s for s in walk_no_nested(init.node) if isinstance(s, ast.Assign) and isinstance(s.value, ast.Dict) and not s.value.keys] if init else []
    obs.append(Ob("M-fresh-context", "recurrences/rec_builder_context.py::RecBuilderContext.__init__::empty", ctx.relpath, init.node.lineno if init else 0, "RecBuilderContext.__init__",
                  len(empties) >= 3, "a new context has empty trigger / functional-assignment tables" if len(empties) >= 3 else "context tables are not created empty per instance"))
    return obs


def mut_fresh_context(repo: Repo) -> List[Mutant]:
    def tr(tree):
        cls = find_def(tree, "RecBuilder")
        changed = False
        for fn in cls.body:
            if isinstance(fn, ast.FunctionDef) and fn.name in ("get_recurrence", "get_initial_value"):
                for i, s in enumerate(fn.body):
                    if isinstance(s, ast.Assign) and "RecBuilderContext()" in src(s):
                        del fn.body[i]
                        changed = True
                        break
            if isinstance(fn, ast.FunctionDef) and fn.name == "__init__":
                fn.body.append(ast.parse("self.context = RecBuilderContext()").body[0])
        return changed
    ov = mutate_module(repo, RB, tr)
    return [Mutant("context-created-once", ov, "fire", "::context", control=True)] if ov else []


# ------------------------------------------------------------------ per-section tables of UpdateInfoTransformer
UIT = "program/transformer/update_info_transformer.py"


def rule_section_tables(repo: Repo) -> List[Ob]:
    """tables about "unconditioned constant / draw" are valid within one section only"""
    cls = repo.cls("UpdateInfoTransformer", UIT)
    helper = None
    for m in cls.all_methods:
        if any(isinstance(s, ast.Assign) and any(is_self_attr(getattr(t, "value", None), None) is False and isinstance(t, ast.Attribute) and t.attr == "argument_dist" for t in s.targets)
               for s in walk_no_nested(m.node)):
            helper = m
    if helper is None:
        raise AnalysisError("UpdateInfoTransformer: resolver of functional arguments not found")
    obs = []
    calls = []
    for m in cls.all_methods:
        for c in walk_no_nested(m.node):
            if isinstance(c, ast.Call) and call_name(c) == helper.name and c.args:
                calls.append((m, c))
    secs = set()
    ok = True if calls else None
    for m, c in calls:
        a = src(c.args[0])
        if re.fullmatch(r"(self\.)?program\.(initial|loop_body)", a):
            secs.add(a.split(".")[-1])
        elif "initial" in a and "loop_body" in a:
            ok = False
        elif ok is not False:
            ok = None
    if ok is True and secs != {"initial", "loop_body"}:
        ok = None
    _emit(obs, "M-section-tables", f"{UIT}::{helper.qualname}::per-section", UIT, calls[0][1].lineno if calls else helper.node.lineno, helper.qualname, ok,
                  "functional arguments are resolved separately for the initial block and the loop body (tables of unconditioned constants / draws never cross the loop head)" if ok else
                  f"the resolver is called with {[src(c.args[0]) for _, c in calls]}: facts about the initial block (x is the constant 1) survive into the loop body where x is updated" if ok is False else "calls of the resolver not recognised")
    # the tables are created inside the resolver: what was recorded for one section is not visible to the next
    hself = helper.params()[0] if helper.params() else "self"
    hdefs = Defs(helper.node, hself)
    tabs = {}
    for n in walk_no_nested(helper.node):
        if isinstance(n, ast.Assign) and isinstance(n.targets[0], ast.Subscript) and isinstance(n.targets[0].value, (ast.Name, ast.Attribute)):
            tabs.setdefault(src(n.targets[0].value), n)
    fresh = None
    stale = []
    for tname, site in tabs.items():
        if tname.startswith(hself + "."):
            # a field: fresh only if the resolver itself re-creates it before use
            attr = tname.split(".", 1)[1]
            recreated = any(isinstance(x, ast.Assign) and any(is_self_attr(t, attr, hself) for t in x.targets) and isinstance(x.value, (ast.Dict, ast.Call)) for x in walk_no_nested(helper.node))
            if not recreated:
                stale.append(tname)
            continue
        vals = hdefs.defs.get(tname, [])
        whole = [v for v, st in zip(vals, hdefs.def_sites.get(tname, [])) if isinstance(st, ast.Assign) and isinstance(v, ast.expr) and not isinstance(st.targets[0], ast.Subscript)]
        for v in whole:
            if is_self_attr(v, None, hself) or (isinstance(v, ast.Name) and v.id in helper.params()):
                stale.append(f"{tname} = {src(v)}")
            elif isinstance(v, ast.Dict) and not v.keys:
                fresh = True if fresh is None else fresh
    if tabs:
        _emit(obs, "M-section-tables", f"{UIT}::{helper.qualname}::fresh-per-section", UIT, helper.node.lineno, helper.qualname,
              False if stale else fresh,
              (f"the tables of unconditioned constants / draws ({', '.join(stale)}) outlive one call of the resolver: what the initial block recorded about a variable is still believed in the loop body, "
               "where the variable may be re-assigned conditionally -- the refusal `no unconditional distribution` turns into a wrong moment") if stale else
              "the tables are created empty inside the resolver (one set per section)" if fresh else "creation of the tables not recognised")
    # within a section the tables only record *unconditioned* assignments
    conds = [n for n in walk_no_nested(helper.node) if isinstance(n, ast.If) and "isinstance" in src(n.test) and ("DistAssignment" in src(n.test) or "PolyAssignment" in src(n.test))]
    ok2 = None
    if len(conds) >= 2:
        from .validate import helper_bodies
        verdicts = []
        for n in conds:
            text = src(n.test) + " ".join(src(h.node) for h in helper_bodies(repo, helper, n.test))
            if "TrueCond" in text:
                verdicts.append(True)
            else:
                # a call that is not isinstance(...) and was not resolved may hide the test
                other = [c for c in ast.walk(n.test) if isinstance(c, ast.Call) and call_name(c) != "isinstance"]
                verdicts.append(None if other else False)
        ok2 = False if False in verdicts else None if None in verdicts else True
    _emit(obs, "M-section-tables", f"{UIT}::{helper.qualname}::unconditioned-only", UIT, helper.node.lineno, helper.qualname, ok2,
          "only unconditioned draws / constants are recorded as the meaning of a variable" if ok2 else ("a conditioned assignment can be recorded as the value of a functional argument" if ok2 is False else "recording tests not recognised"))
    # a later assignment to a variable invalidates what the tables say about it: every table is purged of the assigned variable for every
    # assignment of the section (x = 3; x = Normal(0,1); s = Sin(x) must not resolve to Sin(3))
    hx0 = helper.node
    sec_loops = [l for l in walk_no_nested(hx0) if isinstance(l, ast.For) and isinstance(l.target, ast.Name) and isinstance(l.iter, ast.Name) and l.iter.id in helper.params()]
    local_tabs = sorted(t for t in tabs if "." not in t)
    if sec_loops and local_tabs:
        loop = sec_loops[0]
        el = loop.target.id
        purged = set()
        for x in ast.walk(loop):
            # T.pop(elem.variable, None) / del T[elem.variable] / T.discard(...)   -- or the same through `for table in (T1, T2, T3): table.pop(...)`
            tgt = None
            if isinstance(x, ast.Call) and call_name(x) in ("pop", "discard") and isinstance(x.func, ast.Attribute) and x.args and src(x.args[0]) == f"{el}.variable":
                tgt = x.func.value
            elif isinstance(x, ast.Delete) and x.targets and isinstance(x.targets[0], ast.Subscript) and src(x.targets[0].slice) == f"{el}.variable":
                tgt = x.targets[0].value
            if tgt is None:
                continue
            if isinstance(tgt, ast.Name) and tgt.id in local_tabs:
                purged.add(tgt.id)
            elif isinstance(tgt, ast.Name):
                for a in ancestors(x):
                    if isinstance(a, ast.For) and isinstance(a.target, ast.Name) and a.target.id == tgt.id and isinstance(a.iter, (ast.Tuple, ast.List)):
                        purged |= {e.id for e in a.iter.elts if isinstance(e, ast.Name)}
        # the purge runs for every element: it is not nested under a type / condition test
        keyp = f"{UIT}::{helper.qualname}::purge-on-reassignment"
        missing_p = [t for t in local_tabs if t not in purged]
        if not missing_p:
            obs.append(Ob("M-section-tables", keyp, UIT, loop.lineno, helper.qualname, True, "every assignment first removes its variable from all tables"))
        else:
            obs.append(Ob("M-section-tables", keyp, UIT, loop.lineno, helper.qualname, False,
                          f"nothing removes a re-assigned variable from {missing_p}: `x = 3; x = Normal(0,1); s = Sin(x)` is resolved with the first fact recorded about x "
                          "(E(s) = sin(3)), the entry of the earlier assignment survives the later one"))
    # the table of draws holds the distribution of a *drawing* assignment under the drawn variable; a variable that merely copies a drawn
    # variable is the same random quantity, not a second draw with the same law: it belongs into the table of references
    from ..shape import expanded as _expanded
    hx = _expanded(repo, helper)
    dist_tabs = {src(x.value.value) for x in walk_no_nested(hx) if isinstance(x, ast.Assign) and any(isinstance(t, ast.Attribute) and t.attr == "argument_dist" for t in x.targets)
                 and isinstance(x.value, ast.Subscript)}
    for dt in sorted(dist_tabs):
        stores_ = [x for x in walk_no_nested(hx) if isinstance(x, ast.Assign) and isinstance(x.targets[0], ast.Subscript) and src(x.targets[0].value) == dt]
        keyd = f"{UIT}::{helper.qualname}::draw-table"
        copies = [x for x in stores_ if any(isinstance(y, ast.Subscript) and src(y.value) == dt and isinstance(y.ctx, ast.Load) for y in ast.walk(x.value))]
        nondist = [x for x in stores_ if x not in copies and not any(isinstance(y, ast.Attribute) and y.attr == "distribution" for y in ast.walk(x.value))]
        if copies:
            obs.append(Ob("M-section-tables", keyd, UIT, copies[0].lineno, helper.qualname, False,
                          f"`{src(copies[0])[:80]}` records a variable that copies a drawn variable as a draw of its own: functionals of the copy are evaluated as if it were independent of the "
                          "original (E(x*Sin(y)) with y = x becomes E(x)*E(Sin(x)))"))
        elif stores_ and not nondist:
            obs.append(Ob("M-section-tables", keyd, UIT, stores_[0].lineno, helper.qualname, True, "the table of draws is filled only with the distributions of drawing assignments"))
        elif stores_:
            obs.append(inconclusive("M-section-tables", keyd, UIT, nondist[0].lineno, helper.qualname, f"`{src(nondist[0])[:60]}` stores something that is not recognised as the distribution of the assignment"))
    return obs


def mut_section_tables(repo: Repo) -> List[Mutant]:
    def merged(tree):
        fn = find_def(tree, "UpdateInfoTransformer.execute")
        idx = [i for i, s in enumerate(fn.body) if "_set_dists_for_func_assignments" in src(s)]
        if len(idx) != 2:
            return False
        fn.body[idx[0]] = ast.parse("self._set_dists_for_func_assignments(self.program.initial + self.program.loop_body)").body[0]
        del fn.body[idx[1]]
        return True
    ov = mutate_module(repo, UIT, merged)
    out = [Mutant("one-pass-over-both-sections", ov, "fire", "per-section", control=True)] if ov else []
    ov = text_mutant(repo, UIT, "isinstance(assign, DistAssignment) and assign.condition == TrueCond()", "isinstance(assign, DistAssignment)")
    if ov:
        out.append(Mutant("conditioned-draw-recorded", ov, "fire", "unconditioned-only"))
    return out


# ------------------------------------------------------------------ solver caches live as long as their program
def rule_solver_scope(repo: Repo) -> List[Ob]:
    """every dict handed to get_moment*/get_all_moments* as `solvers` is created together with the
    RecBuilder of the same program (same function for locals, same method for attributes)"""
    obs = []
    n = 0
    for cls in repo.classes:
        if not cls.relpath.startswith("cli/"):
            continue
        writers: Dict[str, Set[str]] = {}
        for m in cls.all_methods:
            selfn = m.params()[0] if m.params() else "self"
            for s in walk_no_nested(m.node):
                if isinstance(s, ast.Assign):
                    for t in s.targets:
                        if is_self_attr(t, None, selfn):
                            writers.setdefault(t.attr, set()).add(m.name)
        uses = set()
        for m in cls.all_methods:
            for c in walk_no_nested(m.node):
                if isinstance(c, ast.Call) and call_name(c) in ("get_moment", "get_moment_poly", "get_all_moments", "get_moment_given_termination", "get_all_moments_given_termination"):
                    for a in c.args:
                        if is_self_attr(a, None, m.params()[0]) and a.attr in writers and ("solver" in a.attr):
                            uses.add(a.attr)
        for attr in sorted(uses):
            n += 1
            w = writers.get(attr, set())
            prog_w = writers.get("program", set()) | writers.get("rec_builder", set())
            ok = bool(w) and w <= (writers.get("rec_builder", set()) & writers.get("program", set())) if "rec_builder" in writers and "program" in writers else False
            obs.append(Ob("M-solver-scope", f"{cls.relpath}::{cls.name}::{attr}", cls.relpath, cls.node.lineno, cls.name, ok,
                          f"self.{attr} is (re)created exactly where self.program / self.rec_builder are bound ({sorted(w)})" if ok else
                          f"self.{attr} is created in {sorted(w)} but the program is bound in {sorted(prog_w)}: solvers computed for one benchmark answer the same monomial of the next"))
    # local dicts: created in the same function as the RecBuilder they are used with
    for f in repo.functions:
        if not f.relpath.startswith("cli/"):
            continue
        defs = None
        for c in walk_no_nested(f.node):
            if isinstance(c, ast.Call) and call_name(c) in ("get_moment", "get_moment_poly", "get_all_moments", "get_moment_given_termination", "get_all_moments_given_termination"):
                for a in c.args:
                    if isinstance(a, (ast.Name, ast.Dict)):
                        if defs is None:
                            defs = Defs(f.node, f.params()[0] if f.params() else None)
                        if isinstance(a, ast.Dict) and not a.keys:
                            continue
                        if isinstance(a, ast.Name) and a.id in defs.defs and any(isinstance(v, ast.Dict) for v in defs.defs[a.id]):
                            n += 1
                            rb = any(isinstance(x, ast.Call) and call_name(x) in ("RecBuilder", "DiffRecBuilder") for x in walk_no_nested(f.node))
                            in_loop = any(isinstance(anc, (ast.For, ast.While)) for s in defs.def_sites.get(a.id, []) for anc in ancestors(s)) is False and \
                                any(isinstance(anc, (ast.For, ast.While)) for anc in ancestors(c)) and not rb
                            obs.append(Ob("M-solver-scope", f"{f.relpath}::{f.qualname}::{a.id}", f.relpath, c.lineno, f.qualname, rb and not in_loop,
                                          f"local solver table `{a.id}` lives in the function that builds the RecBuilder" if rb else
                                          f"local solver table `{a.id}` is not created next to a RecBuilder for the same program"))
    if n < 3:
        raise AnalysisError(f"only {n} solver tables found")
    return obs


def mut_solver_scope(repo: Repo) -> List[Mutant]:
    def tr(tree):
        cls = find_def(tree, "GoalsAction")
        moved = None
        for fn in cls.body:
            if isinstance(fn, ast.FunctionDef) and fn.name == "initialize_program":
                for i, s in enumerate(fn.body):
                    if isinstance(s, ast.Assign) and src(s.targets[0]) == "self.solvers":
                        moved = fn.body.pop(i)
                        break
        if moved is None:
            return False
        for fn in cls.body:
            if isinstance(fn, ast.FunctionDef) and fn.name == "__init__":
                fn.body.append(moved)
                return True
        return False
    ov = mutate_module(repo, "cli/actions/goals_action.py", tr)
    return [Mutant("solvers-created-once-per-process", ov, "fire", "GoalsAction::solvers", control=True)] if ov else []


# ------------------------------------------------------------------ guard mark is put on the finished object
def rule_mark_last(repo: Repo) -> List[Ob]:
    obs = []
    n = 0
    for f in repo.functions:
        if not f.relpath.startswith("program/condition/"):
            continue
        c = None
        for st in walk_no_nested(f.node):
            if isinstance(st, ast.Assign) and any(isinstance(t, ast.Attribute) and t.attr == "is_loop_guard" and isinstance(t.value, ast.Name) for t in st.targets):
                t = [t for t in st.targets if isinstance(t, ast.Attribute)][0]
                nm = t.value.id
                if c is None:
                    c = cfg_of(f.node)
                n += 1
                sn = node_for(c, st)
                later = [x for x in c.nodes if x.kind == "stmt" and isinstance(x.ast, ast.Assign) and any(isinstance(tt, ast.Name) and tt.id == nm for tt in x.ast.targets)
                         and x is not sn and c.reachable(sn, x)]
                returned = any(isinstance(r, ast.Return) and r.value is not None and any(isinstance(y, ast.Name) and y.id == nm for y in ast.walk(r.value)) for r in walk_no_nested(f.node))
                ok = returned and not later
                obs.append(Ob("M-mark-last", f"{f.relpath}::{f.qualname}::{nm}", f.relpath, st.lineno, f.qualname, ok,
                              f"the guard mark is put on `{nm}` after it has its final shape, and `{nm}` is what is returned" if ok else
                              f"`{nm}` is re-bound after the guard mark was set (line {later[0].ast.lineno if later else '?'}): the returned object (e.g. the whole disjunction of a normalised inequality) does not carry the mark"))
    if n < 2:
        raise AnalysisError("guard-mark propagation stores not found")
    return obs


def mut_mark_last(repo: Repo) -> List[Mutant]:
    def tr(tree):
        fn = find_def(tree, "Atom.get_normalized")
        mark = None
        for n in ast.walk(fn):
            if isinstance(n, ast.Assign) and "is_loop_guard" in src(n.targets[0]):
                mark = n
        if mark is None:
            return False
        fn.body.remove(mark)
        # put it before the statement that builds the result
        for i, s in enumerate(fn.body):
            if isinstance(s, ast.If) and "valid_values" in src(s.test):
                # mark inside the last branch before the loop
                last = s
                while last.orelse and isinstance(last.orelse[0], ast.If):
                    last = last.orelse[0]
                blk = last.orelse if last.orelse else last.body
                for j, x in enumerate(blk):
                    if isinstance(x, ast.For):
                        blk.insert(j, mark)
                        return True
        return False
    ov = mutate_module(repo, "program/condition/atom_cond.py", tr)
    return [Mutant("mark-before-disjunction-is-built", ov, "fire", "Atom.get_normalized", control=True)] if ov else []


# ------------------------------------------------------------------ functional moments: no constant shortcuts except at identity power 0
FA = "program/assignment/functional_assignment.py"


def resolve_alias_local(e, defs):
    from ..shape import resolve_alias as _ra
    return _ra(e, defs)


def rule_transform_terms(repo: Repo) -> List[Ob]:
    obs = []
    for qn, meth in (("FunctionalAssignment.get_trig_moment", "cf"), ("FunctionalAssignment.get_exp_moment", "mgf")):
        f = repo.function(FA, qn)
        defs = Defs(f.node, f.params()[0])
        c = cfg_of(f.node)
        # the variable that carries the transform value
        tv = [nm for nm, vals in defs.defs.items() if any(isinstance(v, ast.expr) and any(isinstance(x, ast.Call) and call_name(x) == meth for x in ast.walk(v)) for v in vals)]
        if not tv:
            raise AnalysisError(f"{qn}: transform term not found")
        idn = [nm for nm, vals in defs.defs.items() if any(isinstance(v, ast.expr) and "'Id'" in src(v) for v in vals)]
        # a, s, c = (powers.get(f, 0) for f in ("Id", "Sin", "Cos"))   /   e, a = powers.get("Exp", 0), powers.get("Id", 0)
        for nm, vals in defs.defs.items():
            for v in vals:
                if type(v).__name__ == "_Elem" and isinstance(getattr(v, "index", None), int):
                    e0 = v.expr
                    if isinstance(e0, (ast.Tuple, ast.List)) and v.index < len(e0.elts) and "'Id'" in src(e0.elts[v.index]):
                        idn.append(nm)
                    if isinstance(e0, (ast.GeneratorExp, ast.ListComp)) and len(e0.generators) == 1 and isinstance(e0.generators[0].iter, (ast.Tuple, ast.List)) \
                            and v.index < len(e0.generators[0].iter.elts) and src(e0.generators[0].iter.elts[v.index]) == "'Id'":
                        idn.append(nm)
        if not idn:
            obs.append(inconclusive("M-transform-term", f"{FA}::{qn}::identity-power", FA, f.node.lineno, qn, "the variable holding the power of the identity factor was not recognised"))
            continue
        for nm in tv:
            for v, site in zip(defs.defs[nm], defs.def_sites.get(nm, [])):
                if not isinstance(v, ast.expr) or isinstance(site, ast.AugAssign):
                    continue
                from ..shape import inline_locals
                key = f"{FA}::{qn}::{nm}::{src(v)[:30]}"
                v = inline_locals(v, defs, keep=set(idn) | set(tv) | {"t"})       # h = dist.get_moment(a); term = I ** a * h
                uses = any(isinstance(x, ast.Call) and call_name(x) == meth for x in ast.walk(v))
                if uses:
                    # derivative order and evaluation point
                    if any(isinstance(x, ast.Call) and call_name(x) == "diff" for x in ast.walk(v)):
                        d = [x for x in ast.walk(v) if isinstance(x, ast.Call) and call_name(x) == "diff"][0]
                        ok = len(d.args) == 3 and isinstance(d.args[2], ast.Name) and d.args[2].id in idn
                        obs.append(Ob("M-transform-term", key, FA, v.lineno, qn, ok,
                                      f"{meth} is differentiated `Id`-power times" if ok else f"`{src(d)[:60]}`: the derivative order is not the identity power"))
                        if meth == "cf" and ok:
                            # the symbolic derivative of a closed-form cf is substituted into only away from 0 (removable singularities: Beta gives 0, Uniform nan)
                            subs_ = [x for x in ast.walk(v) if isinstance(x, ast.Call) and call_name(x) in ("xreplace", "subs") and x.args and isinstance(x.args[0], ast.Dict) and x.args[0].values]
                            keyz = f"{FA}::{qn}::derivative-at-zero"
                            if subs_:
                                point = subs_[0].args[0].values[0]
                                from ..shape import conjuncts as _cj2
                                facts = []
                                for t_, reach_ in controlling_tests(c, node_for(c, site)):
                                    if isinstance(t_.ast, ast.expr) and isinstance(reach_, bool):
                                        facts += _cj2(t_.ast, reach_)
                                _keep = set(idn) | set(tv) | {"t"}

                                def _norm(e_):
                                    return src(inline_locals(e_, defs, keep=_keep, depth=6))
                                psrc = _norm(point)
                                nonzero = any(isinstance(fa, ast.Compare) and len(fa.ops) == 1 and
                                              {_norm(fa.left), _norm(fa.comparators[0])} == {psrc, "0"} and
                                              ((isinstance(fa.ops[0], ast.Eq) and tr is False) or (isinstance(fa.ops[0], ast.NotEq) and tr is True)) for fa, tr in facts)
                                obs.append(Ob("M-transform-term", keyz, FA, subs_[0].lineno, qn, nonzero,
                                              "the symbolic derivative of the cf is evaluated only at non-zero frequencies (at 0 the raw moment stands in)" if nonzero else
                                              f"`{src(subs_[0])[:70]}` substitutes the frequency into the symbolic derivative of the cf also when it is 0: closed-form cfs have a removable "
                                              "singularity there (Beta: the term silently becomes 0, Uniform: nan), the zero-frequency part of E(X**a cos(X)**2) is lost"))
                    else:
                        tests = controlling_tests(c, node_for(c, site))
                        def id_is_zero(t, reach) -> bool:
                            """the test outcome `reach` says that the identity power is 0:  p == 0 / 0 == p (true), p != 0 (false), not p (true), p (false)"""
                            a = t
                            while isinstance(a, ast.UnaryOp) and isinstance(a.op, ast.Not):
                                a, reach = a.operand, (not reach if isinstance(reach, bool) else reach)
                            if isinstance(a, ast.Name):
                                return a.id in idn and reach is False
                            if isinstance(a, ast.Compare) and len(a.ops) == 1 and isinstance(a.ops[0], (ast.Eq, ast.NotEq)):
                                l, r_ = a.left, a.comparators[0]
                                if isinstance(l, ast.Constant):
                                    l, r_ = r_, l
                                if isinstance(l, ast.Name) and l.id in idn and isinstance(r_, ast.Constant) and r_.value == 0:
                                    return reach is isinstance(a.ops[0], ast.Eq)
                            return False
                        from ..shape import conjuncts as _conj
                        ok = any(id_is_zero(a_, tr_) for t, reach in tests if isinstance(t.ast, ast.expr) and isinstance(reach, bool) for a_, tr_ in _conj(t.ast, reach))
                        obs.append(Ob("M-transform-term", key, FA, v.lineno, qn, ok,
                                      f"the plain {meth} value is used only when the identity power is 0" if ok else f"`{src(v)[:50]}` (no derivative) is not restricted to identity power 0"))
                    continue
                if isinstance(v, ast.Constant) and v.value == 0 and isinstance(site, ast.Assign) and nm == "result":
                    continue  # accumulator initialisation
                tests = controlling_tests(c, node_for(c, site))
                guarded = any(any(isinstance(y, ast.Name) and y.id in idn for y in ast.walk(t.ast)) for t, _ in tests)
                mom = [x for x in ast.walk(v) if isinstance(x, ast.Call) and call_name(x) == "get_moment"]
                if mom and guarded:
                    # a raw moment standing in for the a-th derivative at 0:  cf^(a)(0) = I**a * E(X**a),  mgf^(a)(0) = E(X**a)
                    order_ok = bool(mom[0].args) and isinstance(mom[0].args[0], ast.Name) and mom[0].args[0].id in idn
                    units = [x for x in ast.walk(v) if isinstance(x, ast.BinOp) and isinstance(x.op, ast.Pow) and any(isinstance(y, ast.Name) and y.id == "I" for y in ast.walk(x.left))]
                    if not order_ok:
                        obs.append(Ob("M-transform-term", key, FA, v.lineno, qn, False, f"`{src(v)[:60]}`: the moment standing in for the derivative at 0 is not of the identity power's order"))
                    elif meth == "cf":
                        good = len(units) == 1 and isinstance(units[0].left, ast.Name) and units[0].left.id == "I" and isinstance(units[0].right, ast.Name) and units[0].right.id in idn
                        neg = any(isinstance(u.left, ast.UnaryOp) and isinstance(u.left.op, ast.USub) for u in units) or not units
                        if good:
                            obs.append(Ob("M-transform-term", key, FA, v.lineno, qn, True, "the a-th derivative of the cf at 0 is replaced by I**a * E(X**a)"))
                        elif neg:
                            obs.append(Ob("M-transform-term", key, FA, v.lineno, qn, False,
                                          f"`{src(v)[:60]}` stands in for the a-th derivative of the cf at 0, which is I**a * E(X**a) (not (-I)**a, not the bare moment)"))
                        else:
                            obs.append(inconclusive("M-transform-term", key, FA, v.lineno, qn, f"unit factor of `{src(v)[:50]}` not recognised"))
                    else:
                        if units:
                            obs.append(Ob("M-transform-term", key, FA, v.lineno, qn, False, f"`{src(v)[:60]}`: the a-th derivative of the mgf at 0 is E(X**a) without a complex unit"))
                        else:
                            obs.append(Ob("M-transform-term", key, FA, v.lineno, qn, True, "the a-th derivative of the mgf at 0 is replaced by E(X**a)"))
                    continue
                obs.append(Ob("M-transform-term", key, FA, getattr(v, "lineno", f.node.lineno), qn, guarded,
                              f"shortcut `{nm} = {src(v)[:30]}` is taken only under a test on the identity power" if guarded else
                              f"`{nm} = {src(v)[:30]}` bypasses dist.{meth} without looking at the identity power: E(X^a f(X)) needs the a-th derivative even where the transform itself is trivial"))
    return obs


def mut_transform_terms(repo: Repo) -> List[Mutant]:
    def tr(tree):
        fn = find_def(tree, "FunctionalAssignment.get_trig_moment")
        for n in ast.walk(fn):
            if isinstance(n, ast.If) and "id_power == 0" in src(n.test) and isinstance(parent(n), ast.For):
                new = ast.parse("if 2 * (k1 + k2) - cos_power - sin_power == 0:\n    cf_term = 1\nelse:\n    pass").body[0]
                new.orelse = [n]
                blk = parent(n).body
                blk[blk.index(n)] = new
                return True
        return False
    ov = mutate_module(repo, FA, tr)
    out = [Mutant("frequency-zero-shortcut", ov, "fire", "get_trig_moment::cf_term", control=True)] if ov else []
    ov = text_mutant(repo, FA, "diff(dist.mgf(t), t, id_power)", "diff(dist.mgf(t), t, exp_power)")
    if ov:
        out.append(Mutant("derivative-order-is-exp-power", ov, "fire", "get_exp_moment::result"))
    return out


# ------------------------------------------------------------------ stochastic dependence of two variables
def rule_dependency_sources(repo: Repo) -> List[Ob]:
    """UpdateInfoTransformer decides `v1 depends on v2` by intersecting what the two variables are computed from.  A draw has
    no ancestors, so the variable itself has to be among its own sources: otherwise `u = Normal(0,1); x = u` makes x and u
    look independent, and a condition on u is abstracted into an independent coin next to an assignment that reads x."""
    cls = repo.cls("UpdateInfoTransformer", UIT)
    key = f"{UIT}::UpdateInfoTransformer::dependency-sources"
    for m in cls.all_methods:
        defs = Defs(m.node, m.params()[0] if m.params() else None)
        for loop in [n for n in walk_no_nested(m.node) if isinstance(n, ast.For) and isinstance(n.iter, ast.Call) and call_name(n.iter) == "combinations"
                     and isinstance(n.target, ast.Tuple) and len(n.target.elts) == 2]:
            v1, v2 = [e.id for e in loop.target.elts if isinstance(e, ast.Name)] if all(isinstance(e, ast.Name) for e in loop.target.elts) else (None, None)
            if v1 is None:
                continue
            tests = [n for n in ast.walk(loop) if isinstance(n, ast.If) and any(isinstance(x, ast.BinOp) and isinstance(x.op, ast.BitAnd) for x in ast.walk(n.test))]
            if not tests:
                tests = [n for n in ast.walk(loop) if isinstance(n, ast.If) and any(isinstance(x, ast.Call) and call_name(x) in ("isdisjoint", "intersection") for x in ast.walk(n.test))]
            if not tests:
                continue
            t = tests[0].test
            band = next((x for x in ast.walk(t) if isinstance(x, ast.BinOp) and isinstance(x.op, ast.BitAnd)), None)
            sides = [band.left, band.right] if band is not None else None
            if sides is None:
                c = next(x for x in ast.walk(t) if isinstance(x, ast.Call) and call_name(x) in ("isdisjoint", "intersection"))
                sides = [c.func.value, c.args[0]] if c.args else None
            if sides is None:
                continue
            from ..shape import resolve_alias as _ra

            def own(side, v):
                e = _ra(side, defs)
                txt = src(e)
                # loop-local names are inlined one level
                for nm in [x.id for x in ast.walk(e) if isinstance(x, ast.Name)]:
                    for d in defs.defs.get(nm, []):
                        if isinstance(d, ast.expr):
                            txt += " " + src(d)
                return any(f"{{{v}}}" in txt.replace(" ", "") for _ in [0]) or f"add({v})" in txt.replace(" ", "")
            anc_only = all("ancestors" in src(_ra(sd, defs)) or any("ancestors" in src(d) for nm in [x.id for x in ast.walk(sd) if isinstance(x, ast.Name)] for d in defs.defs.get(nm, []) if isinstance(d, ast.expr)) for sd in sides)
            has_own = own(sides[0], v1) and own(sides[1], v2) or own(sides[0], v2) and own(sides[1], v1)
            if has_own:
                return [Ob("M-dependency-sources", key, UIT, tests[0].lineno, m.qualname, True, "a (randomly assigned) variable counts among its own sources when two variables are tested for dependence")]
            if anc_only:
                return [Ob("M-dependency-sources", key, UIT, tests[0].lineno, m.qualname, False,
                           f"`{src(t)[:80]}` intersects the ancestors only: a draw has no ancestors, so a draw and its direct copy count as independent and a condition on the draw is abstracted as an independent coin")]
            return [inconclusive("M-dependency-sources", key, UIT, tests[0].lineno, m.qualname, "dependence test not recognised")]
    return [inconclusive("M-dependency-sources", key, UIT, cls.node.lineno, "UpdateInfoTransformer", "pairwise dependence computation not found")]


def mut_dependency_sources(repo: Repo) -> List[Mutant]:
    m = repo.module(UIT)
    text = ast.unparse(m.tree)
    a = "sources1 = info1.ancestors | ({v1} if v1 in random_variables else set())"
    b = "sources2 = info2.ancestors | ({v2} if v2 in random_variables else set())"
    if a in text and b in text:
        return [Mutant("ancestors-only", {UIT: text.replace(a, "sources1 = info1.ancestors").replace(b, "sources2 = info2.ancestors")}, "fire", "dependency-sources", control=True)]
    return []


# ------------------------------------------------------------------ dependency graph: an edge keeps its strongest kind
def rule_edge_max(repo: Repo) -> List[Ob]:
    """Graph.adj[v][u] is 0 (no edge), 1 (linear) or 2 (non-linear).  A variable can depend on another both linearly and non-linearly
    (x = x**2 {1/2} x + 1); add_edge is called once per occurrence, in any order.  The stored kind is the maximum of what was registered:
    a plain overwrite lets a later linear occurrence hide the non-linear one, a defective variable is classified effective and its
    recurrence system never closes."""
    f = repo.function("utils/graph.py", "Graph.add_edge")
    key = "utils/graph.py::Graph.add_edge::strongest-kind"
    selfn = f.params()[0]
    from ..shape import conjuncts as _cj
    stores = [st for st in walk_no_nested(f.node) if isinstance(st, (ast.Assign, ast.AugAssign)) and
              any(isinstance(t, ast.Subscript) and src(t).startswith(f"{selfn}.adj") for t in (st.targets if isinstance(st, ast.Assign) else [st.target]))]
    if not stores:
        return [inconclusive("M-edge-kind", key, f.relpath, f.node.lineno, f.qualname, "store into the adjacency matrix not recognised")]
    c = cfg_of(f.node)
    obs = []
    for st in stores:
        tgt = (st.targets[0] if isinstance(st, ast.Assign) else st.target)
        tsrc = src(tgt)
        val = st.value
        if isinstance(val, ast.Call) and call_name(val) == "max" and any(src(a) == tsrc for a in val.args):
            obs.append(Ob("M-edge-kind", key, f.relpath, st.lineno, f.qualname, True, "the stored kind is max(old, new)"))
            continue
        facts = []
        for t, reach in controlling_tests(c, node_for(c, st)):
            if isinstance(t.ast, ast.expr) and isinstance(reach, bool):
                facts += _cj(t.ast, reach)
        grows = False
        for fa, tr in facts:
            if isinstance(fa, ast.Compare) and len(fa.ops) == 1:
                l, r_, op = src(fa.left), src(fa.comparators[0]), type(fa.ops[0])
                newv = src(val)
                if tr and ((op in (ast.Gt, ast.GtE) and l == newv and r_ == tsrc) or (op in (ast.Lt, ast.LtE) and l == tsrc and r_ == newv)):
                    grows = True
                if not tr and ((op in (ast.LtE, ast.Lt) and l == newv and r_ == tsrc) or (op in (ast.GtE, ast.Gt) and l == tsrc and r_ == newv)):
                    grows = True
        if grows:
            obs.append(Ob("M-edge-kind", key, f.relpath, st.lineno, f.qualname, True, "an edge kind is overwritten only by a stronger one"))
        elif not facts:
            obs.append(Ob("M-edge-kind", key, f.relpath, st.lineno, f.qualname, False,
                          f"`{src(st)}` overwrites the kind of an edge unconditionally: the last registered occurrence wins, a later linear occurrence hides a non-linear dependency "
                          "(x = x**2 {1/2} x + 1 is classified effective, the analysis does not terminate instead of refusing)"))
        else:
            obs.append(inconclusive("M-edge-kind", key, f.relpath, st.lineno, f.qualname, "guard of the overwrite not recognised"))
    return obs


def mut_edge_max(repo: Repo) -> List[Mutant]:
    def tr(tree):
        fn = find_def(tree, "Graph.add_edge")
        for i, st in enumerate(fn.body):
            if isinstance(st, ast.If) and "adj" in src(st.test):
                fn.body[i:i + 1] = st.body
                return True
        return False
    ov = mutate_module(repo, "utils/graph.py", tr)
    out = [Mutant("last-edge-kind-wins", ov, "fire", "strongest-kind", control=True)] if ov else []
    ov = text_mutant(repo, "utils/graph.py", "if e > self.adj[v][u]:\n            self.adj[v][u] = e", "self.adj[v][u] = max(self.adj[v][u], e)")
    if ov:
        out.append(Mutant("benign-max-spelling", ov, "silent"))
    return out


# ------------------------------------------------------------------ the value of a functional assignment has a placeholder of its own
def rule_func_placeholder(repo: Repo) -> List[Ob]:
    """FunctionalAssignment.get_moment postpones E(f(x)**k ...) until the draw of x is reached and puts a symbol in its place.  The
    condition-false part of the same result is default**k, and the default of a conditioned assignment is the variable itself: the symbol
    standing for the NEW value must not be the variable, or `[c]*new + [not c]*old` collapses to one symbol and the old value is replaced
    by the functional moment as well."""
    f = repo.function(FA, "FunctionalAssignment.get_moment")
    key = f"{FA}::FunctionalAssignment.get_moment::placeholder"
    selfn = f.params()[0]
    trig = [c for c in walk_no_nested(f.node) if isinstance(c, ast.Call) and call_name(c) == "add_trigger" and len(c.args) >= 2]
    if not trig:
        return [inconclusive("M-func-placeholder", key, FA, f.node.lineno, f.qualname, "registration of the trigger not recognised")]
    defs = Defs(f.node, selfn)
    from ..shape import resolve_alias as _ra
    t = _ra(trig[0].args[1], defs)
    if is_self_attr(t, "variable", selfn):
        return [Ob("M-func-placeholder", key, FA, trig[0].lineno, f.qualname, False,
                   f"`{src(trig[0])[:70]}`: the assigned variable itself stands for the not yet computed functional value; in a conditioned assignment the kept old value is the same "
                   "symbol, so `if c: s = Cos(x)` is analysed as the unconditional `s = Cos(x)`")]
    if isinstance(t, ast.Call) or (isinstance(t, ast.Name)):
        return [Ob("M-func-placeholder", key, FA, trig[0].lineno, f.qualname, True, "the postponed functional value is represented by a symbol of its own")]
    return [inconclusive("M-func-placeholder", key, FA, trig[0].lineno, f.qualname, f"placeholder `{src(t)[:40]}` not recognised")]


def mut_func_placeholder(repo: Repo) -> List[Mutant]:
    def tr(tree):
        fn = find_def(tree, "FunctionalAssignment.get_moment")
        hit = False
        for n in ast.walk(fn):
            if isinstance(n, ast.Assign) and isinstance(n.targets[0], ast.Name) and n.targets[0].id == "placeholder":
                n.value = ast.parse("self.variable").body[0].value
                hit = True
        return hit
    ov = mutate_module(repo, FA, tr)
    return [Mutant("variable-is-its-own-placeholder", ov, "fire", "placeholder", control=True)] if ov else []


RULES = {
    "FUNCPLACEHOLDER": Rule("M-func-placeholder", rule_func_placeholder, 1, "the postponed value of a functional assignment is represented by a symbol different from the assigned variable", mut_func_placeholder, soft=True),
    "EDGEMAX": Rule("M-edge-kind", rule_edge_max, 1, "the dependency graph keeps the strongest kind registered for an edge", mut_edge_max, soft=True),
    "IFFLAT": Rule("M-if-flatten", rule_if_flattening, 6, "if/elif/else flattening: `_old` copies for every condition variable, renamed guard copies, accumulated negations, saving assignments first, else last", mut_if_flattening, soft=True),
    "MULTIASSIGN": Rule("M-multi-assign", rule_multi_assign, 3, "single-assignment renaming: pending renamings applied first, all but the last occurrence renamed, renaming cleared at the last", mut_multi_assign, soft=True),
    "DISTREWRITE": Rule("M-dist-rewrite", rule_dist_rewrite, 4, "location/scale rewriting of Normal/Uniform/Laplace/Exponential draws preserves the law (exact rational-function check of template and fresh parameters)", mut_dist_rewrite, soft=True),
    "COND2ARITHM": Rule("M-cond2arithm", rule_cond2arithm, 3, "conditions are dropped only for indicator 1 or after the right side was rewritten as ind*rhs + (1-ind)*default", mut_cond2arithm, soft=True),
    "FRESHCTX": Rule("M-fresh-context", rule_fresh_context, 3, "every backward substitution pass of RecBuilder starts from a fresh context", mut_fresh_context, soft=True),
    "SECTIONTABLES": Rule("M-section-tables", rule_section_tables, 2, "facts about unconditioned constants / draws are collected per section and only from unconditioned assignments", mut_section_tables, soft=True),
    "SOLVERSCOPE": Rule("M-solver-scope", rule_solver_scope, 3, "solver tables are created together with the program / RecBuilder they belong to", mut_solver_scope, soft=True),
    "MARKLAST": Rule("M-mark-last", rule_mark_last, 2, "guard marks are propagated onto the finished object that is returned", mut_mark_last, soft=True),
    "DEPSOURCES": Rule("M-dependency-sources", rule_dependency_sources, 1, "two variables are tested for stochastic dependence on their sources including the (random) variables themselves", mut_dependency_sources, soft=True),
    "TRANSFORMTERM": Rule("M-transform-term", rule_transform_terms, 4, "cf/mgf values enter functional moments through the transform (differentiated `Id`-power times); constant shortcuts only under a test on the identity power", mut_transform_terms, soft=True),
}
