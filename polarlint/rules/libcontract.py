"""Family F: contracts of library calls whose defaults / conventions matter, and
sibling agreement between the sampling side and the moment side of a distribution."""
import ast
from typing import Dict, List, Optional, Set, Tuple

from ..model import Repo, ClassInfo, FunctionInfo, AnalysisError, walk_no_nested, src, is_self_attr, call_name, dotted, \
    enclosing_stmt, parent, const_str, ancestors
from ..core import Ob, Rule, Mutant, mutate_module, find_def, replace_node, inconclusive, text_mutant
from ..dataflow import Defs
from ..ratfun import Normalizer, RF, Poly
from ..astq import flatten, norm, return_exprs
from ..cfg import cfg_of

DIST_BASE = ("Distribution", "program/distribution/distribution.py")

# scipy callee -> (number of positional shape parameters)
SCIPY_SHAPES = {"bernoulli": 1, "beta": 2, "expon": 0, "gamma": 1, "laplace": 0, "norm": 0, "truncnorm": 2, "uniform": 0}

# class -> (scipy object, [shape args], loc, scale, outer multiplier) in terms of the class's parameter fields.
# This is the *moment-side* convention of each family (documented in DESIGN 10.2); witness = the fields exist.
SAMPLER_CONTRACT = {
    "Bernoulli": ("bernoulli", ["$p"], "0", "1", "1"),
    "Beta": ("beta", ["$a", "$b"], "0", "$scale", "1"),
    "Exponential": ("expon", [], "0", "1/$lamb", "1"),
    "Gamma": ("gamma", ["$k"], "0", "$theta", "1"),
    "Laplace": ("laplace", [], "$mu", "$b", "1"),
    "Normal": ("norm", [], "$mu", "sqrt($sigma2)", "1"),
    "TruncNormal": ("truncnorm", ["($a - $mu)/sqrt($sigma2)", "($b - $mu)/sqrt($sigma2)"], "$mu", "sqrt($sigma2)", "1"),
    "Uniform": ("uniform", [], "$a", "$b - $a", "1"),
}
DISCRETE = {"Categorical", "DiscreteUniform"}


def _contract_rf(text: str) -> RF:
    e = ast.parse(text.replace("$", "F_"), mode="eval").body
    return Normalizer(name_cb=lambda n: RF(Poly.atom("$" + n[2:])) if n.startswith("F_") else None)(e)


def _field_normalizer(fn: FunctionInfo, defs: Defs) -> Normalizer:
    selfn = fn.params()[0] if fn.params() else "self"
    stack: List[str] = []

    def name_cb(name):
        if name in defs.defs and name not in defs.params and name not in stack:
            allvals = defs.defs[name]
            vals = [v for v in allvals if isinstance(v, ast.expr)]
            if len(vals) == 1 and len(allvals) == 1:
                stack.append(name)
                try:
                    return nz(vals[0])
                finally:
                    stack.pop()
            # a, b = [f(p) for p in (self.x, self.y)]   /   a, b = (f(self.x), f(self.y)) handled by Defs
            if len(allvals) == 1 and type(allvals[0]).__name__ == "_Elem":
                el = allvals[0]
                comp = el.expr
                if isinstance(comp, (ast.ListComp, ast.GeneratorExp)) and len(comp.generators) == 1 and not comp.generators[0].ifs \
                        and isinstance(comp.generators[0].iter, (ast.Tuple, ast.List)) and isinstance(comp.generators[0].target, ast.Name) \
                        and el.index < len(comp.generators[0].iter.elts):
                    tv = comp.generators[0].target.id
                    item = comp.generators[0].iter.elts[el.index]
                    saved = nz.subst.get(tv)
                    stack.append(name)
                    try:
                        nz.subst[tv] = nz(item)
                        return nz(comp.elt)
                    finally:
                        stack.pop()
                        if saved is None:
                            nz.subst.pop(tv, None)
                        else:
                            nz.subst[tv] = saved
        return None

    def attr_cb(a):
        if is_self_attr(a, None, selfn):
            return RF(Poly.atom("$" + a.attr))
        d = dotted(a)
        if d in ("math.pi",):
            return RF(Poly.atom("pi"))
        return None

    nz = Normalizer(name_cb, attr_cb)
    return nz


def dist_classes(repo: Repo) -> List[ClassInfo]:
    base = repo.cls(*DIST_BASE)
    return repo.subclasses(base)


# ------------------------------------------------------------------ samplers
def rule_samplers(repo: Repo) -> List[Ob]:
    obs = []
    for cls in dist_classes(repo):
        m = cls.methods.get("sample")
        if m is None:
            raise AnalysisError(f"{cls.name} has no sample method")
        key = f"{cls.relpath}::{cls.name}.sample"
        if cls.name in DISCRETE:
            continue  # covered by the enumeration rule
        if cls.name not in SAMPLER_CONTRACT:
            obs.append(Ob("F-sampler", key + "::unknown-family", cls.relpath, m.node.lineno, m.qualname, False,
                          f"distribution family {cls.name} has no reviewed sampler contract (DESIGN 10.2)"))
            continue
        obj, shapes, loc, scale, mult = SAMPLER_CONTRACT[cls.name]
        defs = Defs(m.node, m.params()[0])
        nz = _field_normalizer(m, defs)
        # a sampler must not keep state on the distribution object (parameters may depend on the program state)
        selfn_ = m.params()[0]
        stores = [n for n in walk_no_nested(m.node) if isinstance(n, (ast.Assign, ast.AugAssign)) and
                  any(is_self_attr(t, None, selfn_) for t in (n.targets if isinstance(n, ast.Assign) else [n.target]))]
        if stores:
            obs.append(Ob("F-sampler", key + "::stateless", cls.relpath, stores[0].lineno, m.qualname, False,
                          f"`{src(stores[0])[:60]}`: {cls.name}.sample stores on the distribution object; a later draw with other (state-dependent) parameters reuses it"))
            continue
        calls = [c for c in walk_no_nested(m.node) if isinstance(c, ast.Call) and call_name(c) == "rvs"]
        if len(calls) != 1:
            obs.append(inconclusive("F-sampler", key + "::rvs", cls.relpath, m.node.lineno, m.qualname,
                                    f"{len(calls)} scipy `.rvs(` calls in {cls.name}.sample (sampler delegated or restructured)"))
            continue
        call = calls[0]
        callee = dotted(call.func) or ""
        got_obj = callee.split(".")[-2] if "." in callee else ""
        imp = cls.module.imports.get(got_obj)
        frozen = None
        if (not imp) and isinstance(call.func, ast.Attribute) and isinstance(call.func.value, ast.Name):
            # rv = norm(loc=.., scale=..); rv.rvs()
            fv = [v for v in defs.defs.get(call.func.value.id, []) if isinstance(v, ast.Call)]
            if len(fv) == 1 and isinstance(fv[0].func, ast.Name) and cls.module.imports.get(fv[0].func.id, ("", ""))[0].startswith("scipy"):
                frozen = fv[0]
                got_obj = fv[0].func.id
                imp = cls.module.imports.get(got_obj)
        if not imp or not imp[0].startswith("scipy"):
            obs.append(inconclusive("F-sampler", key + "::callee", cls.relpath, call.lineno, m.qualname, f"`{callee}` is not a scipy.stats object imported in this module"))
            continue
        if got_obj != obj:
            obs.append(Ob("F-sampler", key + "::callee", cls.relpath, call.lineno, m.qualname, False,
                          f"{cls.name}.sample draws from scipy.stats.{got_obj}, the moment side is a {obj} law"))
            continue
        if frozen is not None:
            call = ast.Call(func=frozen.func, args=frozen.args, keywords=frozen.keywords)
            call.lineno = frozen.lineno
            for ch in ast.iter_child_nodes(call):
                pass
        nshape = SCIPY_SHAPES[obj]
        pos = list(call.args)
        kws = {k.arg: k.value for k in call.keywords if k.arg}
        if any(isinstance(a, ast.Starred) for a in pos) or any(k.arg is None for k in call.keywords):
            raise AnalysisError(f"{m.key}: star-arguments in rvs call")
        names = ["loc", "scale", "size"]
        for i, a in enumerate(pos[nshape:]):
            if i < len(names):
                kws.setdefault(names[i], a)
        got_shapes = pos[:nshape]
        try:
            cells = []
            for i, want in enumerate(shapes):
                if i >= len(got_shapes):
                    cells.append((f"shape{i}", None, _contract_rf(want)))
                else:
                    cells.append((f"shape{i}", nz(got_shapes[i]), _contract_rf(want)))
            # effective loc/scale: an outer `X * call` / `call * X` multiplies both
            g_loc = nz(kws["loc"]) if "loc" in kws else RF(Poly.const(0))
            g_scale = nz(kws["scale"]) if "scale" in kws else RF(Poly.const(1))
            # the affine map applied to the draw on its way to the return:  scale * draw,  loc + draw,  d = draw; return s * d
            site, hops = calls[0], 0
            while hops < 12:
                hops += 1
                p = parent(site)
                if isinstance(p, ast.BinOp) and isinstance(p.op, ast.Mult):
                    other = nz(p.right if p.left is site else p.left)
                    g_loc, g_scale = g_loc * other, g_scale * other
                elif isinstance(p, ast.BinOp) and isinstance(p.op, ast.Add):
                    g_loc = g_loc + nz(p.right if p.left is site else p.left)
                elif isinstance(p, ast.BinOp) and isinstance(p.op, ast.Sub):
                    if p.left is site:
                        g_loc = g_loc - nz(p.right)
                    else:
                        g_loc, g_scale = nz(p.left) - g_loc, -g_scale
                elif isinstance(p, ast.Assign) and len(p.targets) == 1 and isinstance(p.targets[0], ast.Name) and p.value is site:
                    nm_ = p.targets[0].id
                    loads = [x for x in walk_no_nested(m.node) if isinstance(x, ast.Name) and x.id == nm_ and isinstance(x.ctx, ast.Load)]
                    if len(defs.defs.get(nm_, [])) != 1 or len(loads) != 1:
                        raise AnalysisError(f"the draw is kept in `{nm_}`, which is not used exactly once")
                    site = loads[0]
                    continue
                else:
                    break
                site = p
            cells.append(("loc", g_loc, _contract_rf(loc)))
            cells.append(("scale", g_scale, _contract_rf(scale)))
        except AnalysisError as e:
            obs.append(inconclusive("F-sampler", key + "::args", cls.relpath, calls[0].lineno, m.qualname, f"sampler arguments not normalisable ({e})"))
            continue
        # an argument that still mentions a plain local (not resolved to a parameter field) cannot be judged
        unresolved = [n_ for n_, got, want in cells if got is not None and any(not a.startswith(("$", "sqrt[", "pi")) and not a.replace(".", "").isdigit()
                                                                            for mono in list(got.n.t) + list(got.d.t) for a, _ in mono)]
        if unresolved:
            obs.append(inconclusive("F-sampler", key + "::args", cls.relpath, calls[0].lineno, m.qualname, f"arguments {unresolved} mention locals that could not be traced to parameter fields"))
            continue
        for name, got, want in cells:
            ok = got is not None and got.equiv(want)
            obs.append(Ob("F-sampler", f"{key}::{name}", cls.relpath, call.lineno, m.qualname, ok,
                          f"{obj}.rvs {name} = {got.canon() if got else None}" + ("" if ok else f", the moment side needs {want.canon()}"),
                          witness=src(call)))
    return obs


def mut_samplers(repo: Repo) -> List[Mutant]:
    out = []

    def swap_kw(tree, cname, a, b):
        fn = find_def(tree, f"{cname}.sample")
        if fn is None:
            return False
        for c in ast.walk(fn):
            if isinstance(c, ast.Call) and call_name(c) == "rvs":
                ka = [k for k in c.keywords if k.arg == a]
                kb = [k for k in c.keywords if k.arg == b]
                if ka and kb:
                    ka[0].value, kb[0].value = kb[0].value, ka[0].value
                    return True
        return False

    for i, (cname, rp) in enumerate([("Laplace", "program/distribution/laplace.py"), ("Normal", "program/distribution/normal.py"),
                                     ("Uniform", "program/distribution/uniform.py")]):
        ov = mutate_module(repo, rp, lambda t, cname=cname: swap_kw(t, cname, "loc", "scale"))
        if ov:
            out.append(Mutant(f"swap-loc-scale:{cname}", ov, "fire", f"{cname}.sample", control=(i == 0)))

    def expon_rate(tree):
        fn = find_def(tree, "Exponential.sample")
        for c in ast.walk(fn):
            if isinstance(c, ast.Call) and call_name(c) == "rvs":
                for k in c.keywords:
                    if k.arg == "scale" and isinstance(k.value, ast.BinOp):
                        k.value = k.value.right
                        return True
        return False
    ov = mutate_module(repo, "program/distribution/exponential.py", expon_rate)
    if ov:
        out.append(Mutant("expon-scale-is-rate", ov, "fire", "Exponential.sample::scale"))

    def normal_var_as_std(tree):
        fn = find_def(tree, "Normal.sample")
        for c in ast.walk(fn):
            if isinstance(c, ast.Call) and call_name(c) == "rvs":
                for k in c.keywords:
                    if k.arg == "scale" and isinstance(k.value, ast.Call):
                        k.value = k.value.args[0]
                        return True
        return False
    ov = mutate_module(repo, "program/distribution/normal.py", normal_var_as_std)
    if ov:
        out.append(Mutant("normal-variance-as-std", ov, "fire", "Normal.sample::scale"))

    def gamma_swap(tree):
        fn = find_def(tree, "Gamma.sample")
        for c in ast.walk(fn):
            if isinstance(c, ast.Call) and call_name(c) == "rvs" and c.args and c.keywords:
                c.args[0], c.keywords[0].value = c.keywords[0].value, c.args[0]
                return True
        return False
    ov = mutate_module(repo, "program/distribution/gamma.py", gamma_swap)
    if ov:
        out.append(Mutant("gamma-shape-scale-swapped", ov, "fire", "Gamma.sample"))

    def beta_drop_scale(tree):
        fn = find_def(tree, "Beta.sample")
        for n in ast.walk(fn):
            if isinstance(n, ast.Return) and isinstance(n.value, ast.BinOp):
                n.value = n.value.right if isinstance(n.value.right, ast.Call) else n.value.left
                return True
        return False
    ov = mutate_module(repo, "program/distribution/beta.py", beta_drop_scale)
    if ov:
        out.append(Mutant("beta-sample-unscaled", ov, "fire", "Beta.sample::scale"))

    def benign_positional(tree):
        fn = find_def(tree, "Laplace.sample")
        for c in ast.walk(fn):
            if isinstance(c, ast.Call) and call_name(c) == "rvs":
                kw = {k.arg: k.value for k in c.keywords}
                c.args = [kw["loc"], kw["scale"]]
                c.keywords = []
                return True
        return False
    ov = mutate_module(repo, "program/distribution/laplace.py", benign_positional)
    if ov:
        out.append(Mutant("benign-positional-loc-scale", ov, "silent"))

    def benign_uniform(tree):
        fn = find_def(tree, "Uniform.sample")
        for c in ast.walk(fn):
            if isinstance(c, ast.Call) and call_name(c) == "rvs":
                for k in c.keywords:
                    if k.arg == "scale":
                        k.value = ast.parse("-(float(a) - float(b))").body[0].value
                        return True
        return False
    ov = mutate_module(repo, "program/distribution/uniform.py", benign_uniform)
    if ov:
        out.append(Mutant("benign-uniform-scale-rewritten", ov, "silent"))
    return out


# ------------------------------------------------------------------ discrete enumerations agree
def _range_len_of(e, defs: Defs, field: str, selfn: str) -> bool:
    """e is range(len(X)) with X derived from self.<field> (single-argument range: starts at 0)."""
    if isinstance(e, ast.Call) and call_name(e) == "range" and len(e.args) == 1 and not e.keywords:
        a = e.args[0]
        if isinstance(a, ast.Call) and call_name(a) == "len" and len(a.args) == 1:
            return f"{selfn}.{field}" in defs.roots(a.args[0])
    return False


def rule_enumeration(repo: Repo) -> List[Ob]:
    """Discrete supports, samplers and moment sums enumerate the same values.  Each obligation is
    BAD only on positive evidence (an offset in a range/enumerate, swapped population/weights, a
    de-duplicating container, an exclusive upper bound); unrecognised shapes are inconclusive."""
    obs = []
    R = "F-enumeration"

    def emit(key, rp, line, qn, verdict, msg):
        if verdict is None:
            obs.append(inconclusive(R, key, rp, line, qn, msg))
        else:
            obs.append(Ob(R, key, rp, line, qn, verdict, msg))

    # --- Categorical: values are the positions 0..len-1 in support, sampler and moment
    cat = repo.cls("Categorical", "program/distribution/categorical.py")
    f = "probabilities"
    for mname in ("get_support", "sample", "get_moment"):
        m = cat.methods.get(mname)
        if m is None:
            raise AnalysisError(f"Categorical.{mname} missing")
        selfn = m.params()[0]
        defs = Defs(m.node, selfn)
        key = f"{cat.relpath}::Categorical.{mname}::enumeration"
        ranges = [c for c in walk_no_nested(m.node) if isinstance(c, ast.Call) and isinstance(c.func, ast.Name) and c.func.id == "range"]
        enums = [c for c in walk_no_nested(m.node) if isinstance(c, ast.Call) and isinstance(c.func, ast.Name) and c.func.id == "enumerate"]
        verdict, msg = None, "enumeration of the category positions not recognised"
        if mname in ("get_support", "sample"):
            if mname == "sample":
                ch = [c for c in walk_no_nested(m.node) if isinstance(c, ast.Call) and call_name(c) == "choices"]
                if len(ch) == 1 and ch[0].args:
                    c = ch[0]
                    kw = {k.arg: k.value for k in c.keywords}
                    w = kw.get("weights", c.args[1] if len(c.args) > 1 else None)
                    popu = c.args[0]
                    if isinstance(popu, ast.Call) and isinstance(popu.func, ast.Name) and popu.func.id == "range":
                        if len(popu.args) != 1:
                            verdict, msg = False, f"`{src(popu)}`: sampled categories do not start at 0 while the moment side uses positions 0..len-1"
                        elif _range_len_of(popu, defs, f, selfn) and w is not None and f"{selfn}.{f}" in defs.roots(w):
                            kk = kw.get("k")
                            if kk is not None and not (isinstance(kk, ast.Constant) and kk.value == 1):
                                verdict, msg = None, "k != 1"
                            else:
                                verdict, msg = True, "sampler draws a position of range(len(probabilities)) weighted by probabilities"
                    if w is not None and verdict is not False and f"{selfn}.{f}" not in defs.roots(w) and "weights" in kw:
                        verdict, msg = False, f"sampler weights `{src(w)}` do not derive from the probabilities"
                    # the weight list must keep one entry per category: its position IS the sampled value.  A list that is filled in a loop
                    # over the probabilities must be appended to on every iteration that does not raise.
                    if verdict is True and isinstance(w, ast.Name):
                        from ..cfg import cfg_of as _cfg_of
                        cg = _cfg_of(m.node)
                        apps = [c2 for c2 in walk_no_nested(m.node) if isinstance(c2, ast.Call) and call_name(c2) in ("append",) and isinstance(c2.func, ast.Attribute)
                                and isinstance(c2.func.value, ast.Name) and c2.func.value.id == w.id]
                        for ap in apps:
                            loop = next((a for a in ancestors(ap) if isinstance(a, ast.For)), None)
                            if loop is None or f"{selfn}.{f}" not in defs.roots(loop.iter):
                                continue
                            head = next((n_ for n_ in cg.nodes if n_.kind == "test" and n_.stmt is loop), None)
                            an = cg.node_of(ap)
                            if head is None or an is None:
                                continue
                            entries = [b_ for b_, lab in cg.succ[head] if lab is True]
                            # can the loop head be reached again from the body entry without passing the append?
                            if any(b_ is not an and cg.reachable(b_, head, avoid={an}) for b_ in entries):
                                verdict, msg = False, (f"`{src(ap)[:40]}` is skipped on some iterations: the weights lose entries, the positions of the later categories shift "
                                                       "and the sampler returns other values than the moment side enumerates")
                    elif verdict is True and isinstance(w, (ast.ListComp, ast.GeneratorExp)) and any(g.ifs for g in w.generators):
                        verdict, msg = False, f"`{src(w)[:60]}` filters the weights: positions of later categories shift"
            else:
                for r in ranges:
                    if len(r.args) != 1:
                        verdict, msg = False, f"`{src(r)}`: support does not start at 0 while moments and sampler use positions 0..len-1"
                    elif _range_len_of(r, defs, f, selfn) and verdict is not False:
                        verdict, msg = True, "support is range(len(probabilities)) = {0..len-1}"
        else:
            k = m.params()[1]
            for e in enums:
                if len(e.args) != 1 or e.keywords:
                    verdict, msg = False, f"`{src(e)}`: category positions in the moment sum do not start at 0"
                elif is_self_attr(e.args[0], f, selfn) and verdict is not False:
                    verdict, msg = True, "moment is sum_i i**k * probabilities[i] (positions from enumerate, start 0)"
        emit(key, cat.relpath, m.node.lineno, m.qualname, verdict, msg)
    # --- DiscreteUniform: values list = inclusive integer range
    du = repo.cls("DiscreteUniform", "program/distribution/discrete_uniform.py")
    sp = du.methods.get("set_parameters")
    if sp is None:
        raise AnalysisError("DiscreteUniform.set_parameters missing")
    verdict, msg = None, "construction of the value list not recognised"
    pnm = sp.params()[1]
    sdefs = Defs(sp.node, sp.params()[0])
    for c in ast.walk(sp.node):
        if isinstance(c, ast.Call) and isinstance(c.func, ast.Name) and c.func.id == "range" and len(c.args) == 2:
            def resolve(e):
                # low, high = parameters ; int(low) ...
                class T(ast.NodeTransformer):
                    def visit_Name(self, n):
                        vals = sdefs.defs.get(n.id, [])
                        if len(vals) == 1 and type(vals[0]).__name__ == "_Elem" and isinstance(vals[0].expr, ast.Name) and vals[0].expr.id == pnm:
                            return ast.Subscript(value=ast.Name(id=pnm, ctx=ast.Load()), slice=ast.Constant(value=vals[0].index), ctx=ast.Load())
                        return n
                import copy as _c
                from ..model import clone as _clone
                return T().visit(_clone(e))
            nz = Normalizer(attr_cb=lambda a: None)
            try:
                lo, hi = nz(resolve(c.args[0])), nz(resolve(c.args[1]))
                p0, p1 = nz(ast.parse(f"{pnm}[0]").body[0].value), nz(ast.parse(f"{pnm}[1]").body[0].value)
                one = RF(Poly.const(1))
                if lo.equiv(p0) and hi.equiv(p1 + one):
                    verdict, msg = True, "values = range(lower, upper + 1) (both bounds included)"
                elif lo.equiv(p0) and hi.equiv(p1):
                    verdict, msg = False, f"`{src(c)}` excludes the upper bound: DiscreteUniform(a, b) is documented and analysed as uniform on a..b inclusive"
                elif hi.equiv(p1 + one) and not lo.equiv(p0):
                    verdict, msg = False, f"`{src(c)}` does not start at the lower bound"
            except AnalysisError:
                pass
    emit(f"{du.relpath}::DiscreteUniform.set_parameters::inclusive-range", du.relpath, sp.node.lineno, sp.qualname, verdict, msg)
    for mname in ("get_support", "sample", "get_moment"):
        m = du.methods.get(mname)
        if m is None:
            raise AnalysisError(f"DiscreteUniform.{mname} missing")
        selfn = m.params()[0]
        key = f"{du.relpath}::DiscreteUniform.{mname}::enumeration"
        reads_values = any(is_self_attr(x, "values", selfn) for x in ast.walk(m.node))
        sliced = [x for x in ast.walk(m.node) if isinstance(x, ast.Subscript) and is_self_attr(x.value, "values", selfn) and isinstance(x.slice, ast.Slice)]
        if sliced:
            emit(key, du.relpath, sliced[0].lineno, m.qualname, False, f"`{src(sliced[0])}`: only part of the value list is used")
        elif reads_values:
            emit(key, du.relpath, m.node.lineno, m.qualname, True, f"{mname} ranges over the whole value list")
        else:
            emit(key, du.relpath, m.node.lineno, m.qualname, False, f"DiscreteUniform.{mname} does not use the value list shared by support, sampler and moments")
    # --- Bernoulli support {0,1}
    be = repo.cls("Bernoulli", "program/distribution/bernoulli.py")
    m = be.methods.get("get_support")
    rs = return_exprs(m.node) if m else []
    vals = set()
    recognised = len(rs) == 1 and isinstance(rs[0], ast.Set)
    if recognised:
        for e in rs[0].elts:
            if isinstance(e, ast.Call) and call_name(e) in ("Zero", "One") and not e.args:
                vals.add(call_name(e))
            elif isinstance(e, ast.Call) and call_name(e) in ("sympify", "Integer") and e.args and isinstance(e.args[0], ast.Constant):
                vals.add({0: "Zero", 1: "One"}.get(e.args[0].value, str(e.args[0].value)))
            elif isinstance(e, ast.Constant):
                vals.add({0: "Zero", 1: "One"}.get(e.value, str(e.value)))
            else:
                recognised = False
    emit(f"{be.relpath}::Bernoulli.get_support::enumeration", be.relpath, m.node.lineno if m else 0, "Bernoulli.get_support",
         (vals == {"Zero", "One"}) if recognised else None, "support is {0, 1}" if vals == {"Zero", "One"} else (f"support is {sorted(vals)}" if recognised else "support expression not recognised"))
    # --- PolyAssignment.evaluate_right_side draws a branch polynomial weighted by its probability
    pa = repo.cls("PolyAssignment", "program/assignment/poly_assignment.py")
    m = pa.methods.get("evaluate_right_side")
    if m is None:
        raise AnalysisError("PolyAssignment.evaluate_right_side missing")
    selfn = m.params()[0]
    defs = Defs(m.node, selfn)
    ch = [c for c in walk_no_nested(m.node) if isinstance(c, ast.Call) and call_name(c) == "choices"]
    verdict, msg = None, "random.choices call not recognised"
    if len(ch) == 1 and ch[0].args:
        c = ch[0]
        kw = {k.arg: k.value for k in c.keywords}
        w = kw.get("weights", c.args[1] if len(c.args) > 1 else None)
        P, W = f"{selfn}.polynomials", f"{selfn}.probabilities"
        pr = _list_sources(m.node, c.args[0], defs, selfn)
        wr = _list_sources(m.node, w, defs, selfn) if w is not None else set()
        dedup = any(isinstance(x, ast.Call) and call_name(x) in ("keys", "values", "items") for x in ast.walk(c.args[0])) or \
            any(isinstance(x, ast.Call) and isinstance(x.func, ast.Name) and x.func.id in ("set", "frozenset", "dict") for x in ast.walk(c.args[0]))
        if dedup:
            verdict, msg = False, f"population `{src(c.args[0])[:50]}` goes through a de-duplicating container: branches with equal values lose probability mass"
        elif w is None:
            verdict, msg = False, "random.choices without weights: branches are drawn uniformly, not with their probabilities"
        elif P in pr and W not in pr and W in wr and P not in wr:
            verdict, msg = True, "simulated choice draws from polynomials weighted by probabilities (same order)"
        elif (W in pr and P not in pr) or (P in wr and W not in wr):
            verdict, msg = False, f"population derives from {sorted(pr)}, weights from {sorted(wr)}: values and probabilities are swapped"
        else:
            verdict, msg = None, f"population derives from {sorted(pr)}, weights from {sorted(wr)}"
    emit(f"{pa.relpath}::PolyAssignment.evaluate_right_side::choice", pa.relpath, m.node.lineno, m.qualname, verdict, msg)
    return obs


def _list_sources(fn_node, e, defs: Defs, selfn: str) -> Set[str]:
    """self.<field>s a list expression is built from: comprehension iterables, or the iterable of the
    loop enclosing each `.append` on the list (per-loop, so a reused loop variable does not blur it)."""
    out: Set[str] = set()
    if isinstance(e, (ast.ListComp, ast.GeneratorExp)):
        for g in e.generators:
            out |= {r for r in defs.roots(g.iter) if r.startswith(selfn + ".")}
        return out
    if is_self_attr(e, None, selfn):
        return {f"{selfn}.{e.attr}"}
    if isinstance(e, ast.Name):
        for v in defs.defs.get(e.id, []):
            if isinstance(v, (ast.ListComp, ast.GeneratorExp)):
                out |= _list_sources(fn_node, v, defs, selfn)
            elif is_self_attr(v, None, selfn):
                out.add(f"{selfn}.{v.attr}")
        for c in walk_no_nested(fn_node):
            if isinstance(c, ast.Call) and isinstance(c.func, ast.Attribute) and c.func.attr in ("append", "extend") \
                    and isinstance(c.func.value, ast.Name) and c.func.value.id == e.id:
                cur = parent(c)
                while cur is not None and not isinstance(cur, (ast.For, ast.FunctionDef)):
                    cur = parent(cur)
                if isinstance(cur, ast.For):
                    out |= {r for r in defs.roots(cur.iter) if r.startswith(selfn + ".")}
                else:
                    out.add("?")
        if not out:
            out = {r for r in defs.roots(e) if r.startswith(selfn + ".")}
        return out
    return {r for r in defs.roots(e) if r.startswith(selfn + ".")}


def mut_enumeration(repo: Repo) -> List[Mutant]:
    out = []

    def cat_support_from_one(tree):
        fn = find_def(tree, "Categorical.get_support")
        for c in ast.walk(fn):
            if isinstance(c, ast.Call) and call_name(c) == "range":
                c.args = [ast.Constant(value=1), ast.BinOp(left=c.args[0], op=ast.Add(), right=ast.Constant(value=1))]
                return True
        return False
    ov = mutate_module(repo, "program/distribution/categorical.py", cat_support_from_one)
    if ov:
        out.append(Mutant("categorical-support-1-based", ov, "fire", "Categorical.get_support", control=True))

    def cat_moment_start1(tree):
        fn = find_def(tree, "Categorical.get_moment")
        for c in ast.walk(fn):
            if isinstance(c, ast.Call) and call_name(c) == "enumerate":
                c.keywords = [ast.keyword(arg="start", value=ast.Constant(value=1))]
                return True
        return False
    ov = mutate_module(repo, "program/distribution/categorical.py", cat_moment_start1)
    if ov:
        out.append(Mutant("categorical-moment-1-based", ov, "fire", "Categorical.get_moment"))

    def du_exclusive(tree):
        fn = find_def(tree, "DiscreteUniform.set_parameters")
        for c in ast.walk(fn):
            if isinstance(c, ast.Call) and call_name(c) == "range" and len(c.args) == 2 and isinstance(c.args[1], ast.BinOp):
                c.args[1] = c.args[1].left
                return True
        return False
    ov = mutate_module(repo, "program/distribution/discrete_uniform.py", du_exclusive)
    if ov:
        out.append(Mutant("discrete-uniform-upper-excluded", ov, "fire", "inclusive-range"))

    def poly_swap(tree):
        fn = find_def(tree, "PolyAssignment.evaluate_right_side")
        for c in ast.walk(fn):
            if isinstance(c, ast.Call) and call_name(c) == "choices":
                for k in c.keywords:
                    if k.arg == "weights":
                        c.args[0], k.value = k.value, c.args[0]
                        return True
        return False
    ov = mutate_module(repo, "program/assignment/poly_assignment.py", poly_swap)
    if ov:
        out.append(Mutant("choice-weights-swapped", ov, "fire", "PolyAssignment.evaluate_right_side"))
    return out


# ------------------------------------------------------------------ root sources (C17/C04)
def rule_roots(repo: Repo) -> List[Ob]:
    obs = []
    fn = repo.function("utils/expressions.py", "get_all_roots")
    c = cfg_of(fn.node)
    n_sources = 0
    for call in [x for x in walk_no_nested(fn.node) if isinstance(x, ast.Call)]:
        name = call_name(call)
        if name == "intervals":
            n_sources += 1
            kw = {k.arg: k.value for k in call.keywords}
            a = kw.get("all")
            ok = isinstance(a, ast.Constant) and a.value is True
            obs.append(Ob("F-rootsource", "utils/expressions.py::get_all_roots::intervals", fn.relpath, call.lineno, fn.qualname, ok,
                          "Poly.intervals(all=True) isolates real and complex roots" if ok else
                          "Poly.intervals without all=True returns only the real roots: complex characteristic roots are silently dropped",
                          witness=src(call)))
            if ok and isinstance(call.func, ast.Attribute):
                # documented sympy contract: complex root isolation is implemented for square-free polynomials only;
                # a root of a square-free factor has multiplicity 1 there, its true multiplicity is the factor's
                defs = Defs(fn.node, None)
                rts = defs.roots(call.func.value)
                sqf = any(r.split(".")[-1] in ("sqf_list", "sqf_part", "sqf_list_include", "factor_list") for r in rts if r.startswith("call:"))
                obs.append(Ob("F-rootsource", "utils/expressions.py::get_all_roots::intervals-squarefree", fn.relpath, call.lineno, fn.qualname, sqf,
                              "intervals(all=True) is applied to square-free factors" if sqf else
                              f"`{src(call.func.value)}`.intervals(all=True) is not applied to a square-free factor: sympy raises NotImplementedError "
                              "for every characteristic polynomial with a repeated root"))
                if sqf and any(r.split(".")[-1] in ("sqf_list", "sqf_list_include", "factor_list") for r in rts if r.startswith("call:")):
                    # the multiplicity recorded with a root must be the factor's, i.e. come from the same iteration target as the receiver
                    loop = next((a for a in ancestors(call) if isinstance(a, ast.For)), None)
                    mult_ok = None
                    if loop is not None and isinstance(loop.target, ast.Tuple) and len(loop.target.elts) == 2 and isinstance(loop.target.elts[1], ast.Name):
                        mname = loop.target.elts[1].id
                        appended = [a for x in ast.walk(loop) if isinstance(x, ast.Call) and call_name(x) == "append" for a in x.args if isinstance(a, ast.Tuple) and len(a.elts) == 2]
                        if appended:
                            mult_ok = all(mname in {n.id for n in ast.walk(t.elts[1]) if isinstance(n, ast.Name)} for t in appended)
                    if mult_ok is None:
                        obs.append(inconclusive("F-rootsource", "utils/expressions.py::get_all_roots::multiplicity", fn.relpath, call.lineno, fn.qualname, "how multiplicities are attached to isolated roots was not recognised"))
                    else:
                        obs.append(Ob("F-rootsource", "utils/expressions.py::get_all_roots::multiplicity", fn.relpath, call.lineno, fn.qualname, mult_ok,
                                      "an isolated root carries the multiplicity of its square-free factor" if mult_ok else
                                      "an isolated root of a square-free factor is recorded with the multiplicity reported by intervals (always 1) instead of the factor's"))
        elif name == "all_roots":
            n_sources += 1
            obs.append(Ob("F-rootsource", "utils/expressions.py::get_all_roots::all_roots", fn.relpath, call.lineno, fn.qualname, True,
                          "Poly.all_roots returns every root with multiplicity"))
        elif name == "roots" and isinstance(call.func, ast.Name):
            n_sources += 1
            node = c.node_of(call)
            guards = c.validators_dominating(node) if node is not None else []
            ok = any("degree" in src(t.ast) for t, _ in guards)
            obs.append(Ob("F-rootsource", "utils/expressions.py::get_all_roots::roots", fn.relpath, call.lineno, fn.qualname, ok,
                          "sympy.roots (complete only below degree 5) is reached only behind the degree guard" if ok else
                          "sympy.roots may return an incomplete root set; no dominating `degree()` guard that raises"))
    if n_sources < 2:
        raise AnalysisError("F-rootsource: root sources of get_all_roots not found")
    return obs


def mut_roots(repo: Repo) -> List[Mutant]:
    out = []

    def drop_all(tree):
        fn = find_def(tree, "get_all_roots")
        for c in ast.walk(fn):
            if isinstance(c, ast.Call) and call_name(c) == "intervals":
                before = len(c.keywords)
                c.keywords = [k for k in c.keywords if k.arg != "all"]
                if len(c.keywords) == before:
                    c.keywords.append(ast.keyword(arg="all", value=ast.Constant(value=False)))
                return True
        return False
    ov = mutate_module(repo, "utils/expressions.py", drop_all)
    if ov:
        out.append(Mutant("intervals-real-only", ov, "fire", "get_all_roots::intervals", control=True))

    m = repo.module("utils/expressions.py")
    norm_src = ast.unparse(m.tree)
    if "for (h, l), _ in factor_roots" in norm_src and "(h + l) / 2, multiplicity)" in norm_src:
        out.append(Mutant("multiplicity-from-intervals", {"utils/expressions.py": norm_src.replace("for (h, l), _ in factor_roots", "for (h, l), m in factor_roots").replace("(h + l) / 2, multiplicity)", "(h + l) / 2, m)")},
                          "fire", "get_all_roots::multiplicity"))
    ov = text_mutant(repo, "utils/expressions.py", "factor_roots = factor.intervals(eps=eps, all=True)", "factor_roots = poly.intervals(eps=eps, all=True)")
    if ov:
        out.append(Mutant("intervals-on-whole-polynomial", ov, "fire", "get_all_roots::intervals-squarefree"))

    def drop_guard(tree):
        fn = find_def(tree, "get_all_roots")
        for n in ast.walk(fn):
            if isinstance(n, ast.If) and "degree" in src(n.test) and any(isinstance(x, ast.Raise) for x in n.body):
                return replace_node(fn, n, ast.Pass())
        return False
    ov = mutate_module(repo, "utils/expressions.py", drop_guard)
    if ov:
        out.append(Mutant("roots-unguarded", ov, "fire", "get_all_roots::roots"))
    return out


# ------------------------------------------------------------------ rational kernel must not be truncated (C16/C06)
def rule_nullspace(repo: Repo) -> List[Ob]:
    obs = []
    mod = repo.module("invariants/exponent_lattice.py")
    sites = 0
    for fn in repo.functions_in("invariants/"):
        defs = Defs(fn.node, fn.params()[0] if fn.params() else None)
        uses_nullspace = any(isinstance(c, ast.Call) and call_name(c) == "nullspace" for c in walk_no_nested(fn.node))
        if not uses_nullspace:
            continue
        sites += 1
        bad = None
        for c in walk_no_nested(fn.node):
            if isinstance(c, ast.Call):
                trunc = (call_name(c) == "astype" and c.args and src(c.args[0]) in ("int", "np.int64", "numpy.int64", "np.int_")) or \
                        (isinstance(c.func, ast.Name) and c.func.id == "int" and c.args)
                if not trunc:
                    continue
                recv = c.func.value if isinstance(c.func, ast.Attribute) else c.args[0]
                r = defs.roots(recv)
                if any("nullspace" in x for x in r):
                    bad = c
        ok = bad is None
        obs.append(Ob("F-nullspace", f"{fn.relpath}::{fn.qualname}::nullspace-cast", fn.relpath, bad.lineno if bad is not None else fn.node.lineno, fn.qualname, ok,
                      "rational kernel basis is not truncated to integers" if ok else
                      f"`{src(bad)[:80]}` truncates Matrix.nullspace() (a *rational* basis) to integers: e.g. bases [4, 8] give [-1, 1] (8/4 != 1)",
                      witness=src(bad)[:120] if bad is not None else ""))
    if sites == 0:
        # the integer kernel may be computed differently after a repair; the anchor function must still exist
        repo.function("invariants/exponent_lattice.py", "ExponentLattice.compute_basis_rational")
        fn = repo.function("invariants/exponent_lattice.py", "ExponentLattice.compute_basis_rational")
        obs.append(Ob("F-nullspace", f"{fn.relpath}::{fn.qualname}::nullspace-cast", fn.relpath, fn.node.lineno, fn.qualname, True,
                      "no Matrix.nullspace() in the lattice code (integer kernel computed otherwise)"))
    return obs


def mut_nullspace(repo: Repo) -> List[Mutant]:
    # positive control is the construct itself while F10 is open; once repaired, re-introduce it
    src_ = "def compute_basis_rational(self):\n    kernel_basis = matrix.nullspace()\n    return np.asarray([v.T.tolist()[0] for v in kernel_basis]).astype(int).tolist()\n"

    def tr(tree):
        cls = find_def(tree, "ExponentLattice")
        if cls is None:
            return False
        new = ast.parse(src_).body[0]
        new.name = "_control_truncating_kernel"
        cls.body.append(new)
        return True
    ov = mutate_module(repo, "invariants/exponent_lattice.py", tr)
    return [Mutant("control-truncating-kernel", ov, "fire", "_control_truncating_kernel", control=True)] if ov else []


# ------------------------------------------------------------------ groebner elimination order (C07)
def _components(e, defs: Defs) -> List[str]:
    """ordered components of a generator-list expression: a + b + c, wrappers list()/set()/[x] stripped."""
    out = []
    for part in flatten(e, ast.Add) if not (isinstance(e, ast.BinOp) and isinstance(e.op, ast.BitOr)) else flatten(e, ast.BitOr):
        out.append(_strip(part, defs))
    return out


def _strip(e, defs: Defs, depth=0) -> str:
    while True:
        if isinstance(e, ast.Call) and call_name(e) in ("list", "set", "tuple", "sorted", "frozenset") and len(e.args) == 1:
            e = e.args[0]
            continue
        if isinstance(e, (ast.List, ast.Set, ast.Tuple)) and len(e.elts) == 1:
            e = e.elts[0]
            continue
        if isinstance(e, ast.Name) and depth < 4 and e.id in defs.defs and e.id not in defs.params:
            vals = [v for v in defs.defs[e.id] if isinstance(v, ast.expr)]
            if len(vals) == 1:
                e = vals[0]
                depth += 1
                continue
        break
    return norm(e)


def rule_groebner(repo: Repo) -> List[Ob]:
    obs = []
    for rp in ("invariants/invariant_ideal.py", "invariants/lattice_ideal.py"):
        repo.module(rp)
    for fn in repo.functions_in("invariants/"):
        calls = [c for c in walk_no_nested(fn.node) if isinstance(c, ast.Call) and call_name(c) == "groebner"]
        for call in calls:
            defs = Defs(fn.node, fn.params()[0] if fn.params() else None)
            key = f"{fn.relpath}::{fn.qualname}::groebner"
            star = [a for a in call.args if isinstance(a, ast.Starred)]
            kw = {k.arg: k.value for k in call.keywords}
            order = kw.get("order")
            order_ok = order is None or (isinstance(order, ast.Constant) and order.value == "lex")
            if not order_ok:
                obs.append(Ob("F-groebner", key, fn.relpath, call.lineno, fn.qualname, False,
                              f"non-lex monomial order {src(order)}: the filtered basis is not an elimination ideal"))
                continue
            if len(star) != 1:
                obs.append(inconclusive("F-groebner", key, fn.relpath, call.lineno, fn.qualname, "generator order of groebner() not readable (expected `groebner(F, *gens)`)"))
                continue
            gens_e = star[0].value
            # full definition of the generator list
            e = gens_e
            if isinstance(e, ast.Name) and e.id in defs.defs and len(defs.defs[e.id]) == 1:
                e = defs.defs[e.id][0]
            gens = []
            for part in flatten(e, ast.Add):
                gens.append(_strip(part, defs))
            # the symbols filtered out of the basis afterwards
            forb: Set[str] = set()
            for n in walk_no_nested(fn.node):
                if isinstance(n, ast.If) and isinstance(n.test, ast.UnaryOp) and isinstance(n.test.op, ast.Not):
                    t = n.test.operand
                    if isinstance(t, ast.BinOp) and isinstance(t.op, ast.BitAnd) and "free_symbols" in src(t):
                        side = t.left if "free_symbols" in src(t.right) else t.right
                        se = side
                        if isinstance(se, ast.Name) and se.id in defs.defs and len(defs.defs[se.id]) == 1:
                            d0 = defs.defs[se.id][0]
                            parts = flatten(d0, ast.BitOr)
                            if len(parts) > 1:
                                forb |= {_strip(p, defs) for p in parts}
                                continue
                        forb.add(_strip(side, defs))
            if not forb:
                obs.append(inconclusive("F-groebner", key, fn.relpath, call.lineno, fn.qualname, "filter on the eliminated symbols not recognised"))
                continue
            k = len(forb)
            prefix = set(gens[:k])
            ok = order_ok and prefix == forb and not (set(gens[k:]) & forb)
            obs.append(Ob("F-groebner", key, fn.relpath, call.lineno, fn.qualname, ok,
                          (f"lex order with eliminated symbols {sorted(forb)} as the generator prefix {gens[:k]} (elimination ideal)") if ok else
                          (f"eliminated symbols {sorted(forb)} are not exactly the generator prefix {gens[:k]} of {gens}" if order_ok else
                           f"non-lex monomial order {src(order)}: the filtered basis is not an elimination ideal"),
                          witness=src(call)))
    return obs


def mut_groebner(repo: Repo) -> List[Mutant]:
    out = []

    def swap_lattice(tree):
        fn = find_def(tree, "LatticeIdeal.compute_basis")
        for n in ast.walk(fn):
            if isinstance(n, ast.Assign) and isinstance(n.targets[0], ast.Name) and n.targets[0].id == "all_symbols" and isinstance(n.value, ast.BinOp):
                n.value.left, n.value.right = n.value.right, n.value.left
                return True
        return False
    ov = mutate_module(repo, "invariants/lattice_ideal.py", swap_lattice)
    if ov:
        out.append(Mutant("lattice-gens-swapped", ov, "fire", "LatticeIdeal.compute_basis::groebner", control=True))

    def grevlex(tree):
        fn = find_def(tree, "InvariantIdeal.compute_basis")
        for c in ast.walk(fn):
            if isinstance(c, ast.Call) and call_name(c) == "groebner":
                c.keywords.append(ast.keyword(arg="order", value=ast.Constant(value="grevlex")))
                return True
        return False
    ov = mutate_module(repo, "invariants/invariant_ideal.py", grevlex)
    if ov:
        out.append(Mutant("invariant-grevlex", ov, "fire", "InvariantIdeal.compute_basis::groebner"))

    def n_last(tree):
        fn = find_def(tree, "InvariantIdeal.compute_basis")
        for n in ast.walk(fn):
            if isinstance(n, ast.Assign) and isinstance(n.targets[0], ast.Name) and n.targets[0].id == "symbols":
                parts = flatten(n.value, ast.Add)
                parts = parts[1:] + parts[:1]
                e = parts[0]
                for p in parts[1:]:
                    e = ast.BinOp(left=e, op=ast.Add(), right=p)
                n.value = e
                return True
        return False
    ov = mutate_module(repo, "invariants/invariant_ideal.py", n_last)
    if ov:
        out.append(Mutant("invariant-n-eliminated-last", ov, "fire", "InvariantIdeal.compute_basis::groebner"))

    def forget_n(tree):
        fn = find_def(tree, "InvariantIdeal.compute_basis")
        for n in ast.walk(fn):
            if isinstance(n, ast.Assign) and isinstance(n.targets[0], ast.Name) and n.targets[0].id == "forbidden_vars" and isinstance(n.value, ast.BinOp):
                n.value = n.value.left
                return True
        return False
    ov = mutate_module(repo, "invariants/invariant_ideal.py", forget_n)
    if ov:
        out.append(Mutant("invariant-n-not-filtered", ov, "fire", "InvariantIdeal.compute_basis::groebner"))
    return out


# ------------------------------------------------------------------ cf / mgf sibling (C08, thorough)
def rule_cf_mgf(repo: Repo) -> List[Ob]:
    """cf(t) == mgf(i t) as rational functions over Q[i] in the parameter fields and exp/pow atoms."""
    obs = []
    for cls in dist_classes(repo):
        cf, mgf = cls.methods.get("cf"), cls.methods.get("mgf")
        if cf is None and mgf is None:
            continue
        key = f"{cls.relpath}::{cls.name}::cf-vs-mgf"
        if cf is None or mgf is None:
            obs.append(Ob("A4-cf-mgf", key, cls.relpath, (cf or mgf).node.lineno, cls.name, False,
                          f"{cls.name} defines only one of cf/mgf"))
            continue
        try:
            tcf = cf.params()[1]
            tm = mgf.params()[1]
            rcf = return_exprs(cf.node)
            rm = return_exprs(mgf.node)
            # delegation cf(t) = mgf(I*t)
            deleg = [r for r in rcf if isinstance(r, ast.Call) and isinstance(r.func, ast.Attribute) and isinstance(r.func.value, ast.Name)
                     and r.func.value.id == cf.params()[0] and r.func.attr == "mgf"]
            if deleg:
                a = deleg[0].args[0]
                nz = Normalizer()
                ok = nz(a).equiv(nz(ast.parse(f"I * {tcf}").body[0].value))
                obs.append(Ob("A4-cf-mgf", key, cls.relpath, cf.node.lineno, cf.qualname, ok,
                              "cf(t) is defined as mgf(I*t)" if ok else f"cf delegates to mgf({src(a)}), expected mgf(I*t)"))
                continue
            dcf, dm = Defs(cf.node, cf.params()[0]), Defs(mgf.node, mgf.params()[0])
            ncf = _field_normalizer(cf, dcf)
            nm = _field_normalizer(mgf, dm)
            # generic-t return: the last return (early `if t == 0` special cases are skipped)
            ecf = ncf(rcf[-1])
            nm.subst = {tm: RF(Poly.atom("I")) * RF(Poly.atom(tcf))}
            # parameter t inside mgf: its single local redefinition `t = sympify(t)` is a wrapper
            em = nm(rm[-1])
            ok = ecf.equiv(em)
            obs.append(Ob("A4-cf-mgf", key, cls.relpath, cf.node.lineno, cf.qualname, ok,
                          "cf(t) and mgf(i t) are the same function of the parameters" if ok else
                          f"cf(t) = {ecf.canon()[:120]}  but  mgf(i t) = {em.canon()[:120]}"))
        except AnalysisError as e:
            raise AnalysisError(f"cf/mgf sibling for {cls.name}: {e}")
    return obs


def mut_cf_mgf(repo: Repo) -> List[Mutant]:
    out = []

    def laplace_sign(tree):
        fn = find_def(tree, "Laplace.mgf")
        for n in ast.walk(fn):
            if isinstance(n, ast.BinOp) and isinstance(n.op, ast.Sub) and isinstance(n.left, ast.Constant):
                n.op = ast.Add()
                return True
        return False
    ov = mutate_module(repo, "program/distribution/laplace.py", laplace_sign)
    if ov:
        out.append(Mutant("laplace-mgf-sign", ov, "fire", "Laplace::cf-vs-mgf", control=True))

    def normal_half(tree):
        fn = find_def(tree, "Normal.cf")
        for n in ast.walk(fn):
            if isinstance(n, ast.BinOp) and isinstance(n.op, ast.Div) and isinstance(n.right, ast.Constant) and n.right.value == 2:
                return replace_node(fn, n, n.left)
        return False
    ov = mutate_module(repo, "program/distribution/normal.py", normal_half)
    if ov:
        out.append(Mutant("normal-cf-missing-half", ov, "fire", "Normal::cf-vs-mgf"))

    def gamma_rate(tree):
        fn = find_def(tree, "Gamma.mgf")
        for n in ast.walk(fn):
            if isinstance(n, ast.BinOp) and isinstance(n.op, ast.Mult) and isinstance(n.left, ast.Name) and n.left.id == "theta":
                n.op = ast.Div()
                return True
        return False
    ov = mutate_module(repo, "program/distribution/gamma.py", gamma_rate)
    if ov:
        out.append(Mutant("gamma-mgf-rate-form", ov, "fire", "Gamma::cf-vs-mgf"))
    return out


def _t_wrapper_fix():
    pass


RULES = {
    "SAMPLERS": Rule("F-sampler", rule_samplers, 16, "scipy sampler arguments denote the same law as the moment side (shape, loc, scale compared as rational functions of the parameter fields)", mut_samplers, soft=True),
    "ENUM": Rule("F-enumeration", rule_enumeration, 9, "discrete supports, samplers and moment sums enumerate the same values; probabilistic choice samples branch i with probability i", mut_enumeration, soft=True),
    "ROOTS": Rule("F-rootsource", rule_roots, 3, "every source of characteristic roots is complete (all_roots / intervals(all=True) / roots only below degree 5)", mut_roots, soft=True),
    "NULLSPACE": Rule("F-nullspace", rule_nullspace, 1, "a rational kernel basis (Matrix.nullspace) is never truncated to integers", mut_nullspace),
    "GROEBNER": Rule("F-groebner", rule_groebner, 2, "groebner() eliminates exactly the symbols that are filtered afterwards: they form the generator prefix under lex order", mut_groebner, soft=True),
    "CFMGF": Rule("A4-cf-mgf", rule_cf_mgf, 8, "cf(t) == mgf(i t) for every family that defines both (exact rational-function comparison over Q[i])", mut_cf_mgf, soft=True),
}


# ------------------------------------------------------------------ C16: rational case (pairwise-coprime shortcut, integer kernel)
def rule_rational_lattice(repo: Repo) -> List[Ob]:
    obs = []
    # (a) the shortcut "no relation at all" needs *pairwise* coprime numerators/denominators
    f = repo.function("utils/expressions.py", "are_coprime")
    gcds = [c for c in walk_no_nested(f.node) if isinstance(c, ast.Call) and call_name(c) == "gcd"]
    ok = bool(gcds)
    why = "no gcd call"
    for g in gcds:
        if len(g.args) != 2 or any(isinstance(a, ast.Starred) for a in g.args):
            ok = False
            why = f"`{src(g)}` is not a gcd of one *pair*: numbers that are coprime as a set (2, 6, 3) can still be multiplicatively related"
    if ok:
        loops = [n for n in walk_no_nested(f.node) if isinstance(n, ast.For)]
        pairs = False
        if len(loops) >= 2:
            outer, inner = loops[0], loops[1]
            pairs = isinstance(outer.target, ast.Name) and isinstance(inner.iter, ast.Call) and call_name(inner.iter) == "range" and len(inner.iter.args) == 2 \
                and src(inner.iter.args[0]) in (f"{outer.target.id} + 1", f"1 + {outer.target.id}") and src(outer.iter).startswith("range(len(")
            a, b = gcds[0].args
            pairs = pairs and isinstance(inner.target, ast.Name) and {src(a.slice) if isinstance(a, ast.Subscript) else "?", src(b.slice) if isinstance(b, ast.Subscript) else "?"} == {outer.target.id, inner.target.id}
        if not pairs:
            pairs = any(isinstance(c, ast.Call) and call_name(c) == "combinations" and len(c.args) == 2 and src(c.args[1]) == "2" for c in walk_no_nested(f.node))
        ok = True if pairs else None
        why = "every pair i < j is tested with gcd(a_i, a_j) == 1" if ok else "iteration over all pairs i < j not recognised"
    if ok is None:
        obs.append(inconclusive("F-rational-lattice", "utils/expressions.py::are_coprime::pairwise", f.relpath, f.node.lineno, f.qualname, why))
    else:
        obs.append(Ob("F-rational-lattice", "utils/expressions.py::are_coprime::pairwise", f.relpath, f.node.lineno, f.qualname, ok, why))
    # (b) the integer kernel is computed with integral, unimodular row operations
    cls = repo.cls("ExponentLattice", "invariants/exponent_lattice.py")
    rat = cls.methods.get("compute_basis_rational")
    if rat is None:
        raise AnalysisError("compute_basis_rational not found")
    helpers = [cls.find_method(n.attr) for n in walk_no_nested(rat.node) if isinstance(n, ast.Attribute) and isinstance(n.value, ast.Name) and n.value.id in ("self", "cls", cls.name)]
    helpers = [h for h in helpers if h is not None and h.node is not rat.node]
    fns = [rat] + helpers
    for g in fns:
        divs = [n for n in walk_no_nested(g.node) if isinstance(n, ast.BinOp) and isinstance(n.op, ast.Div)]
        casts = [n for n in walk_no_nested(g.node) if isinstance(n, ast.Call) and call_name(n) == "astype"]
        ok = not divs and not casts
        obs.append(Ob("F-rational-lattice", f"{g.relpath}::{g.qualname}::integral", g.relpath, (divs or casts or [g.node])[0].lineno, g.qualname, ok,
                      "exponent vectors are computed with integer arithmetic only (no true division, no truncating array cast)" if ok else
                      f"`{src((divs or casts)[0])[:60]}` leaves the integers on the way to the exponent vectors"))
    # (c) elimination scans start at the pivot counter
    for g in helpers:
        incs = [n for n in walk_no_nested(g.node) if isinstance(n, ast.AugAssign) and isinstance(n.op, ast.Add) and isinstance(n.target, ast.Name) and src(n.value) == "1"]
        col_loops = [n for n in walk_no_nested(g.node) if isinstance(n, ast.For) and any(i is x for i in incs for x in ast.walk(n))]
        if not incs or not col_loops:
            continue
        piv = incs[0].target.id
        loop = col_loops[0]
        scans = [c for c in ast.walk(loop) if isinstance(c, ast.comprehension) and isinstance(c.iter, ast.Call) and call_name(c.iter) == "range" and len(c.iter.args) == 2]
        colvar = loop.target.id if isinstance(loop.target, ast.Name) else None
        bad = [s for s in scans if src(s.iter.args[0]) == colvar]
        good = [s for s in scans if src(s.iter.args[0]) == piv]
        if not bad and not (good and len(good) == len(scans)):
            obs.append(inconclusive("F-rational-lattice", f"{g.relpath}::{g.qualname}::pivot-scan", g.relpath, loop.lineno, g.qualname, "row scans of the elimination not recognised"))
            continue
        ok = not bad
        obs.append(Ob("F-rational-lattice", f"{g.relpath}::{g.qualname}::pivot-scan", g.relpath, (bad or scans or [loop])[0].iter.lineno if (bad or scans) else loop.lineno, g.qualname, ok,
                      f"row scans of the elimination start at the pivot counter `{piv}` (rows above it are finished pivots)" if ok else
                      f"a row scan starts at `{src(bad[0].iter.args[0]) if bad else '?'}` instead of the pivot counter `{piv}`: when an equation is dependent the counter lags behind the column index and rows are skipped"))
        # kernel = the rows below the last pivot, right block
        rets = [r.value for r in walk_no_nested(g.node) if isinstance(r, ast.Return)]
        defs = Defs(g.node, None)
        okk = False
        for r in rets:
            e = r
            if isinstance(e, ast.Name) and len(defs.defs.get(e.id, [])) == 1:
                e = defs.defs[e.id][0]
            if isinstance(e, ast.ListComp):
                it = e.generators[0].iter
                okk = isinstance(it, ast.Subscript) and isinstance(it.slice, ast.Slice) and it.slice.lower is not None and src(it.slice.lower) == piv and it.slice.upper is None
        if okk:
            obs.append(Ob("F-rational-lattice", f"{g.relpath}::{g.qualname}::kernel-rows", g.relpath, g.node.lineno, g.qualname, True,
                          f"the kernel basis is read off the rows from `{piv}` on (those whose equation block vanished)"))
        else:
            obs.append(inconclusive("F-rational-lattice", f"{g.relpath}::{g.qualname}::kernel-rows", g.relpath, g.node.lineno, g.qualname, "selection of the kernel rows not recognised"))
    return obs


def mut_rational_lattice(repo: Repo) -> List[Mutant]:
    out = []

    def setwise(tree):
        fn = find_def(tree, "are_coprime")
        fn.body = fn.body[:1] + ast.parse("return len(integers) < 2 or math.gcd(*integers) == 1").body
        return True
    ov = mutate_module(repo, "utils/expressions.py", setwise)
    if ov:
        out.append(Mutant("setwise-gcd", ov, "fire", "are_coprime::pairwise", control=True))

    def stale_index(tree):
        fn = find_def(tree, "ExponentLattice._integer_kernel")
        if fn is None:
            return False
        for c in ast.walk(fn):
            if isinstance(c, ast.comprehension) and isinstance(c.iter, ast.Call) and call_name(c.iter) == "range" and len(c.iter.args) == 2 and src(c.iter.args[0]) == "pivot_row":
                c.iter.args[0] = ast.Name(id="col", ctx=ast.Load())
                return True
        return False
    ov = mutate_module(repo, "invariants/exponent_lattice.py", stale_index)
    if ov:
        out.append(Mutant("scan-from-column-index", ov, "fire", "pivot-scan"))

    def truediv(tree):
        fn = find_def(tree, "ExponentLattice._integer_kernel")
        if fn is None:
            return False
        for n in ast.walk(fn):
            if isinstance(n, ast.BinOp) and isinstance(n.op, ast.FloorDiv):
                n.op = ast.Div()
                return True
        return False
    ov = mutate_module(repo, "invariants/exponent_lattice.py", truediv)
    if ov:
        out.append(Mutant("true-division-in-kernel", ov, "fire", "integral"))
    return out


RULES["RATLATTICE"] = Rule("F-rational-lattice", rule_rational_lattice, 3, "rational exponent lattice: the no-relation shortcut needs pairwise coprimality; the kernel is computed by integral row operations scanning from the pivot counter", mut_rational_lattice, soft=True)


# ------------------------------------------------------------------ C06: exponent bases and their symbols stay aligned; closed forms are stored under the goal's own name
def rule_invariant_inputs(repo: Repo) -> List[Ob]:
    obs = []
    f = repo.function("invariants/invariant_ideal.py", "InvariantIdeal.compute_basis")
    defs = Defs(f.node, f.params()[0])
    lat = [c for c in walk_no_nested(f.node) if isinstance(c, ast.Call) and call_name(c) == "ExponentLattice" and c.args]
    ide = [c for c in walk_no_nested(f.node) if isinstance(c, ast.Call) and call_name(c) == "LatticeIdeal" and len(c.args) == 2]
    if not lat or not ide:
        raise AnalysisError("InvariantIdeal.compute_basis: ExponentLattice / LatticeIdeal construction not found")

    def shape(e):
        # list(D.keys()) / list(D.values()) possibly through a single-definition local
        if isinstance(e, ast.Name) and len([v for v in defs.defs.get(e.id, []) if isinstance(v, ast.expr)]) == 1:
            e = [v for v in defs.defs[e.id] if isinstance(v, ast.expr)][0]
        wrappers = []
        while isinstance(e, ast.Call) and isinstance(e.func, ast.Name) and e.func.id in ("list", "tuple", "sorted", "reversed", "set", "frozenset") and e.args:
            wrappers.append(e.func.id)
            e = e.args[0]
        if isinstance(e, ast.Call) and isinstance(e.func, ast.Attribute) and e.func.attr in ("keys", "values") and not e.args:
            return src(e.func.value), e.func.attr, [w for w in wrappers if w not in ("list", "tuple")]
        return None
    sb, ss = shape(lat[0].args[0]), shape(ide[0].args[1])
    ok = sb is not None and ss is not None and sb[0] == ss[0] and sb[1] == "keys" and ss[1] == "values" and sb[2] == ss[2] == []
    if not ok and not (sb is not None and ss is not None and sb[0] == ss[0] and sb[2] != ss[2]):
        obs.append(inconclusive("F-invariant-inputs", "invariants/invariant_ideal.py::InvariantIdeal.compute_basis::aligned", f.relpath, lat[0].lineno, f.qualname,
                                f"construction of bases `{src(lat[0].args[0])}` / symbols `{src(ide[0].args[1])}` not recognised"))
    else:
      obs.append(Ob("F-invariant-inputs", "invariants/invariant_ideal.py::InvariantIdeal.compute_basis::aligned", f.relpath, lat[0].lineno, f.qualname, ok,
                  "exponent bases and their symbols are the keys and values of one dict in the same (insertion) order: component i of a lattice vector belongs to symbol i" if ok else
                  f"bases are `{src(lat[0].args[0])}` ({sb}) but symbols are `{src(ide[0].args[1])}` ({ss}): reordering only one of them pairs lattice exponents with the wrong sequences"))
    # the lattice basis of exactly these bases feeds the ideal
    a0 = ide[0].args[0]
    feeds = isinstance(a0, ast.Call) and call_name(a0) == "compute_basis" and defs.origin_field(a0.func.value) is None and \
        (a0.func.value is lat[0] or (isinstance(a0.func.value, ast.Name) and any(v is lat[0] for v in defs.defs.get(a0.func.value.id, []))))
    if feeds:
        obs.append(Ob("F-invariant-inputs", "invariants/invariant_ideal.py::InvariantIdeal.compute_basis::lattice-feeds-ideal", f.relpath, ide[0].lineno, f.qualname, True,
                      "the binomial ideal is built from the lattice basis of the same bases"))
    else:
        obs.append(inconclusive("F-invariant-inputs", "invariants/invariant_ideal.py::InvariantIdeal.compute_basis::lattice-feeds-ideal", f.relpath, ide[0].lineno, f.qualname, "flow from ExponentLattice to LatticeIdeal not recognised"))
    # goal kinds and the identifiers their closed forms are stored under
    gp = repo.function("inputparser/goal_parser.py", "GoalParser.parse")
    letter_kind: Dict[str, str] = {}
    for n in walk_no_nested(gp.node):
        if isinstance(n, ast.If) and isinstance(n.test, ast.Compare) and len(n.test.ops) == 1 and isinstance(n.test.ops[0], ast.Eq) and \
                ((isinstance(n.test.left, ast.Subscript) and const_str(n.test.comparators[0])) or (isinstance(n.test.comparators[0], ast.Subscript) and const_str(n.test.left))):
            letter = const_str(n.test.comparators[0]) or const_str(n.test.left)
            for r in [x for x in n.body if isinstance(x, ast.Return)]:
                if isinstance(r.value, ast.Call):
                    kinds = [a.id for a in r.value.args if isinstance(a, ast.Name) and a.id.isupper()]
                    if kinds:
                        letter_kind[letter] = kinds[0]
                    elif "_parse_moment" in src(r.value.func):
                        letter_kind[letter] = "MOMENT"
    if len(letter_kind) < 3:
        raise AnalysisError("GoalParser.parse: letter -> goal kind table not readable")
    h = repo.function("cli/actions/goals_action.py", "GoalsAction.handle_all_goals")
    n_store = 0
    for n in walk_no_nested(h.node):
        if isinstance(n, ast.If) and isinstance(n.test, ast.Compare) and len(n.test.ops) == 1 and isinstance(n.test.ops[0], ast.Eq) and \
                isinstance(n.test.left, ast.Name) and isinstance(n.test.comparators[0], ast.Name):
            # goal_type == CENTRAL  /  CENTRAL == goal_type: the side that names a goal kind
            kind = next((x.id for x in (n.test.comparators[0], n.test.left) if x.id in letter_kind.values()), None)
            if kind is None:
                continue
            for st in n.body:
                for a in ast.walk(st):
                    if isinstance(a, ast.Assign) and isinstance(a.targets[0], ast.Subscript) and "closed_forms" in src(a.targets[0].value):
                        n_store += 1
                        from ..astq import template_of, Lit
                        hdefs = Defs(h.node, h.params()[0])

                        def leads(e, defs, fn, depth=0) -> List[Optional[str]]:
                            """first literal character of each alternative the text expression can evaluate to (None: not literal)"""
                            if depth > 4:
                                return [None]
                            if isinstance(e, ast.IfExp):
                                return leads(e.body, defs, fn, depth + 1) + leads(e.orelse, defs, fn, depth + 1)
                            if isinstance(e, ast.Name) and e.id in defs.defs and e.id not in defs.params:
                                out = []
                                for v in defs.defs[e.id]:
                                    out += leads(v, defs, fn, depth + 1) if isinstance(v, ast.expr) else [None]
                                return out
                            if isinstance(e, ast.Call) and isinstance(e.func, ast.Attribute) and isinstance(e.func.value, ast.Name) and e.func.value.id in ("self", "cls") and fn.cls is not None:
                                hm = fn.cls.find_method(e.func.attr)
                                if hm is not None:
                                    hd = Defs(hm.node, None)
                                    out = []
                                    for r in walk_no_nested(hm.node):
                                        if isinstance(r, ast.Return) and r.value is not None:
                                            out += leads(r.value, hd, hm, depth + 1)
                                    return out or [None]
                            try:
                                chunks = template_of(e, defs)
                            except Exception:
                                return [None]
                            if chunks and isinstance(chunks[0], Lit) and chunks[0].text:
                                return [chunks[0].text[:1]]
                            return [None]
                        got = leads(a.targets[0].slice, hdefs, h)
                        want = [l for l, k in letter_kind.items() if k == kind]
                        key = f"cli/actions/goals_action.py::GoalsAction.handle_all_goals::identifier::{kind}"
                        known = [g for g in got if g is not None]
                        if any(g in want for g in known):
                            obs.append(Ob("F-invariant-inputs", key, h.relpath, a.lineno, h.qualname, True,
                                          f"a {kind} goal's closed form is stored under an identifier starting with {want} (the goal syntax)"))
                        elif any(g in letter_kind for g in known):
                            obs.append(Ob("F-invariant-inputs", key, h.relpath, a.lineno, h.qualname, False,
                                          f"a {kind} goal's closed form is stored under `{src(a.targets[0].slice)[:40]}` (leading {known!r}); the goal syntax for {kind} is {want}: invariants would be printed over the wrong quantity"))
                        else:
                            obs.append(inconclusive("F-invariant-inputs", key, h.relpath, a.lineno, h.qualname, f"identifier `{src(a.targets[0].slice)[:40]}` of a {kind} goal not readable"))
    if n_store < 3:
        raise AnalysisError("handle_all_goals: closed-form stores not found")
    return obs


def mut_invariant_inputs(repo: Repo) -> List[Mutant]:
    out = []

    def sort_bases(tree):
        fn = find_def(tree, "InvariantIdeal.compute_basis")
        for n in ast.walk(fn):
            if isinstance(n, ast.Assign) and isinstance(n.targets[0], ast.Name) and n.targets[0].id == "exponent_bases":
                n.value = ast.parse("sorted(self.base_to_symbol.keys(), key=str)").body[0].value
                return True
        return False
    ov = mutate_module(repo, "invariants/invariant_ideal.py", sort_bases)
    if ov:
        out.append(Mutant("bases-sorted-symbols-not", ov, "fire", "compute_basis::aligned", control=True))

    def wrong_key(tree):
        fn = find_def(tree, "GoalsAction.handle_all_goals")
        for n in ast.walk(fn):
            if isinstance(n, ast.JoinedStr) and n.values and isinstance(n.values[0], ast.Constant) and n.values[0].value == "c":
                n.values[0].value = "k"
                return True
        return False
    ov = mutate_module(repo, "cli/actions/goals_action.py", wrong_key)
    if ov:
        out.append(Mutant("central-stored-as-cumulant", ov, "fire", "identifier::CENTRAL"))
    return out


RULES["INVINPUTS"] = Rule("F-invariant-inputs", rule_invariant_inputs, 5, "exponent bases and symbols are aligned (keys/values of one dict); closed forms are stored under the identifier of their own goal kind", mut_invariant_inputs, soft=True)
