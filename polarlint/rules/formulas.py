"""Formula-shape rules: closed-form expressions in the source are compared, as exact rational
functions over named atoms (ratfun), with the textbook formula they implement; index/offset
bookkeeping of the solvers and the recurrence builder is checked structurally."""
import ast
import re
from typing import Dict, List, Optional, Set, Tuple

from ..model import Repo, ClassInfo, FunctionInfo, AnalysisError, walk_no_nested, src, is_self_attr, call_name, dotted, parent, \
    ancestors, enclosing_stmt, const_str
from ..core import Ob, Rule, Mutant, mutate_module, find_def, find_defs, replace_node, text_mutant, inconclusive
from ..dataflow import Defs
from ..cfg import cfg_of
from ..astq import flatten, norm, return_exprs, is_stringy
from ..ratfun import Normalizer, RF, Poly
from .libcontract import _field_normalizer
from .validate import controlling_tests, node_for
from ..shape import helper_calls, resolve_alias, cmp_canon, conjuncts


def _rf_text(text: str, atoms: Dict[str, RF] = None) -> RF:
    e = ast.parse(text.replace("$", "F_"), mode="eval").body

    def cb(n):
        if n.startswith("F_"):
            return RF(Poly.atom("$" + n[2:]))
        if atoms and n in atoms:
            return atoms[n]
        return None
    return Normalizer(name_cb=cb)(e)


# ------------------------------------------------------------------ C08: moment side of each family
# sympy.stats constructor and its argument convention per family (documented sympy API):
STATS_CTOR = {
    "Normal": ("NormalDist", ["$mu", "sqrt($sigma2)"], "1"),      # Normal(name, mean, std)
    "Gamma": ("GammaDist", ["$k", "$theta"], "1"),                # Gamma(name, k, theta)
    "Beta": ("BetaDist", ["$a", "$b"], "$scale"),                 # Beta(name, alpha, beta); moment scaled by scale**k
    "Laplace": ("LaplaceRV", ["$mu", "$b"], "1"),                 # Laplace(name, mu, b)
}


def rule_moments(repo: Repo) -> List[Ob]:
    obs = []
    base = repo.cls("Distribution", "program/distribution/distribution.py")
    classes = {c.name: c for c in repo.subclasses(base)}
    # closed forms
    for cname, want, kparam in (("Uniform", "($b**(K+1) - $a**(K+1)) / ((K+1)*($b - $a))", None),
                                ("Exponential", "factorial(K) / $lamb**K", None)):
        cls = classes.get(cname)
        if cls is None:
            raise AnalysisError(f"{cname} not found")
        m = cls.methods["get_moment"]
        k = m.params()[1]
        defs = Defs(m.node, m.params()[0])
        nz = _field_normalizer(m, defs)
        rets = return_exprs(m.node)
        try:
            got = nz(rets[-1])
            wantrf = _rf_text(want.replace("K", k))
            ok = got.equiv(wantrf)
        except AnalysisError as e:
            raise AnalysisError(f"{m.key}: {e}")
        obs.append(Ob("F-moments", f"{cls.relpath}::{cname}.get_moment::formula", cls.relpath, m.node.lineno, m.qualname, ok,
                      f"k-th raw moment is {want}" if ok else f"k-th raw moment is coded as `{src(rets[-1])[:80]}`, the family's moment is {want}"))
    # Bernoulli: every positive moment is p
    cls = classes["Bernoulli"]
    m = cls.methods["get_moment"]
    rets = return_exprs(m.node)
    ok = len(rets) == 1 and is_self_attr(rets[0], "p", m.params()[0])
    obs.append(Ob("F-moments", f"{cls.relpath}::Bernoulli.get_moment::formula", cls.relpath, m.node.lineno, m.qualname, ok,
                  "E(X^k) = p" if ok else f"Bernoulli moment is coded as `{src(rets[0]) if rets else None}`"))
    # families delegating to sympy.stats
    for cname, (ctor, args, scale) in STATS_CTOR.items():
        cls = classes.get(cname)
        if cls is None:
            raise AnalysisError(f"{cname} not found")
        m = cls.methods["get_moment"]
        k = m.params()[1]
        defs = Defs(m.node, m.params()[0])
        nz = _field_normalizer(m, defs)
        calls = [c for c in walk_no_nested(m.node) if isinstance(c, ast.Call) and call_name(c) == ctor]
        key = f"{cls.relpath}::{cname}.get_moment"
        mdefs, mnz = defs, nz
        helper_of_rv = None
        if not calls:
            # the random variable may be built by a helper of the class
            for hf, _, hcall in helper_calls(repo, m, depth=1):
                hc = [c for c in walk_no_nested(hf.node) if isinstance(c, ast.Call) and call_name(c) == ctor]
                if hc:
                    calls = hc
                    helper_of_rv = (hf, hcall)
                    defs = Defs(hf.node, hf.params()[0] if hf.params() else None)
                    nz = _field_normalizer(hf, defs)
                    break
        if len(calls) != 1:
            obs.append(inconclusive("F-moments", key + "::parameters", cls.relpath, m.node.lineno, m.qualname, f"construction of the {ctor}(...) random variable not found in get_moment or its helpers"))
            continue
        c = calls[0]
        imp = cls.module.imports.get(ctor)
        from_stats = imp is not None and imp[0] == "sympy.stats"
        try:
            gotargs = []
            for a in c.args[1:]:
                # sigma = sympify(f"({self.sigma2}) ** (1/2)")
                e = a
                if isinstance(e, ast.Name) and len([v for v in defs.defs.get(e.id, []) if isinstance(v, ast.expr)]) == 1:
                    e = [v for v in defs.defs[e.id] if isinstance(v, ast.expr)][0]
                if isinstance(e, ast.Call) and call_name(e) in ("sympify", "ssympify") and e.args and (isinstance(e.args[0], ast.JoinedStr) or
                                                                                                        (isinstance(e.args[0], (ast.Call, ast.BinOp)) and is_stringy(e.args[0]))):
                    from ..astq import template_of, Lit, Hole
                    text = ""
                    holes = {}
                    for i, ch in enumerate(template_of(e.args[0], defs)):
                        if isinstance(ch, Lit):
                            text += ch.text
                        else:
                            holes[f"H{i}_"] = ch.expr
                            text += f"H{i}_"
                    inner = ast.parse(text, mode="eval").body
                    gotargs.append(Normalizer(name_cb=lambda n, holes=holes: nz(holes[n]) if n in holes else None)(inner))
                else:
                    gotargs.append(nz(a))
            ok = from_stats and len(gotargs) == len(args) and all(g.equiv(_rf_text(w)) for g, w in zip(gotargs, args))
        except (AnalysisError, SyntaxError) as e:
            raise AnalysisError(f"{m.key}: {e}")
        obs.append(Ob("F-moments", key + "::parameters", cls.relpath, c.lineno, m.qualname, ok,
                      f"moments are those of sympy.stats {ctor}({', '.join(args)})" if ok else
                      f"`{src(c)[:70]}` does not construct {ctor}({', '.join(args)}): parameters {[g.canon() for g in gotargs] if from_stats else 'not from sympy.stats'}"))
        # E(x**k) (times scale**k)
        ev = [x for x in walk_no_nested(m.node) if isinstance(x, ast.Call) and call_name(x) == "EV"]
        okp = False
        if ev and ev[0].args:
            a = ev[0].args[0]
            okp = isinstance(a, ast.BinOp) and isinstance(a.op, ast.Pow) and isinstance(a.right, ast.Name) and a.right.id == k
            if scale != "1":
                def scale_rf(e):
                    """the scale factor as a rational function of the fields; follows `a, b = self.helper()` into the helper's returned tuple"""
                    if isinstance(e, ast.Name) and helper_of_rv is not None:
                        for v in mdefs.defs.get(e.id, []):
                            if type(v).__name__ == "_Elem" and v.expr is helper_of_rv[1]:
                                rets = return_exprs(helper_of_rv[0].node)
                                if len(rets) == 1 and isinstance(rets[0], ast.Tuple) and v.index < len(rets[0].elts):
                                    return nz(rets[0].elts[v.index])
                    return mnz(e)
                p = parent(ev[0])
                try:
                    okp = okp and isinstance(p, ast.BinOp) and isinstance(p.op, ast.Mult) and any(
                        isinstance(s, ast.BinOp) and isinstance(s.op, ast.Pow) and scale_rf(s.left).equiv(_rf_text(scale)) and isinstance(s.right, ast.Name) and s.right.id == k
                        for s in (p.left, p.right))
                except AnalysisError:
                    obs.append(inconclusive("F-moments", key + "::order", cls.relpath, ev[0].lineno, m.qualname, "scale factor of the moment not traced to a field"))
                    continue
            else:
                p = parent(ev[0])
                okp = okp and not (isinstance(p, ast.BinOp))
        obs.append(Ob("F-moments", key + "::order", cls.relpath, ev[0].lineno if ev else m.node.lineno, m.qualname, okp,
                      "the k-th moment is E(x**k)" + (f" * {scale}**k" if scale != "1" else "") if okp else "the requested order k is not what is integrated (or the scale factor is missing / not raised to k)"))
    return obs


def mut_moments(repo: Repo) -> List[Mutant]:
    out = []
    cases = [
        ("program/distribution/uniform.py", "(k + 1) * (self.b - self.a)", "k * (self.b - self.a)", "Uniform.get_moment::formula", True),
        ("program/distribution/exponential.py", "factorial(k) / self.lamb ** k", "factorial(k) * self.lamb ** k", "Exponential.get_moment::formula", False),
        ("program/distribution/gamma.py", "GammaDist('x', k, theta)", "GammaDist('x', theta, k)", "Gamma.get_moment::parameters", False),
        ("program/distribution/beta.py", "scale ** k * EV(x ** k)", "scale * EV(x ** k)", "Beta.get_moment::order", False),
        ("program/distribution/laplace.py", "EV(x ** k)", "EV(x ** (k + 1))", "Laplace.get_moment::order", False),
        ("program/distribution/normal.py", "NormalDist('x', mu, sigma)", "NormalDist('x', mu, sympify(self.sigma2))", "Normal.get_moment::parameters", False),
    ]
    for rp, old, new, key, control in cases:
        ov = text_mutant(repo, rp, old, new)
        if ov:
            out.append(Mutant(f"moment:{key}", ov, "fire", key, control=control))
    ov = text_mutant(repo, "program/distribution/uniform.py", "(self.b ** (k + 1) - self.a ** (k + 1)) / ((k + 1) * (self.b - self.a))",
                     "(self.a ** (k + 1) - self.b ** (k + 1)) / ((k + 1) * (self.a - self.b))")
    if ov:
        out.append(Mutant("benign-uniform-sign-flip", ov, "silent"))
    return out


# ------------------------------------------------------------------ C13/C08: where the mgf exists
MGF_DOMAIN = {
    "Exponential": ("t", "<", "$lamb"),
    "Gamma": ("t", "<", "1/$theta"),
    "Laplace": ("Abs(t)", "<", "1/$b"),
}
ALWAYS = {"Bernoulli", "Beta", "DiscreteUniform", "Normal", "TruncNormal", "Uniform"}


def rule_mgf_domain(repo: Repo) -> List[Ob]:
    obs = []
    base = repo.cls("Distribution", "program/distribution/distribution.py")
    for cls in repo.subclasses(base):
        m = cls.methods.get("mgf_exists_at")
        if m is None:
            if cls.methods.get("mgf") is not None:
                obs.append(Ob("F-mgf-domain", f"{cls.relpath}::{cls.name}.mgf_exists_at", cls.relpath, cls.node.lineno, cls.name, False, f"{cls.name} defines mgf but not mgf_exists_at"))
            continue
        key = f"{cls.relpath}::{cls.name}.mgf_exists_at"
        rets = return_exprs(m.node)
        if cls.name in ALWAYS:
            ok = all(isinstance(r, ast.Constant) and r.value is True for r in rets)
            obs.append(Ob("F-mgf-domain", key, cls.relpath, m.node.lineno, m.qualname, ok,
                          "mgf exists everywhere (bounded support or Gaussian tails)" if ok else "mgf_exists_at is not constantly True"))
            continue
        if cls.name not in MGF_DOMAIN:
            obs.append(Ob("F-mgf-domain", key, cls.relpath, m.node.lineno, m.qualname, False, f"no reviewed mgf domain for {cls.name}"))
            continue
        lhs, op, rhs = MGF_DOMAIN[cls.name]
        t = m.params()[1]
        defs = Defs(m.node, m.params()[0])
        nz = _field_normalizer(m, defs)
        comps = [c for c in walk_no_nested(m.node) if isinstance(c, ast.Compare) and len(c.ops) == 1 and isinstance(c.ops[0], (ast.Lt, ast.Gt, ast.LtE, ast.GtE))]
        ok = False
        detail = "no comparison found"
        if comps:
            c = comps[0]
            a, b, o = c.left, c.comparators[0], c.ops[0]
            if isinstance(o, (ast.Gt, ast.GtE)):
                a, b = b, a
                strict = isinstance(o, ast.Gt)
            else:
                strict = isinstance(o, ast.Lt)
            try:
                ok = strict and nz(a).equiv(_rf_text(lhs.replace("t", t) if lhs == "t" else lhs, None) if lhs == "t" else nz(ast.parse(f"Abs({t})").body[0].value)) and nz(b).equiv(_rf_text(rhs))
            except AnalysisError:
                ok = False
            detail = src(c)
        # and the answer is False unless the comparison is decided True (possibly in a shared helper)
        def decides(fn_node):
            rs = return_exprs(fn_node)
            return any(isinstance(r, ast.Constant) and r.value is False for r in rs) and any(isinstance(r, ast.Constant) and r.value is True for r in rs)
        neg = decides(m.node)
        if not neg:
            for r in rets:
                if isinstance(r, ast.Call) and isinstance(r.func, ast.Attribute) and isinstance(r.func.value, ast.Name) and r.func.value.id == m.params()[0]:
                    h = cls.find_method(r.func.attr)
                    if h is not None and decides(h.node):
                        neg = True
        if not comps:
            obs.append(inconclusive("F-mgf-domain", key, cls.relpath, m.node.lineno, m.qualname, "existence comparison not recognised"))
        elif not ok:
            obs.append(Ob("F-mgf-domain", key, cls.relpath, m.node.lineno, m.qualname, False,
                          f"existence test `{detail}` is not {lhs} {op} {rhs} (strict)"))
        elif not neg:
            obs.append(inconclusive("F-mgf-domain", key, cls.relpath, m.node.lineno, m.qualname, "handling of undecided comparisons not recognised"))
        else:
            obs.append(Ob("F-mgf-domain", key, cls.relpath, m.node.lineno, m.qualname, True,
                          f"mgf exists iff {lhs} {op} {rhs}; undecided comparisons count as 'does not exist'"))
    return obs


def mut_mgf_domain(repo: Repo) -> List[Mutant]:
    out = []
    cases = [
        ("program/distribution/exponential.py", "does_exist = t < lamb", "does_exist = t <= lamb", "Exponential.mgf_exists_at", True),
        ("program/distribution/gamma.py", "does_exist = t < 1 / theta", "does_exist = t < theta", "Gamma.mgf_exists_at", False),
        ("program/distribution/laplace.py", "does_exist = Abs(t) < 1 / b", "does_exist = t < 1 / b", "Laplace.mgf_exists_at", False),
    ]
    for rp, old, new, key, control in cases:
        ov = text_mutant(repo, rp, old, new)
        if ov:
            out.append(Mutant(f"domain:{key}", ov, "fire", key, control=control))
    return out


# ------------------------------------------------------------------ C03: indicator of an atom (Lagrange interpolation), power reduction
def _returns_with_facts(fn_node, c) -> List[Tuple[ast.AST, List[Tuple[ast.AST, bool]], int]]:
    """(returned expression, facts known when it is returned, line); conditional expressions are split"""
    out = []
    for r in walk_no_nested(fn_node):
        if not (isinstance(r, ast.Return) and r.value is not None):
            continue
        facts = []
        for t, reach in controlling_tests(c, node_for(c, r)):
            if isinstance(t.ast, ast.expr):
                facts += conjuncts(t.ast, bool(reach))
        def split(e, fs):
            if isinstance(e, ast.IfExp):
                split(e.body, fs + conjuncts(e.test, True))
                split(e.orelse, fs + conjuncts(e.test, False))
            else:
                out.append((e, fs, r.lineno))
        split(r.value, facts)
    return out


def _is_const(e, value) -> bool:
    if isinstance(e, ast.Constant):
        return e.value == value or e.value == str(value)
    if isinstance(e, ast.Call) and call_name(e) in ("sympify", "Integer", "Rational") and len(e.args) == 1:
        return _is_const(e.args[0], value)
    if isinstance(e, ast.Call) and not e.args:
        return call_name(e) == {0: "Zero", 1: "One"}.get(value)
    return False


def rule_indicator(repo: Repo) -> List[Ob]:
    obs = []
    R = "F-indicator"
    rp = "program/condition/atom_cond.py"
    m = repo.function(rp, "Atom.to_arithm")
    selfn = m.params()[0]
    mdefs = Defs(m.node, selfn)
    scopes = [(m, {}, None)] + helper_calls(repo, m, depth=1)

    def field_of(name: str, g: FunctionInfo, gdefs: Defs, binding) -> Optional[str]:
        if "." in name:
            return name.split(".", 1)[1] if name.split(".", 1)[1] in ("poly1", "poly2") and g is m else None
        e = resolve_alias(ast.Name(id=name, ctx=ast.Load()), gdefs)
        if isinstance(e, ast.Name) and g is not m and e.id in binding:
            e = resolve_alias(binding[e.id], mdefs)
        for fld in ("poly1", "poly2"):
            if is_self_attr(e, fld, selfn):
                return fld
        return None

    # (a) Lagrange factor (x - v)/(c - v) over the other values v of the type, multiplied up
    key = f"{rp}::Atom.to_arithm::lagrange"
    verdict = None   # (ok, text, line)
    for g, binding, _ in scopes:
        gdefs = Defs(g.node, g.params()[0] if g.params() else None)
        for cmpn in walk_no_nested(g.node):
            if not (isinstance(cmpn, (ast.ListComp, ast.GeneratorExp)) and len(cmpn.generators) == 1 and isinstance(cmpn.generators[0].target, ast.Name)):
                continue
            gen = cmpn.generators[0]
            v = gen.target.id
            if not any(isinstance(x, ast.BinOp) and isinstance(x.op, ast.Div) for x in ast.walk(cmpn.elt)):
                continue
            # the two quantities besides v: local names or fields of the atom (self.poly1 / self.poly2)
            gselfn = g.params()[0] if g.params() else "self"
            names = sorted(({x.id for x in ast.walk(cmpn.elt) if isinstance(x, ast.Name)} - {v, gselfn}) |
                           {src(x) for x in ast.walk(cmpn.elt) if isinstance(x, ast.Attribute) and isinstance(x.value, ast.Name) and x.value.id == gselfn})
            if len(names) != 2:
                continue
            try:
                got = Normalizer()(cmpn.elt)
            except AnalysisError:
                continue
            match = None
            for x, cst in ((names[0], names[1]), (names[1], names[0])):
                if got.equiv(Normalizer()(ast.parse(f"({x} - {v}) / ({cst} - {v})").body[0].value)):
                    match = (x, cst)
            if match is None:
                verdict = (False, f"factor `{src(cmpn.elt)}` is not (x - v)/(c - v)", cmpn.lineno)
                break
            x, cst = match
            fx, fc = field_of(x, g, gdefs, binding), field_of(cst, g, gdefs, binding)
            if fx is None or fc is None:
                verdict = (None, f"factor `{src(cmpn.elt)}` found but `{x}`/`{cst}` could not be traced to the atom's sides", cmpn.lineno)
                break
            if (fx, fc) != ("poly1", "poly2"):
                verdict = (False, f"factor `{src(cmpn.elt)}` interpolates in the constant instead of the variable (x is {fx}, c is {fc})", cmpn.lineno)
                break
            # filter: skip exactly v == c  (either in this comprehension or in the one that built the iterated list)
            filt = None
            if not gen.ifs and isinstance(gen.iter, ast.Name):
                pre = [d for d in gdefs.defs.get(gen.iter.id, []) if isinstance(d, (ast.ListComp, ast.GeneratorExp, ast.SetComp))]
                if len(pre) == 1 and len(pre[0].generators) == 1 and isinstance(pre[0].generators[0].target, ast.Name) and isinstance(pre[0].elt, ast.Name) \
                        and pre[0].elt.id == pre[0].generators[0].target.id and len(pre[0].generators[0].ifs) == 1:
                    pv = pre[0].generators[0].target.id
                    pif = pre[0].generators[0].ifs[0]
                    if isinstance(pif, ast.Compare) and len(pif.ops) == 1 and isinstance(pif.ops[0], ast.NotEq):
                        sides = {src(pif.left), src(pif.comparators[0])}
                        filt = True if sides == {pv, cst} else False if sides == {pv, x} else None
            if filt is not None:
                pass
            elif len(gen.ifs) == 1 and isinstance(gen.ifs[0], ast.Compare) and len(gen.ifs[0].ops) == 1 and isinstance(gen.ifs[0].ops[0], ast.NotEq):
                sides = {src(gen.ifs[0].left), src(gen.ifs[0].comparators[0])}
                filt = True if sides == {v, cst} else False if sides == {v, x} else None
            elif not gen.ifs:
                # unfiltered product over the type's values divides by zero at v == c; over some other iterable: not readable
                filt = False if "values" in src(gen.iter) else None
            if filt is False:
                verdict = (False, "the product over the values of the type does not skip exactly v == c", cmpn.lineno)
                break
            # consumer: a product
            par = parent(cmpn)
            prod = None
            if isinstance(par, ast.Call) and call_name(par) in ("prod", "Mul"):
                prod = True
            elif isinstance(par, ast.Starred) and isinstance(parent(par), ast.Call) and call_name(parent(par)) == "Mul":
                prod = True
            elif isinstance(par, ast.Call) and call_name(par) in ("sum", "Add"):
                prod = False
            elif isinstance(par, ast.Assign) and isinstance(par.targets[0], ast.Name):
                lst = par.targets[0].id
                for loop in walk_no_nested(g.node):
                    if isinstance(loop, ast.For) and src(loop.iter) == lst:
                        for n in ast.walk(loop):
                            if isinstance(n, ast.AugAssign):
                                prod = isinstance(n.op, ast.Mult) if isinstance(n.op, (ast.Mult, ast.Add)) else prod
                    if isinstance(loop, ast.Call) and call_name(loop) in ("prod", "Mul") and any(lst in src(a) for a in loop.args):
                        prod = True
            if prod is False:
                verdict = (False, "the Lagrange factors are added instead of multiplied", cmpn.lineno)
            elif filt is None or prod is None:
                verdict = (None, "Lagrange factor recognised; " + ("filter" if filt is None else "product accumulation") + " not recognised", cmpn.lineno)
            else:
                verdict = (True, "indicator of `x == c` is the product over the other values v of (x - v)/(c - v)", cmpn.lineno)
            break
        if verdict is not None:
            break
    if verdict is None:
        obs.append(inconclusive(R, key, rp, m.node.lineno, m.qualname, "no quotient-of-differences comprehension found in to_arithm or its helpers"))
    elif verdict[0] is None:
        obs.append(inconclusive(R, key, rp, verdict[2], m.qualname, verdict[1]))
    else:
        obs.append(Ob(R, key, rp, verdict[2], m.qualname, verdict[0], verdict[1]))

    # (b) a constant outside the type has indicator 0
    key = f"{rp}::Atom.to_arithm::outside-type"
    state = None
    member_tests = 0
    for g, binding, _ in scopes:
        c = cfg_of(g.node)
        for n in walk_no_nested(g.node):
            if isinstance(n, ast.Compare) and len(n.ops) == 1 and isinstance(n.ops[0], (ast.In, ast.NotIn)) and "values" in src(n.comparators[0]):
                member_tests += 1
        for e, facts, line in _returns_with_facts(g.node, c):
            if not _is_const(e, 0):
                continue
            for t, truth in facts:
                if isinstance(t, ast.Compare) and len(t.ops) == 1 and isinstance(t.ops[0], (ast.In, ast.NotIn)) and "values" in src(t.comparators[0]):
                    outside = (isinstance(t.ops[0], ast.NotIn)) == truth
                    state = (outside, line)
    if state is not None:
        obs.append(Ob(R, key, rp, state[1], m.qualname, state[0],
                      "a value outside the variable's type has indicator 0" if state[0] else "indicator 0 is returned for values *inside* the type"))
    elif member_tests == 0:
        obs.append(Ob(R, key, rp, m.node.lineno, m.qualname, False, "missing `value not in type -> 0` case (no membership test of the constant in the type's values)"))
    else:
        obs.append(inconclusive(R, key, rp, m.node.lineno, m.qualname, "membership test present but the zero result was not recognised"))

    # (c) refusals
    guards = []
    for g, _, _ in scopes:
        gd = Defs(g.node, g.params()[0] if g.params() else None)
        for t, _ in cfg_of(g.node).raise_guards():
            text = src(t.ast)
            # what the names of the test stand for: aliases, and the bodies of same-class helpers they were computed by
            for nm in [x for x in ast.walk(t.ast) if isinstance(x, ast.Name)]:
                r = resolve_alias(nm, gd)
                if r is not nm:
                    text += " " + src(r)
                    for hc in ast.walk(r):
                        if isinstance(hc, ast.Call) and isinstance(hc.func, ast.Attribute) and isinstance(hc.func.value, ast.Name) and hc.func.value.id == selfn and m.cls is not None:
                            hm = m.cls.find_method(hc.func.attr)
                            if hm is not None:
                                text += " " + src(hm.node)
            guards.append(text)
    okg = any("is_normalized" in t for t in guards) and any("Finite" in t for t in guards)
    obs.append(Ob(R, f"{rp}::Atom.to_arithm::preconditions", rp, m.node.lineno, m.qualname, okg,
                  "un-normalised atoms and non-finite variables are refused" if okg else "to_arithm no longer refuses un-normalised atoms / non-finite variables"))

    # (d) power reduction: what is returned under which facts
    rp2 = "program/type/finite.py"
    f = repo.function(rp2, "Finite.reduce_power")
    fself = f.params()[0]
    pw = f.params()[1]
    fdefs = Defs(f.node, fself)
    nz = _field_normalizer(f, fdefs)
    want = nz(ast.parse(f"{pw} - len({fself}.values)").body[0].value)
    c2 = cfg_of(f.node)
    key = f"{rp2}::Finite.reduce_power::cases"
    problems, unknown, seen_cases = [], [], 0
    for e, facts, line in _returns_with_facts(f.node, c2):
        e = resolve_alias(e, fdefs)
        kind = "one" if _is_const(e, 1) else "x" if is_self_attr(e, "variable", fself) else             "xp" if isinstance(e, ast.BinOp) and isinstance(e.op, ast.Pow) and is_self_attr(e.left, "variable", fself) and src(e.right) == pw else None
        if kind is None:
            continue
        seen_cases += 1
        canon = [(t, truth, cmp_canon(t, truth, nz)) for t, truth in facts]
        opaque = [src(t) for t, truth, cn in canon if cn is None and not (isinstance(t, ast.Attribute))]
        def pw_equals(k):
            return any(cn is not None and cn[1] == "==" and (cn[0].equiv(nz(ast.parse(f"{pw} - {k}").body[0].value)) or cn[0].equiv(nz(ast.parse(f"{k} - {pw}").body[0].value))) for _, _, cn in canon)
        if kind == "one":
            if not pw_equals(0):
                (unknown if opaque else problems).append(f"line {line}: 1 is returned without `{pw} == 0`")
        elif kind == "x":
            binary = any(isinstance(t, ast.Attribute) and t.attr == "binary" and truth for t, truth, _ in canon)
            if not binary and not pw_equals(1):
                (unknown if opaque else problems).append(f"line {line}: x is returned for x**{pw} without the binary test")
        else:
            good = rel = False
            for _, _, cn in canon:
                if cn is None or cn[1] not in ("<", "<="):
                    continue
                cst = (cn[0] - want)
                k = cst.int_value()
                if k is None:
                    continue
                rel = True
                if (cn[1] == "<" and k >= 0) or (cn[1] == "<=" and k >= 1):
                    good = True
            if not good:
                if rel:
                    problems.append(f"line {line}: x**{pw} is returned unreduced although {pw} may equal the number of values")
                else:
                    unknown.append(f"line {line}: no comparison of {pw} with len(values) recognised")
    if problems:
        obs.append(Ob(R, key, rp2, f.node.lineno, f.qualname, False, "power reduction cases: " + "; ".join(problems)))
    elif unknown or not seen_cases:
        obs.append(inconclusive(R, key, rp2, f.node.lineno, f.qualname, "; ".join(unknown) or "no special-case returns recognised"))
    else:
        obs.append(Ob(R, key, rp2, f.node.lineno, f.qualname, True, "x**0 = 1; binary: x**k = x; k < |values|: unchanged; else interpolation"))

    # (e) binary means: all values in {0, 1}
    b = repo.function(rp2, "Finite.__init__")
    # every field that carries the values onwards (the ordered tuple the power reduction is computed from) holds the values themselves
    bself = b.params()[0]
    bdefs = Defs(b.node, bself)
    LOSSY = {"int", "float", "round", "floor", "ceiling", "N", "evalf", "trunc", "Float"}
    for st in walk_no_nested(b.node):
        if not (isinstance(st, ast.Assign) and len(st.targets) == 1 and is_self_attr(st.targets[0], None, bself)):
            continue
        fld = st.targets[0].attr
        if fld in ("binary",):
            continue
        r = bdefs.roots(st.value)
        if not ({"attr:values"} & r or any(x.startswith("param:") for x in r)):
            continue
        keyv = f"{rp2}::Finite.__init__::values-kept::{fld}"
        lossy = [c0 for c0 in ast.walk(st.value) if isinstance(c0, ast.Call) and (call_name(c0) or "") in LOSSY]
        if lossy:
            obs.append(Ob(R, keyv, rp2, st.lineno, b.qualname, False,
                          f"`{src(st)[:80]}` passes the values through `{call_name(lossy[0])}`: a finite type with non-integer values (1/2, 3/2) is reduced as if its values were their truncations"))
        else:
            obs.append(Ob(R, keyv, rp2, st.lineno, b.qualname, True, f"self.{fld} holds the type's values unchanged"))
    key = f"{rp2}::Finite.__init__::binary"
    bassign = next((n for n in walk_no_nested(b.node) if isinstance(n, ast.Assign) and is_self_attr(n.targets[0], "binary", b.params()[0])), None)
    if bassign is None:
        obs.append(inconclusive(R, key, rp2, b.node.lineno, b.qualname, "assignment of self.binary not found in __init__"))
    else:
        def zero_one_all(e):
            if isinstance(e, ast.Call) and call_name(e) in ("all", "any") and e.args and isinstance(e.args[0], (ast.ListComp, ast.GeneratorExp)):
                elt = e.args[0].elt
                if isinstance(elt, ast.BoolOp) and isinstance(elt.op, ast.Or) and all(isinstance(x, ast.Compare) and isinstance(x.ops[0], ast.Eq) for x in elt.values):
                    # v == 0 or 0 == v: the constant side
                    consts = sorted(src(x.comparators[0] if not isinstance(x.left, ast.Constant) else x.left) for x in elt.values)
                    return call_name(e), consts
                if isinstance(elt, ast.Compare) and len(elt.ops) == 1 and isinstance(elt.ops[0], ast.In):
                    consts = sorted(src(x) for x in getattr(elt.comparators[0], "elts", []))
                    return call_name(e), consts
            return None
        val = bassign.value
        tops = val.values if isinstance(val, ast.BoolOp) else [val]
        found = [(zero_one_all(t), t) for t in tops]
        hit = next((z for z, _ in found if z is not None), None)
        if hit is None:
            obs.append(inconclusive(R, key, rp2, bassign.lineno, b.qualname, "definition of `binary` not recognised"))
        else:
            okb = hit[0] == "all" and hit[1] == ["0", "1"] and not (isinstance(val, ast.BoolOp) and isinstance(val.op, ast.Or))
            obs.append(Ob(R, key, rp2, bassign.lineno, b.qualname, okb,
                          "binary implies all values in {0, 1}" if okb else f"`binary` no longer implies that all values are in {{0,1}} (`{src(val)[:80]}`); x**k = x holds only then"))

    # (f) Vandermonde interpolation: result = w . V^-1 . xs with V[i][j] = v_j**i (or the transposed arrangement)
    rp3 = "utils/finite_power_reduction.py"
    h = repo.function(rp3, "get_reduced_powers")
    key = f"{rp3}::get_reduced_powers::vandermonde"
    hscopes = [(h, {}, None)] + helper_calls(repo, h, depth=1)
    orient = None     # "col": values indexed by the column index
    inverted = False
    for g, _, _ in hscopes:
        for n in walk_no_nested(g.node):
            if isinstance(n, ast.Call) and call_name(n) == "inv":
                inverted = True
            if isinstance(n, ast.Assign) and isinstance(n.targets[0], ast.Subscript) and isinstance(n.targets[0].slice, ast.Tuple) and len(n.targets[0].slice.elts) == 2:
                ri, ci = [src(x) for x in n.targets[0].slice.elts]
                for pe in ast.walk(n.value):
                    if isinstance(pe, ast.BinOp) and isinstance(pe.op, ast.Pow) and isinstance(pe.left, ast.Subscript):
                        vi, ei = src(pe.left.slice), src(pe.right)
                        if (vi, ei) == (ci, ri):
                            orient = "col"
                        elif (vi, ei) == (ri, ci):
                            orient = "row"
                        else:
                            orient = "bad"
    hdefs = Defs(h.node, None)
    prodexpr = None
    for n in walk_no_nested(h.node):
        if isinstance(n, ast.BinOp) and isinstance(n.op, ast.Mult) and isinstance(n.left, ast.BinOp) and isinstance(n.left.op, ast.Mult):
            prodexpr = n
    side = None
    if prodexpr is not None:
        def vec_kind(e):
            if isinstance(e, ast.Attribute) and e.attr == "T":
                e = e.value
            e = resolve_alias(e, hdefs)
            if isinstance(e, ast.Call) and e.args:
                e = e.args[0]
            if isinstance(e, (ast.ListComp, ast.GeneratorExp)):
                it = e.generators[0].iter
                return "powers-of-symbol" if isinstance(it, ast.Call) and call_name(it) == "range" else "values-to-power"
            return None
        lk, rk = vec_kind(prodexpr.left.left), vec_kind(prodexpr.right)
        if lk and rk and lk != rk:
            side = "left" if lk == "values-to-power" else "right"
    if orient is None or side is None or not inverted:
        obs.append(inconclusive(R, key, rp3, h.node.lineno, h.qualname, "Vandermonde matrix / product not recognised"))
    else:
        okm = orient != "bad" and ((orient == "col") == (side == "left"))
        obs.append(Ob(R, key, rp3, h.node.lineno, h.qualname, okm,
                      "x**power = (v_j**power)_j . V^-1 . (x**p)_p with V[i][j] = v_j**i" if okm else
                      f"Vandermonde matrix is filled {orient}-wise but the vector of value powers multiplies from the {side}: the interpolation solves the transposed system"))
    return obs


def mut_indicator(repo: Repo) -> List[Mutant]:
    out = []
    cases = [
        ("program/condition/atom_cond.py", "(var - v) / (value - v)", "(var - v) / (v - value)", "lagrange", True),
        ("program/condition/atom_cond.py", "if v != value", "if v != var", "lagrange", False),
        ("program/type/finite.py", "if power < len(self.values):", "if power <= len(self.values):", "reduce_power::cases", False),
        ("program/type/finite.py", "len(self.values) <= 2 and all", "len(self.values) <= 2 or all", "Finite.__init__::binary", False),
        ("utils/finite_power_reduction.py", "mat[i, j] = values[j] ** i", "mat[i, j] = values[i] ** j", "vandermonde", False),
    ]
    for rp, old, new, key, control in cases:
        ov = text_mutant(repo, rp, old, new)
        if ov:
            out.append(Mutant(f"indicator:{key}:{old[:12]}", ov, "fire", key, control=control))
    ov = text_mutant(repo, "program/condition/atom_cond.py", "(var - v) / (value - v)", "(v - var) / (v - value)")
    if ov:
        out.append(Mutant("benign-both-signs-flipped", ov, "silent"))
    return out


# ------------------------------------------------------------------ C03/C01: backward substitution and system assembly
def rule_rec_builder(repo: Repo) -> List[Ob]:
    obs = []
    rp = "recurrences/rec_builder.py"
    cls = repo.cls("RecBuilder", rp)
    gr = cls.methods["get_recurrence"]
    s = src(gr.node)
    loops = [n for n in walk_no_nested(gr.node) if isinstance(n, ast.For)]
    ok = bool(loops) and re.fullmatch(r"reversed\(range\(\w+ \+ 1\)\)", src(loops[0].iter)) is not None and "self.program.loop_body[i]" in s
    obs.append(Ob("F-rec-builder", f"{rp}::RecBuilder.get_recurrence::backward", rp, gr.node.lineno, gr.qualname, ok,
                  "assignments are substituted from the last relevant one (inclusive) back to the first" if ok else "the body is not traversed as reversed(range(last + 1))"))
    li = cls.methods["_get_last_assign_index"]
    sl = src(li.node)
    ok = "max_index = -1" in sl and re.search(r"if self\.program\.var_to_index\[v\] > max_index", sl) is not None and "max_index = self.program.var_to_index[v]" in sl or "max(" in sl
    obs.append(Ob("F-rec-builder", f"{rp}::RecBuilder._get_last_assign_index::max", rp, li.node.lineno, li.qualname, bool(ok),
                  "the starting point is the largest assignment index of the monomial's variables" if ok else "last-assignment index is not the maximum over the monomial's variables"))
    # power reduction after every replacement and at the end
    calls = [c for c in walk_no_nested(gr.node) if isinstance(c, ast.Call) and call_name(c) == "_reduce_powers"]
    in_loop = [c for c in calls if any(isinstance(a, ast.For) for a in ancestors(c))]
    ok = len(calls) >= 2 and bool(in_loop) and len(in_loop) < len(calls)
    obs.append(Ob("F-rec-builder", f"{rp}::RecBuilder.get_recurrence::reduce", rp, gr.node.lineno, gr.qualname, ok,
                  "powers of finite variables are reduced after each substitution and once at the end" if ok else "power reduction is missing after substitutions or at the end"))
    # replace: moment of assignment^power * rest summed over terms; rest without the variable is kept
    ra = cls.methods["_replace_assign"]
    sr = src(ra.node)
    ok = "get_terms_with_var(poly, assign.variable)" in sr and "result = rest_without_var" in sr and "assign.get_moment(var_power, self.context, cond, rest)" in sr \
        and "assign.condition.to_arithm(self.program)" in sr and "variables = [assign.variable] + triggers" in sr and "var_powers[0]" in sr and "zip(triggers, var_powers[1:])" in sr
    obs.append(Ob("F-rec-builder", f"{rp}::RecBuilder._replace_assign::terms", rp, ra.node.lineno, ra.qualname, ok,
                  "wp(assign, poly) = rest + sum over terms of E(assign**power * cofactor | condition indicator); trigger variables ride along with their powers" if ok else
                  "term decomposition of _replace_assign changed (rest / power / cofactor / trigger pairing)"))
    # initial values: reversed initial block, then x -> x0 for the monomial's variables
    gi = cls.methods["get_initial_value"]
    si = src(gi.node)
    ok = "reversed(self.program.initial)" in si and re.search(r"Symbol\(f'\{sym\}0'\)", si) is not None and "monom.free_symbols.difference(self.program.symbols)" in si
    obs.append(Ob("F-rec-builder", f"{rp}::RecBuilder.get_initial_value::init", rp, gi.node.lineno, gi.qualname, ok,
                  "initial moments substitute the initial block backwards; uninitialised variables become the symbol <name>0" if ok else "initial value computation changed (order / <name>0 convention)"))
    # the typer uses the same <name>0 convention
    ty = repo.function("type_inference/finite_fixed_point_typer.py", "FiniteFixedPointTyper._initialize_state")
    okc = "Symbol(str(assign.variable) + '0')" in src(ty.node)
    obs.append(Ob("F-rec-builder", "type_inference/finite_fixed_point_typer.py::_initialize_state::name0", ty.relpath, ty.node.lineno, ty.qualname, okc,
                  "type inference names unknown initial values <name>0 like the recurrence builder" if okc else "typer and recurrence builder disagree on the name of unknown initial values"))
    # closure: every monomial of a right-hand side is processed
    gs = cls.methods["get_recurrences"]
    sg = src(gs.node)
    ok = "while to_process" in sg and "to_process.pop()" in sg and "if monom not in processed" in sg and "to_process.add(monom)" in sg and "self.get_initial_values(processed)" in sg \
        and "constant_symbols=self.program.symbols" in sg
    obs.append(Ob("F-rec-builder", f"{rp}::RecBuilder.get_recurrences::closure", rp, gs.node.lineno, gs.qualname, ok,
                  "worklist closure: every monomial occurring on a right-hand side gets its own equation and initial value" if ok else "worklist closure over right-hand-side monomials changed"))
    # system assembly
    rp2 = "recurrences/recurrences.py"
    ini = repo.function(rp2, "Recurrences._init_data")
    s2 = src(ini.node)
    ok = "current_coeffs[monom] += coeff" in s2 and "if monom == 1" in s2 and "current_coeffs[monom] = coeff" in s2 and "with_constant=True" in s2 \
        and "initial_values.append(sympify(1))" in s2 and "[sympify(0) for _ in self.monomials] + [sympify(1)]" in s2 and "cs.append(sympify(0))" in s2
    obs.append(Ob("F-rec-builder", f"{rp2}::Recurrences._init_data::matrix", rp2, ini.node.lineno, ini.qualname, ok,
                  "coefficients of equal monomials are added up; a constant part becomes an extra coordinate with value 1 and recurrence 1" if ok else
                  "assembly of the recurrence matrix changed (coefficient accumulation / constant coordinate)"))
    gm = repo.function("utils/expressions.py", "get_monoms")
    s3 = src(gm.node)
    ok = "if part.free_symbols.difference(constant_symbols)" in s3 and "monom *= part" in s3 and "coeff *= part" in s3 and "constant += term" in s3 and "if with_constant and constant != 0" in s3
    obs.append(Ob("F-rec-builder", "utils/expressions.py::get_monoms::split", gm.relpath, gm.node.lineno, gm.qualname, ok,
                  "each term is split into (coefficient over constant symbols) x (monomial over program variables); constant terms are collected" if ok else "coefficient / monomial split changed"))
    return obs


def mut_rec_builder(repo: Repo) -> List[Mutant]:
    out = []
    cases = [
        ("recurrences/rec_builder.py", "reversed(range(last_assign_index + 1))", "reversed(range(last_assign_index))", "get_recurrence::backward", True),
        ("recurrences/rec_builder.py", "for assign in reversed(self.program.initial):", "for assign in self.program.initial:", "get_initial_value::init", False),
        ("recurrences/recurrences.py", "current_coeffs[monom] += coeff", "current_coeffs[monom] = coeff", "_init_data::matrix", False),
        ("recurrences/rec_builder.py", "result = rest_without_var", "result = 0", "_replace_assign::terms", False),
        ("recurrences/rec_builder.py", "if monom not in processed:", "if monom not in recurrence_dict and len(processed) < 50:", "get_recurrences::closure", False),
    ]
    for rp, old, new, key, control in cases:
        ov = text_mutant(repo, rp, old, new)
        if ov:
            out.append(Mutant(f"recbuilder:{key}", ov, "fire", key, control=control))
    return out


# ------------------------------------------------------------------ C01: special cases and offsets of the two solvers
def rule_solver_shape(repo: Repo) -> List[Ob]:
    obs = []
    rp = "recurrences/solver/acyclic_solver.py"
    g = repo.function(rp, "AcyclicSolver.get")
    s = src(g.node)
    ok = re.search(r"Piecewise\(\(self\.recurrences\.init_values_vector\[monom_index\], self\.n <= 0\), \(solution, True\)\)", s) is not None and "self.monom_to_index[monomial]" in s
    obs.append(Ob("F-solver-shape", f"{rp}::AcyclicSolver.get::special-case", rp, g.node.lineno, g.qualname, ok,
                  "value at n <= 0 is the monomial's own initial value; the summed solution holds from n = 1" if ok else "special case n <= 0 / index of the initial value changed"))
    w = repo.function(rp, "AcyclicSolver._get_without_zero")
    sw = src(w.node)
    ok = "if i == monom_index" in sw and "rec_coeff = coeff" in sw and "inhom_part += coeff * sol" in sw and "self.recurrences.recurrence_matrix[monom_index, -1]" in sw \
        and "inhom_part.xreplace({self.n: self.n - 1})" in sw and "(self.recurrences.recurrence_matrix * self.recurrences.init_values_vector)[monom_index]" in sw
    obs.append(Ob("F-solver-shape", f"{rp}::AcyclicSolver._get_without_zero::decomposition", rp, w.node.lineno, w.qualname, ok,
                  "x(n+1) = c x(n) + inhom(n): own coefficient separated, other solutions substituted, value at n = 1 from one matrix step" if ok else "decomposition into own coefficient / inhomogeneous part / first value changed"))
    sm = repo.function(rp, "AcyclicSolver._solve_rec_by_summing")
    ss = src(sm.node)
    ok = "rec_coeff ** (self.n - 1) * first_value" in ss and "rec_coeff ** (self.n - k - 1) * inhom_part.xreplace({self.n: k})" in ss and "summation(summand, (k, 1, self.n - 1))" in ss
    obs.append(Ob("F-solver-shape", f"{rp}::AcyclicSolver._solve_rec_by_summing::sum", rp, sm.node.lineno, sm.qualname, ok,
                  "x(n) = c**(n-1) x(1) + sum_{k=1}^{n-1} c**(n-k-1) inhom(k)" if ok else "geometric summation bounds / exponents changed"))
    rp2 = "recurrences/solver/cyclic_solver.py"
    b = repo.function(rp2, "CyclicSolver._add_beginning_values")
    sb = src(b.node)
    ok = "beginning_values = [self.recurrences.init_values_vector]" in sb and "range(self.characteristic_poly.degree() - 1)" in sb \
        and "self.recurrences.recurrence_matrix * beginning_values[-1]" in sb and "for i, v in enumerate(beginning_values)" in sb and "(v[monom_index], self.n <= i)" in sb \
        and "pieces.append((solution, True))" in sb
    obs.append(Ob("F-solver-shape", f"{rp2}::CyclicSolver._add_beginning_values::special-cases", rp2, b.node.lineno, b.qualname, ok,
                  "the first deg(charpoly) iterates A^i v (i = 0..deg-1) are listed as cases n <= i before the general formula" if ok else "number / indexing of the listed beginning values changed"))
    u = repo.function(rp2, "CyclicSolver._solve_for_unknowns")
    su = src(u.node)
    ok = "concrete_values = [self.recurrences.init_values_vector]" in su and "for n in range(1, number_equations + 1)" in su and "self.general_solution.xreplace({self.n: n}) - concrete_values[n][monom_index]" in su \
        and "next_n = number_equations + 1" in su and "self.general_solution.xreplace({self.n: next_n}) - concrete_values[-1][monom_index]" in su
    obs.append(Ob("F-solver-shape", f"{rp2}::CyclicSolver._solve_for_unknowns::equations", rp2, u.node.lineno, u.qualname, ok,
                  "constants are fitted on general(n) = (A^n v)[monomial] for n = 1, 2, ... (same n on both sides)" if ok else "pairing of n between the ansatz and the iterates changed"))
    gsol = repo.function(rp2, "CyclicSolver._compute_general_solution")
    sg = src(gsol.node)
    ok = "for i in range(multiplicity)" in sg and "if root != 0" in sg and "new_unknown * self.n ** i" in sg and "if root != 1" in sg and "term * root ** self.n" in sg
    obs.append(Ob("F-solver-shape", f"{rp2}::CyclicSolver._compute_general_solution::ansatz", rp2, gsol.node.lineno, gsol.qualname, ok,
                  "ansatz sum over non-zero roots r with multiplicity m of C n**i r**n, i < m" if ok else "ansatz over roots / multiplicities changed"))
    d = repo.function("recurrences/solver/recurrence_solver.py", "RecurrenceSolver.__init__")
    sd = src(d.node)
    ok = "if recurrences.is_acyclic and (not force_cyclic_solver)" in sd and "AcyclicSolver(recurrences)" in sd and "CyclicSolver(recurrences, numeric_roots, numeric_croots, numeric_eps)" in sd
    obs.append(Ob("F-solver-shape", "recurrences/solver/recurrence_solver.py::RecurrenceSolver.__init__::dispatch", d.relpath, d.node.lineno, d.qualname, ok,
                  "summation solver only for acyclic systems, characteristic-root solver otherwise, options passed in order" if ok else "solver dispatch / option order changed"))
    ac = repo.function("recurrences/recurrences.py", "Recurrences._init_is_acyclic")
    sa = src(ac.node)
    ok = "if not ds" in sa and "self.is_acyclic = False" in sa and "ds.discard(next_var)" in sa and "dependencies.pop(next_var)" in sa
    obs.append(Ob("F-solver-shape", "recurrences/recurrences.py::Recurrences._init_is_acyclic::toposort", ac.relpath, ac.node.lineno, ac.qualname, ok,
                  "acyclic iff the dependency graph can be peeled completely" if ok else "acyclicity test changed"))
    # printing / evaluation helpers
    pp = repo.function("cli/common.py", "prettify_piecewise")
    sp = src(pp.node)
    ok = "for n in range(max_case + 1)" in sp and "expression.subs({Symbol('n', integer=True): n})" in sp and "unpack_piecewise(expression)" in sp
    obs.append(Ob("F-solver-shape", "cli/common.py::prettify_piecewise::cases", pp.relpath, pp.node.lineno, pp.qualname, ok,
                  "special cases n = 0..max_case are printed before the general formula" if ok else "printing of the special cases changed"))
    ev = repo.function("utils/expressions.py", "eval_re")
    se = src(ev.node)
    ok = "symbols('n'): n" in se and "symbols('n', integer=True): n" in se
    obs.append(Ob("F-solver-shape", "utils/expressions.py::eval_re::both-n", ev.relpath, ev.node.lineno, ev.qualname, ok,
                  "--at_n substitutes both spellings of the iteration symbol" if ok else "eval_re no longer substitutes both n symbols"))
    mx = repo.function("utils/expressions.py", "get_max_case_in_piecewise")
    sx = src(mx.node)
    ok = "isinstance(cond, LessThan)" in sx and "k = max(k, int(cond.args[1]))" in sx
    obs.append(Ob("F-solver-shape", "utils/expressions.py::get_max_case_in_piecewise::max", mx.relpath, mx.node.lineno, mx.qualname, ok,
                  "the number of listed special cases is the largest k of the conditions n <= k" if ok else "maximum special case computation changed"))
    return obs


def mut_solver_shape(repo: Repo) -> List[Mutant]:
    out = []
    cases = [
        ("recurrences/solver/cyclic_solver.py", "range(self.characteristic_poly.degree() - 1)", "range(self.characteristic_poly.degree() - 2)", "_add_beginning_values", True),
        ("recurrences/solver/acyclic_solver.py", "summation(summand, (k, 1, self.n - 1))", "summation(summand, (k, 0, self.n - 1))", "_solve_rec_by_summing", False),
        ("recurrences/solver/cyclic_solver.py", "concrete_values[n][monom_index]", "concrete_values[n - 1][monom_index]", "_solve_for_unknowns", False),
        ("recurrences/solver/acyclic_solver.py", "self.n <= 0", "self.n <= 1", "AcyclicSolver.get::special-case", False),
        ("cli/common.py", "range(max_case + 1)", "range(max_case)", "prettify_piecewise", False),
    ]
    for rp, old, new, key, control in cases:
        ov = text_mutant(repo, rp, old, new)
        if ov:
            out.append(Mutant(f"solver:{key}", ov, "fire", key, control=control))
    return out


# ------------------------------------------------------------------ C15: the two query programs
def rule_queries(repo: Repo) -> List[Ob]:
    obs = []
    rp = "bayesnet/query/exact_inference_query.py"
    cls = repo.cls("ExactInferenceQuery", rp)
    init = src(cls.methods["generate_init_code"].node)
    loop = src(cls.methods["generate_loop_code"].node)
    qry = src(cls.methods["generate_query"].node)
    resf = src(cls.methods["generate_result"].node)
    ok = "self.indicator_name + ' = 0'" in init and "self.inference_name + ' = 0'" in init
    obs.append(Ob("F-queries", f"{rp}::generate_init_code::zero", rp, cls.methods["generate_init_code"].node.lineno, "ExactInferenceQuery.generate_init_code", ok,
                  "indicator and product variables start at 0" if ok else "initial values of the query variables changed"))
    ok = "{self.indicator_name} = 1" in loop and "{self.indicator_name} = 0" in loop and "else:" in loop and \
        re.search(r"\{self\.inference_name\} = \{polar_variable_mapping\[self\.target_variable\]\} \* \{self\.indicator_name\}", loop) is not None \
        and loop.index("= 1") < loop.index("else:") < loop.index("= 0'")
    obs.append(Ob("F-queries", f"{rp}::generate_loop_code::indicator", rp, cls.methods["generate_loop_code"].node.lineno, "ExactInferenceQuery.generate_loop_code", ok,
                  "indicator = [all evidence holds]; product variable = target * indicator (after the indicator is set)" if ok else "indicator / product construction changed"))
    ok = "E({self.inference_name}**{self.target_power})" in qry and "E({self.indicator_name})" in qry and qry.index("inference_name") < qry.index("E({self.indicator_name})")
    obs.append(Ob("F-queries", f"{rp}::generate_query::goals", rp, cls.methods["generate_query"].node.lineno, "ExactInferenceQuery.generate_query", ok,
                  "goals are E((target*ind)**k) and E(ind), in this order" if ok else "query goals changed"))
    ok = "exp_val_inference = results[0]" in resf and "exp_val_indicator = results[1]" in resf and "transform_to_after_loop(exp_val_inference / exp_val_indicator)" in resf
    obs.append(Ob("F-queries", f"{rp}::generate_result::ratio", rp, cls.methods["generate_result"].node.lineno, "ExactInferenceQuery.generate_result", ok,
                  "E(X^k | evidence) = lim E((X ind)^k) / E(ind)" if ok else "conditional expectation is not results[0] / results[1] in the limit"))
    ini = src(cls.methods["__init__"].node)
    ok = "self.target_power = 1" in ini and "self.target_power = int(target_expr[1])" in ini and "split('**')" in ini
    obs.append(Ob("F-queries", f"{rp}::__init__::power", rp, cls.methods["__init__"].node.lineno, "ExactInferenceQuery.__init__", ok,
                  "VAR**k is split into variable and integer power (default 1)" if ok else "parsing of the target power changed"))
    rp2 = "bayesnet/query/sampling_time_query.py"
    c2 = repo.cls("SamplingTimeQuery", rp2)
    init = src(c2.methods["generate_init_code"].node)
    loop = src(c2.methods["generate_loop_code"].node)
    ok = "self.count_name + ' = 1'" in init and "self.continue_name + ' = 1'" in init
    obs.append(Ob("F-queries", f"{rp2}::generate_init_code::one", rp2, c2.methods["generate_init_code"].node.lineno, "SamplingTimeQuery.generate_init_code", ok,
                  "counter and continue flag start at 1" if ok else "initial values of counter / flag changed"))
    ok = "{self.continue_name} = 0" in loop and "{self.count_name} = {self.count_name} + {self.continue_name}" in loop and loop.index("continue_name} = 0") < loop.index("count_name} = {")
    obs.append(Ob("F-queries", f"{rp2}::generate_loop_code::counter", rp2, c2.methods["generate_loop_code"].node.lineno, "SamplingTimeQuery.generate_loop_code", ok,
                  "the flag is cleared when the evidence is seen, then the counter grows by the flag" if ok else "stop flag / counter update changed"))
    resf = src(c2.methods["generate_result"].node)
    ok = "transform_to_after_loop(exp_val_count)" in resf and "results[0]" in resf
    obs.append(Ob("F-queries", f"{rp2}::generate_result::limit", rp2, c2.methods["generate_result"].node.lineno, "SamplingTimeQuery.generate_result", ok,
                  "expected sampling time = lim E(count)" if ok else "sampling time is not the limit of E(count)"))
    # evidence conjunction: all but the last joined by &&, then the last
    for c_, rp_ in ((cls, rp), (c2, rp2)):
        lp = src(c_.methods["generate_loop_code"].node)
        ok = "' && '" in lp and re.search(r"range\(len\(self\.\w+\) - 1\)", lp) is not None and "[-1]" in lp and "+ ':'" in lp
        obs.append(Ob("F-queries", f"{rp_}::generate_loop_code::conjunction", rp_, c_.methods["generate_loop_code"].node.lineno, f"{c_.name}.generate_loop_code", ok,
                      "the evidence condition is the conjunction of all evidence atoms" if ok else "not all evidence atoms are conjoined"))
    return obs


def mut_queries(repo: Repo) -> List[Mutant]:
    out = []
    cases = [
        ("bayesnet/query/exact_inference_query.py", "exp_val_inference / exp_val_indicator", "exp_val_indicator / exp_val_inference", "generate_result::ratio", True),
        ("bayesnet/query/sampling_time_query.py", "self.count_name + ' = 1'", "self.count_name + ' = 0'", "generate_init_code::one", False),
        ("bayesnet/query/exact_inference_query.py", "range(len(self.evidence) - 1)", "range(len(self.evidence) - 2)", "conjunction", False),
    ]
    for rp, old, new, key, control in cases:
        ov = text_mutant(repo, rp, old, new)
        if ov:
            out.append(Mutant(f"query:{key}", ov, "fire", key, control=control))
    return out


# ------------------------------------------------------------------ C09: the limit after the loop
def rule_after_limit(repo: Repo) -> List[Ob]:
    obs = []
    t = repo.function("cli/common.py", "transform_to_after_loop")
    s = src(t.node)
    ok = "limit_seq(unpack_piecewise(e), Symbol('n'))" in s and "isinstance(element, dict)" in s and "{k: trans_single(v) for k, v in element.items()}" in s
    obs.append(Ob("F-after-limit", "cli/common.py::transform_to_after_loop::limit", t.relpath, t.node.lineno, t.qualname, ok,
                  "after-loop value = limit n -> oo of the general (default) branch, element-wise for dicts" if ok else "the after-loop transformation is not limit_seq of the unpacked general branch"))
    u = repo.function("utils/expressions.py", "unpack_piecewise")
    su = src(u.node)
    ok = "if cond.is_Boolean and cond == True" in su and "raise RuntimeError" in su and "expression.func(*new_args)" in su
    obs.append(Ob("F-after-limit", "utils/expressions.py::unpack_piecewise::default-branch", u.relpath, u.node.lineno, u.qualname, ok,
                  "every Piecewise is replaced by its default (condition True) branch, recursively; a Piecewise without default is refused" if ok else "unpack_piecewise no longer selects the default branch"))
    return obs


def mut_after_limit(repo: Repo) -> List[Mutant]:
    ov = text_mutant(repo, "utils/expressions.py", "if cond.is_Boolean and cond == True:", "if cond.is_Boolean or cond == True:")
    out = [Mutant("first-branch-unpacked", ov, "fire", "unpack_piecewise", control=True)] if ov else []
    return out


RULES = {
    "MOMENTS": Rule("F-moments", rule_moments, 10, "raw-moment code of each family is the textbook closed form / the sympy.stats variable with the family's parameter convention, at order k", mut_moments, soft=True),
    "MGFDOMAIN": Rule("F-mgf-domain", rule_mgf_domain, 9, "mgf_exists_at encodes the family's domain of the mgf (strict inequality; undecided => does not exist)", mut_mgf_domain, soft=True),
    "INDICATOR": Rule("F-indicator", rule_indicator, 4, "Atom.to_arithm is the Lagrange indicator over the finite type; power reduction cases", mut_indicator, soft=True),
}
# rule_rec_builder / rule_solver_shape / rule_queries / rule_after_limit compare frozen source fragments: they cannot tell a
# behaviour-preserving rewrite from a defect and are therefore NOT registered (kept for reference only).
