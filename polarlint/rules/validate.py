"""Family E: must-check / must-validate / must-pass-through obligations decided on the CFG."""
import ast
import re
from typing import Dict, List, Optional, Set, Tuple

from ..model import Repo, ClassInfo, FunctionInfo, AnalysisError, walk_no_nested, src, is_self_attr, call_name, dotted, parent, \
    ancestors, enclosing_stmt, const_str
from ..core import Ob, Rule, Mutant, mutate_module, find_def, replace_node, remove_stmt, inconclusive, text_mutant
from ..dataflow import Defs
from ..cfg import cfg_of, CFG, Node


# ------------------------------------------------------------------ helpers
def loop_heads(c: CFG) -> Set[Node]:
    return {n for n in c.nodes if n.kind == "test" and isinstance(n.stmt, (ast.For, ast.While)) and n.label in ("for", "while")}


def controlling_tests(c: CFG, sink: Node) -> List[Tuple[Node, object]]:
    """tests T that dominate `sink` and decide whether it runs *in the same loop iteration*:
    for some outcome of T the sink is unreachable without passing a loop head again.
    Returns (T, outcome that still reaches the sink)."""
    out = []
    heads = loop_heads(c)
    for t in c.nodes:
        if t.kind != "test" or t is sink or t.label == "for" or not c.dominates(t, sink):
            continue
        outcomes = {}
        for b, lab in c.succ[t]:
            if lab in (True, False):
                outcomes[lab] = b is sink or c.reachable(b, sink, avoid=(heads - {sink}) | {t})
        if len(outcomes) == 2 and outcomes[True] != outcomes[False]:
            out.append((t, True if outcomes[True] else False))
    return out


def comprehension_conditions(astnode) -> List[ast.AST]:
    """`if` clauses of the comprehensions enclosing astnode (they guard the element like a test with outcome True)"""
    out = []
    for a in ancestors(astnode):
        if isinstance(a, (ast.ListComp, ast.SetComp, ast.GeneratorExp, ast.DictComp)):
            for g in a.generators:
                out += list(g.ifs)
        if isinstance(a, (ast.FunctionDef, ast.AsyncFunctionDef)):
            break
    return out


def helper_bodies(repo: Repo, f: FunctionInfo, expr) -> List[FunctionInfo]:
    """same-class / same-module functions called inside `expr`"""
    out = []
    for x in ast.walk(expr):
        if isinstance(x, ast.Call):
            h = None
            if isinstance(x.func, ast.Attribute) and isinstance(x.func.value, ast.Name) and x.func.value.id in ("self", "cls") and f.cls is not None:
                h = f.cls.find_method(x.func.attr)
            elif isinstance(x.func, ast.Name):
                h = next((g for g in repo.functions if g.module is f.module and g.cls is None and g.name == x.func.id), None)
            if h is not None and h.node is not f.node:
                out.append(h)
    return out


def node_for(c: CFG, astnode) -> Node:
    n = c.node_of(astnode)
    if n is None:
        raise AnalysisError(f"cfg node for `{src(astnode)[:50]}` not found")
    return n


def raise_guards_before(c: CFG, sink: Node) -> List[Node]:
    return [t for t, _ in c.validators_dominating(sink)]


def _calls(fn_node, name) -> List[ast.Call]:
    return [x for x in walk_no_nested(fn_node) if isinstance(x, ast.Call) and call_name(x) == name]


# ------------------------------------------------------------------ C02: constant folding looks at the folded value
def rule_constants_guard(repo: Repo) -> List[Ob]:
    f = repo.function("program/transformer/constants_transformer.py", "ConstantsTransformer.execute")
    c = cfg_of(f.node)
    defs = Defs(f.node, f.params()[0])
    # the substitution map: a dict that is passed on to `.subs(...)` of guard / assignments
    maps = set()
    for call in walk_no_nested(f.node):
        if isinstance(call, ast.Call) and (call_name(call) in ("subs", "_subs_in_assigns")):
            for a in call.args:
                if isinstance(a, ast.Name):
                    maps.add(a.id)
    stores = []
    for n in walk_no_nested(f.node):
        if isinstance(n, ast.Assign):
            for t in n.targets:
                if isinstance(t, ast.Subscript) and isinstance(t.value, ast.Name) and t.value.id in maps:
                    stores.append(n)
    if not stores:
        raise AnalysisError("ConstantsTransformer: insertion into the substitution map not found")
    obs = []
    for st in stores:
        sink = node_for(c, st)
        tests = controlling_tests(c, sink)
        roots = set()
        text = ""
        for t, _ in tests:
            roots |= defs.roots(t.ast)
            text += " " + src(t.ast)
            for h in helper_bodies(repo, f, t.ast):
                text += " " + src(h.node)
                roots |= Defs(h.node, None).roots(ast.Tuple(elts=[r.value for r in walk_no_nested(h.node) if isinstance(r, ast.Return) and r.value is not None], ctx=ast.Load()))
                if "loop_body" in src(h.node) or any("loop_body" in src(a) or "attr:loop_body" in defs.roots(a) for x in ast.walk(t.ast) if isinstance(x, ast.Call) for a in x.args):
                    roots.add("attr:loop_body")
        looks_at_symbols = "attr:free_symbols" in roots or "call:get_free_symbols" in str(roots) or "free_symbols" in text
        looks_at_body = "attr:loop_body" in roots
        ok = looks_at_symbols and looks_at_body
        obs.append(Ob("E-constants", f"{f.relpath}::{f.qualname}::fold-guard", f.relpath, st.lineno, f.qualname, ok,
                      "a variable is folded into the substitution map only after its value's free symbols were checked against the assigned variables" if ok else
                      f"`{src(st)[:70]}` is controlled by [{text.strip()[:150]}], which never inspects the free symbols of the folded value: "
                      "`c = x` with x updated in the loop is replaced by x everywhere",
                      witness=src(st)[:100]))
    return obs


def mut_constants_guard(repo: Repo) -> List[Mutant]:
    # control: remove any free-symbol test from the controlling predicate (re-creates the defect once it is repaired)
    def tr(tree):
        fn = find_def(tree, "ConstantsTransformer.execute")
        if fn is None:
            return False
        changed = False

        class R(ast.NodeTransformer):
            def visit_BoolOp(self, n):
                nonlocal changed
                self.generic_visit(n)
                keep = [v for v in n.values if "free_symbols" not in src(v)]
                if len(keep) != len(n.values) and keep:
                    changed = True
                    return keep[0] if len(keep) == 1 else ast.BoolOp(op=n.op, values=keep)
                return n

            def visit_If(self, n):
                nonlocal changed
                self.generic_visit(n)
                if "free_symbols" in src(n.test) and not isinstance(n.test, ast.BoolOp):
                    changed = True
                    n.test = ast.Constant(value=False)
                return n
        R().visit(fn)
        return changed
    ov = mutate_module(repo, "program/transformer/constants_transformer.py", tr)
    if ov:
        return [Mutant("fold-without-symbol-check", ov, "fire", "fold-guard", control=True)]
    # on the unrepaired tree the construct itself is the control
    def noop(tree):
        fn = find_def(tree, "ConstantsTransformer.execute")
        fn.body.insert(0, ast.Pass())
        return True
    ov = mutate_module(repo, "program/transformer/constants_transformer.py", noop)
    return [Mutant("control-is-the-open-defect", ov, "silent", "", control=True)]


# ------------------------------------------------------------------ C05: typer obligations
def rule_typer(repo: Repo) -> List[Ob]:
    obs = []
    rp = "type_inference/finite_fixed_point_typer.py"
    def clause_a():
        # (a) interval supports are refused before being treated as values
        f = repo.function(rp, "FiniteFixedPointTyper._get_values_for_assign")
        c = cfg_of(f.node)
        calls = _calls(f.node, "_get_values_for_expr")
        if not calls:
            raise AnalysisError("_get_values_for_expr call not found")
        for call in calls:
            sink = node_for(c, call)
            tests = controlling_tests(c, sink)
            ok = any("tuple" in src(t.ast) and reach is False for t, reach in tests)
            if not ok:
                # False if type(member) is tuple else self._get_values_for_expr(member)
                from ..shape import ifexp_facts
                ok = any("tuple" in src(fact) and truth is False for fact, truth in ifexp_facts(call))
            obs.append(Ob("E-typer", f"{rp}::{f.qualname}::interval-refused", rp, call.lineno, f.qualname, ok,
                          "an interval (tuple) in a support makes the value set fail before it could be read as a value" if ok else
                          "support elements reach _get_values_for_expr without the interval (tuple) test: a continuous range would be typed as one value"))
    def clause_b():
        # (b) only non-failed, all-numeric sets become types
        f = repo.function(rp, "FiniteFixedPointTyper._extract_types")
        from ..shape import expanded as _exp
        fx = _exp(repo, f)
        c = cfg_of(fx)
        ctor = [x for x in walk_no_nested(fx) if isinstance(x, ast.Call) and call_name(x) == "Finite"]
        if not ctor:
            raise AnalysisError("_extract_types: Finite(...) not found")
        sink = node_for(c, ctor[0])
        tests = [(t.ast, r) for t, r in controlling_tests(c, sink)] + [(e, True) for e in comprehension_conditions(ctor[0])]
        # conjunctions count per conjunct
        flat = []
        for e, r in tests:
            if isinstance(e, ast.BoolOp) and isinstance(e.op, ast.And) and r is True:
                flat += [(v, True) for v in e.values]
            else:
                flat.append((e, r))
        txt = " ".join(src(e) + ("" if r else " [negated]") for e, r in flat)
        ok_failed = any("has_failed" in src(e) and ((isinstance(e, ast.UnaryOp) and r is True) or (not isinstance(e, ast.UnaryOp) and r is False)) for e, r in flat)
        ok_num = any(("is_number" in src(e) or "is_Number" in src(e)) and "all(" in src(e) and r is True for e, r in flat)
        obs.append(Ob("E-typer", f"{rp}::{f.qualname}::not-failed", rp, ctor[0].lineno, f.qualname, ok_failed,
                      "failed variables never receive a type" if ok_failed else f"Finite(...) is built under [{txt}] without excluding failed variables"))
        obs.append(Ob("E-typer", f"{rp}::{f.qualname}::all-numeric", rp, ctor[0].lineno, f.qualname, ok_num,
                      "only value sets whose members are all numbers become types" if ok_num else f"Finite(...) is built under [{txt}] without the all-numeric test"))
    def clause_cd():
        # (c) every initial assignment contributes to the start state (no first-assignment-wins)
        f = repo.function(rp, "FiniteFixedPointTyper._initialize_state")
        from ..shape import expanded
        fnode = expanded(repo, f, keep=("_get_values_for_assign",))       # the two loops may have been moved into helpers of the typer
        c = cfg_of(fnode)
        loops = [n for n in walk_no_nested(fnode) if isinstance(n, ast.For) and "initial" in src(n.iter)]
        if not loops:
            raise AnalysisError("_initialize_state: loop over program.initial not found")
        loop = loops[0]
        upd = [x for x in ast.walk(loop) if isinstance(x, ast.Call) and call_name(x) == "_get_values_for_assign"]
        if not upd:
            raise AnalysisError("_initialize_state: initial assignments are not evaluated")
        sink = node_for(c, upd[0])
        tests = controlling_tests(c, sink)
        first_wins = [t for t, r in tests if re.search(r"not in self\.state|in self\.state", src(t.ast)) and not re.search(r"is_locked|typedefs", src(t.ast))]
        ok = not first_wins
        obs.append(Ob("E-typer", f"{rp}::{f.qualname}::sequential-init", rp, loop.lineno, f.qualname, ok,
                      "every assignment of the initial block updates the start state (only user-typed variables are skipped)" if ok else
                      f"initial assignments are evaluated only under `{src(first_wins[0].ast)}`: the first assignment of a variable wins, "
                      "`x = 0; x = x + 1` starts the fixed point from {0} although x is 1 when the loop begins"))
        # (d) a variable without initial value starts from <name>0 if it is read -- in a right side OR a condition -- before its assignment
        rs = [n for n in walk_no_nested(fnode) if isinstance(n, ast.AugAssign) and isinstance(n.op, ast.BitOr) and isinstance(n.value, ast.Call) and call_name(n.value) == "get_free_symbols"]
        key = f"{rp}::{f.qualname}::reads-before-assignment"
        # the collection must ACCUMULATE over the statements of the body: the symbols read by every statement up to the assignment count
        body_loops = [n for n in walk_no_nested(fnode) if isinstance(n, ast.For) and "loop_body" in src(n.iter)]
        for bl in body_loops:
            members = {x.comparators[0].id for x in ast.walk(bl) if isinstance(x, ast.Compare) and len(x.ops) == 1 and isinstance(x.ops[0], (ast.In, ast.NotIn))
                       and isinstance(x.comparators[0], ast.Name) and "variable" in src(x.left)}
            for coll in sorted(members):
                plain = [st for st in ast.walk(bl) if isinstance(st, ast.Assign) and len(st.targets) == 1 and isinstance(st.targets[0], ast.Name) and st.targets[0].id == coll
                         and not any(isinstance(y, ast.Name) and y.id == coll for y in ast.walk(st.value))
                         and any(isinstance(y, ast.Call) and call_name(y) in ("get_free_symbols", "free_symbols") or (isinstance(y, ast.Attribute) and y.attr == "free_symbols") for y in ast.walk(st.value))]
                keya = f"{rp}::{f.qualname}::reads-accumulate"
                if plain:
                    obs.append(Ob("E-typer", keya, rp, plain[0].lineno, f.qualname, False,
                                  f"`{src(plain[0])[:70]}` replaces the collected symbols in every iteration: a variable that an EARLIER statement of the body reads before its "
                                  "assignment starts with the empty value set instead of <name>0, and is typed finite without its initial value"))
                elif any(isinstance(st, ast.AugAssign) and isinstance(st.target, ast.Name) and st.target.id == coll for st in ast.walk(bl)) or \
                        any(isinstance(c0, ast.Call) and call_name(c0) in ("update", "add") and isinstance(c0.func, ast.Attribute) and isinstance(c0.func.value, ast.Name) and c0.func.value.id == coll for c0 in ast.walk(bl)):
                    obs.append(Ob("E-typer", keya, rp, bl.lineno, f.qualname, True, "the symbols read so far are accumulated over the statements of the loop body"))
        if not rs:
            obs.append(inconclusive("E-typer", key, rp, f.node.lineno, f.qualname, "collection of the symbols read before assignment not recognised"))
        else:
            kw = {k.arg: k.value for k in rs[0].value.keywords}
            wc = kw.get("with_condition")
            bad_ = isinstance(wc, ast.Constant) and wc.value is False
            obs.append(Ob("E-typer", key, rp, rs[0].lineno, f.qualname, not bad_,
                          "reads in conditions count as reads of the old value" if not bad_ else
                          "symbols of conditions are excluded: a variable whose old value is only *tested* before its assignment starts with the empty value set instead of <name>0"))
    for name, cl in (("interval-refused", clause_a), ("not-failed", clause_b), ("sequential-init", clause_cd)):
        try:
            cl()
        except AnalysisError as e:
            obs.append(inconclusive("E-typer", f"{rp}::clause::{name}", rp, 0, "FiniteFixedPointTyper", f"mechanism not recognised: {e}"))
    return obs


def mut_typer(repo: Repo) -> List[Mutant]:
    out = []
    rp = "type_inference/finite_fixed_point_typer.py"

    def drop_tuple(tree):
        fn = find_def(tree, "FiniteFixedPointTyper._get_values_for_assign")
        for n in ast.walk(fn):
            if isinstance(n, ast.If) and "tuple" in src(n.test):
                return replace_node(fn, n, ast.Pass())
        return False
    ov = mutate_module(repo, rp, drop_tuple)
    if ov:
        out.append(Mutant("typer-accepts-intervals", ov, "fire", "interval-refused", control=True))
    ov = text_mutant(repo, rp, "running_symbols |= assign.get_free_symbols(with_default=False)", "running_symbols = assign.get_free_symbols(with_default=False)")
    if ov:
        out.append(Mutant("reads-of-earlier-statements-forgotten", ov, "fire", "reads-accumulate"))
    ov = text_mutant(repo, rp, "running_symbols |= assign.get_free_symbols(with_default=False)", "running_symbols.update(assign.get_free_symbols(with_default=False))")
    if ov:
        out.append(Mutant("benign-update-call", ov, "silent"))

    def drop_failed(tree):
        fn = find_def(tree, "FiniteFixedPointTyper._extract_types")
        for n in ast.walk(fn):
            if isinstance(n, ast.If) and "has_failed" in src(n.test):
                n.test = ast.Constant(value=True)
                return True
        return False
    ov = mutate_module(repo, rp, drop_failed)
    if ov:
        out.append(Mutant("typer-types-failed-vars", ov, "fire", "not-failed"))

    def any_numeric(tree):
        fn = find_def(tree, "FiniteFixedPointTyper._extract_types")
        for n in ast.walk(fn):
            if isinstance(n, ast.Call) and call_name(n) == "all":
                n.func = ast.Name(id="any", ctx=ast.Load())
                return True
        return False
    ov = mutate_module(repo, rp, any_numeric)
    if ov:
        out.append(Mutant("typer-any-numeric", ov, "fire", "all-numeric"))
    return out


# ------------------------------------------------------------------ C05: get_support adds the default unless implied by the guard
def rule_support_default(repo: Repo) -> List[Ob]:
    obs = []
    base = repo.cls("Assignment", "program/assignment/assignment.py")
    n = 0
    for cls in repo.subclasses(base):
        for mname in ("get_support", "get_free_symbols"):
            m = cls.methods.get(mname)
            if m is None:
                continue
            selfn = m.params()[0]
            from ..shape import expanded
            mx = expanded(repo, m)        # the guarded `add(self.default)` may sit in a helper of the class
            adds = [x for x in walk_no_nested(mx) if isinstance(x, ast.Call) and call_name(x) == "add" and x.args and is_self_attr(x.args[0], "default", selfn)]
            if cls.name == "FunctionalAssignment" and mname == "get_support":
                # returns the range of the function as an interval: the typer refuses intervals, nothing to add
                rets = [r.value for r in walk_no_nested(mx) if isinstance(r, ast.Return)]
                fdefs = Defs(mx, selfn)

                def elem_kinds(e, depth=0) -> List[Optional[bool]]:
                    """True: a (lower, upper) tuple; False: a plain value; None: unknown"""
                    if depth > 4:
                        return [None]
                    if isinstance(e, ast.Tuple):
                        return [len(e.elts) == 2]
                    if isinstance(e, ast.Name) and e.id in fdefs.defs and e.id not in fdefs.params:
                        out = []
                        for v in fdefs.defs[e.id]:
                            out += elem_kinds(v, depth + 1) if isinstance(v, ast.expr) else [None]
                        return out
                    if isinstance(e, ast.Subscript):
                        tab = e.value
                        if isinstance(tab, ast.Name) and tab.id in fdefs.defs:
                            vals = [v for v in fdefs.defs[tab.id] if isinstance(v, ast.Dict)]
                            if len(vals) == 1:
                                return [k for v in vals[0].values for k in elem_kinds(v, depth + 1)]
                        return [None]
                    if isinstance(e, ast.IfExp):
                        return elem_kinds(e.body, depth + 1) + elem_kinds(e.orelse, depth + 1)
                    if isinstance(e, (ast.Constant, ast.Attribute, ast.BinOp, ast.UnaryOp)) or (isinstance(e, ast.Call) and call_name(e) in ("sympify", "One", "Zero", "Integer")):
                        return [False]
                    return [None]
                kinds = []
                for r in rets:
                    if isinstance(r, ast.Set):
                        for e in r.elts:
                            kinds += elem_kinds(e)
                    else:
                        kinds.append(None)
                key_i = f"{cls.relpath}::{cls.name}.get_support::interval"
                if False in kinds:
                    obs.append(Ob("A4-support-default", key_i, cls.relpath, m.node.lineno, m.qualname, False, "functional support contains plain values instead of (lower, upper) intervals: the variable looks finitely valued"))
                elif not kinds or None in kinds:
                    obs.append(inconclusive("A4-support-default", key_i, cls.relpath, m.node.lineno, m.qualname, "functional support expression not recognised"))
                else:
                    obs.append(Ob("A4-support-default", key_i, cls.relpath, m.node.lineno, m.qualname, True, "function ranges are reported as intervals (never typed finite)"))
                n += 1
                continue
            if not adds:
                obs.append(Ob("A4-support-default", f"{cls.relpath}::{cls.name}.{mname}::default", cls.relpath, m.node.lineno, m.qualname, False,
                              f"{cls.name}.{mname} never adds the default variable: a conditioned assignment may keep its old value"))
                n += 1
                continue
            c = cfg_of(mx)
            sink = node_for(c, adds[0])
            tests = controlling_tests(c, sink)
            if mname == "get_support":
                # Necessary condition (after the repair of F16): whenever the default is *another* variable (a renamed
                # intermediate version falls back to the previous version), it belongs to the value set.  Skipping the
                # default is harmless only when it is the variable itself (its values are the initial value and this
                # assignment's own right-hand sides).  Decided by a truth table over the atoms of the controlling tests.
                key = f"{cls.relpath}::{cls.name}.{mname}::default"
                atoms: List[str] = []

                def atom(name):
                    if name not in atoms:
                        atoms.append(name)
                    return name

                def ev(e, env, depth=0):
                    if isinstance(e, ast.UnaryOp) and isinstance(e.op, ast.Not):
                        return not ev(e.operand, env, depth)
                    if isinstance(e, ast.BoolOp):
                        vals = [ev(v, env, depth) for v in e.values]
                        return all(vals) if isinstance(e.op, ast.And) else any(vals)
                    if isinstance(e, ast.Compare) and len(e.ops) == 1 and isinstance(e.ops[0], (ast.Eq, ast.NotEq, ast.Is, ast.IsNot)):
                        sides = {src(e.left), src(e.comparators[0])}
                        if sides == {f"{selfn}.default", f"{selfn}.variable"}:
                            v = env[atom("OTHER")]     # OTHER: default is another variable
                            return v if isinstance(e.ops[0], (ast.NotEq, ast.IsNot)) else not v
                    if isinstance(e, ast.Call) and isinstance(e.func, ast.Attribute) and isinstance(e.func.value, ast.Name) and e.func.value.id == selfn \
                            and not e.args and depth < 3:
                        h = cls.find_method(e.func.attr)
                        if h is not None:
                            rets = [r.value for r in walk_no_nested(h.node) if isinstance(r, ast.Return) and r.value is not None]
                            if len(rets) == 1 and h.params() and h.params()[0] == selfn:
                                return ev(rets[0], env, depth + 1)
                    return env[atom("U:" + src(e))]

                def added(env):
                    return all(bool(ev(t.ast, env)) == bool(reach) for t, reach in tests)
                # discover atoms
                class _Any(dict):
                    def __missing__(self, k):
                        return False
                added(_Any())
                for _ in range(3):
                    for bits in range(2 ** len(atoms)):
                        added(_Any({a: bool(bits >> i & 1) for i, a in enumerate(atoms)}))
                unknown_atoms = [a for a in atoms if a.startswith("U:") and "is_implied_by_loop_guard" not in a]
                skipped = []
                for bits in range(2 ** len(atoms)):
                    env = _Any({a: bool(bits >> i & 1) for i, a in enumerate(atoms)})
                    env["OTHER"] = True
                    if not added(env):
                        skipped.append(dict(env))
                if not skipped:
                    obs.append(Ob("A4-support-default", key, cls.relpath, adds[0].lineno, m.qualname, True,
                                  "the default is part of the value set whenever it is another variable (it is skipped at most for the variable itself)"))
                elif unknown_atoms:
                    obs.append(inconclusive("A4-support-default", key, cls.relpath, adds[0].lineno, m.qualname,
                                            f"tests {unknown_atoms} not recognised"))
                else:
                    conds = " and ".join(("" if reach else "not ") + "(" + src(t.ast) + ")" for t, reach in tests)
                    obs.append(Ob("A4-support-default", key, cls.relpath, adds[0].lineno, m.qualname, False,
                                  f"the default variable is included only under `{conds}`: it is skipped although it may be another variable "
                                  "(a renamed intermediate version takes over the previous version's value while the guard is false)"))
                n += 1
                continue
            if mname == "get_free_symbols" and all(isinstance(t.ast, ast.expr) for t, _ in tests) and \
                    not any(isinstance(x, ast.Call) and call_name(x) in ("any", "all") for t, _ in tests for x in ast.walk(t.ast)):
                # truth table: whenever the whole condition is NOT implied by the loop guard the default is a free symbol,
                # whatever the other atoms (with_default, ...) say -- any spelling of `with_default or not implied`
                key = f"{cls.relpath}::{cls.name}.{mname}::default"
                atoms2: List[str] = []

                def ev2(e, env):
                    if isinstance(e, ast.UnaryOp) and isinstance(e.op, ast.Not):
                        return not ev2(e.operand, env)
                    if isinstance(e, ast.BoolOp):
                        vals = [ev2(v, env) for v in e.values]
                        return all(vals) if isinstance(e.op, ast.And) else any(vals)
                    if isinstance(e, ast.Call) and call_name(e) == "is_implied_by_loop_guard" and is_self_attr(e.func.value, "condition", selfn):
                        nm_ = "IMPLIED"
                    elif isinstance(e, ast.Name) and e.id in m.params():
                        nm_ = "P:" + e.id
                    else:
                        nm_ = "U:" + src(e)
                    if nm_ not in atoms2:
                        atoms2.append(nm_)
                    return env.get(nm_, False)

                def added2(env):
                    return all(bool(ev2(t.ast, env)) == bool(reach) for t, reach in tests)
                added2({})
                for _ in range(3):
                    for bits in range(2 ** len(atoms2)):
                        added2({a: bool(bits >> i & 1) for i, a in enumerate(atoms2)})
                if "IMPLIED" in atoms2 and len(atoms2) <= 6:
                    skipped2 = []
                    for bits in range(2 ** len(atoms2)):
                        env = {a: bool(bits >> i & 1) for i, a in enumerate(atoms2)}
                        if not env["IMPLIED"] and not added2(env):
                            skipped2.append(env)
                    unknown2 = [a for a in atoms2 if a.startswith("U:")]
                    conds = " and ".join(("" if reach else "not ") + "(" + src(t.ast) + ")" for t, reach in tests)
                    if not skipped2:
                        obs.append(Ob("A4-support-default", key, cls.relpath, adds[0].lineno, m.qualname, True,
                                      "the default variable is a free symbol whenever the condition is not implied by the loop guard"))
                    elif unknown2:
                        obs.append(inconclusive("A4-support-default", key, cls.relpath, adds[0].lineno, m.qualname, f"tests {unknown2} not recognised"))
                    else:
                        obs.append(Ob("A4-support-default", key, cls.relpath, adds[0].lineno, m.qualname, False,
                                      f"the default variable is included only under `{conds}`: it is left out for {skipped2[0]} although the condition is not implied by the loop guard"))
                    n += 1
                    continue
            bad = []
            unknown = []
            for t, reach in tests:
                s = src(t.ast)
                if "is_implied_by_loop_guard" in s:
                    # default must be added when the *whole* condition is NOT implied
                    good = (s.startswith("not ") and reach is True) or ("or not" in s and reach is True)
                    whole = any(isinstance(x, ast.Call) and call_name(x) == "is_implied_by_loop_guard" and is_self_attr(x.func.value, "condition", selfn) for x in ast.walk(t.ast))
                    partial = any(isinstance(x, ast.Call) and call_name(x) == "any" for x in ast.walk(t.ast))
                    own = "default" in s and "variable" in s
                    if good and whole and not own and mname == "get_support":
                        bad.append(s + "  [the default may be skipped only when it is the variable itself: a renamed intermediate version takes over another variable's value while the guard is false]")
                    elif not good or (not whole and partial):
                        bad.append(s + ("  [implied-ness of a single conjunct is not implied-ness of the condition]" if partial and not whole else ""))
                    elif not whole:
                        unknown.append(s)
                elif mname == "get_free_symbols" and "with_default" in s:
                    continue
                else:
                    unknown.append(s)
            ok = not bad
            if ok and unknown:
                obs.append(inconclusive("A4-support-default", f"{cls.relpath}::{cls.name}.{mname}::default", cls.relpath, adds[0].lineno, m.qualname, f"guard test `{unknown[0]}` not recognised"))
                n += 1
                continue
            obs.append(Ob("A4-support-default", f"{cls.relpath}::{cls.name}.{mname}::default", cls.relpath, adds[0].lineno, m.qualname, ok,
                          "the default variable is included unless the condition is implied by the loop guard" if ok else
                          f"the default variable is included only under `{bad[0]}`"))
            n += 1
    return obs


def mut_support_default(repo: Repo) -> List[Mutant]:
    out = []

    def drop_own(tree):
        fn = find_def(tree, "PolyAssignment.get_support")
        for n in ast.walk(fn):
            if isinstance(n, ast.If) and isinstance(n.test, ast.BoolOp) and isinstance(n.test.op, ast.Or):
                keep = [v for v in n.test.values if "is_implied_by_loop_guard" in src(v)]
                if len(keep) == 1:
                    n.test = keep[0]
                    return True
        return False
    ov = mutate_module(repo, "program/assignment/poly_assignment.py", drop_own)
    if ov:
        out.append(Mutant("default-skipped-under-guard-for-renamed-versions", ov, "fire", "PolyAssignment.get_support::default", control=True))

    def only_own(tree):
        fn = find_def(tree, "PolyAssignment.get_support")
        for n in ast.walk(fn):
            if isinstance(n, ast.If) and isinstance(n.test, ast.BoolOp) and isinstance(n.test.op, ast.Or):
                keep = [v for v in n.test.values if "is_implied_by_loop_guard" not in src(v)]
                if len(keep) == 1:
                    n.test = keep[0]
                    return True
        return False
    ov = mutate_module(repo, "program/assignment/poly_assignment.py", only_own)
    if ov:
        out.append(Mutant("benign-default-skipped-only-for-the-variable-itself", ov, "silent"))

    def never(tree):
        fn = find_def(tree, "DistAssignment.get_support")
        for n in ast.walk(fn):
            if isinstance(n, ast.If):
                return replace_node(fn, n, ast.Pass())
        return False
    ov = mutate_module(repo, "program/assignment/dist_assignment.py", never)
    if ov:
        out.append(Mutant("dist-support-without-default", ov, "fire", "DistAssignment.get_support::default"))
    return out


# ------------------------------------------------------------------ C08 / C19: float literals become exact rationals
def rule_float_conversion(repo: Repo) -> List[Ob]:
    obs = []
    # the converter reads the decimal text of the literal
    f = repo.function("utils/expressions.py", "float_to_rational")
    rets = [r.value for r in walk_no_nested(f.node) if isinstance(r, ast.Return)]
    ok = False
    extra = ""
    if len(rets) == 1:
        from ..shape import resolve_alias
        fdefs0 = Defs(f.node, None)
        e = resolve_alias(rets[0], fdefs0)
        # value-preserving wrappers around the exact conversion
        while isinstance(e, ast.Call) and isinstance(e.func, ast.Name) and e.func.id in ("sympy2symengine", "sympify", "S", "Rational") and len(e.args) == 1 \
                and not (e.func.id == "Rational" and isinstance(resolve_alias(e.args[0], fdefs0), ast.Call) and call_name(resolve_alias(e.args[0], fdefs0)) == "str"):
            e = resolve_alias(e.args[0], fdefs0)
        inner = resolve_alias(e.args[0], fdefs0) if isinstance(e, ast.Call) and len(e.args) == 1 else None
        ok = isinstance(e, ast.Call) and isinstance(e.func, ast.Name) and e.func.id == "Rational" and len(e.args) == 1 and not e.keywords \
            and isinstance(inner, ast.Call) and call_name(inner) == "str" and len(inner.args) == 1 \
            and isinstance(inner.args[0], ast.Name) and inner.args[0].id == f.params()[0]
        if not ok:
            extra = f" (returns `{src(rets[0])[:70]}`)"
    if not ok:
        names = {call_name(c) for c in walk_no_nested(f.node) if isinstance(c, ast.Call)}
        direct = any(isinstance(c, ast.Call) and call_name(c) in ("Rational", "Fraction", "nsimplify") and c.args and isinstance(c.args[0], ast.Name) and c.args[0].id == f.params()[0]
                     for c in walk_no_nested(f.node))
        lossy = names & {"round", "limit_denominator", "nsimplify", "float", "N", "evalf"}
        if not direct and not lossy:
            obs.append(inconclusive("E-float", "utils/expressions.py::float_to_rational::decimal-text", f.relpath, f.node.lineno, f.qualname,
                                    "conversion expression not recognised" + extra))
            ok = None
    if ok is not None:
      obs.append(Ob("E-float", "utils/expressions.py::float_to_rational::decimal-text", f.relpath, f.node.lineno, f.qualname, ok,
                    "float literals are converted through their decimal text and nothing else: 0.1 becomes exactly 1/10" if ok else
                    "float_to_rational is not exactly Rational(str(x)): the literal is rounded or read as its binary expansion" + extra))
    # Distribution.__init__ and PolyAssignment.__init__ route every Float through it
    sites = [("program/distribution/distribution.py", "Distribution.__init__", ["set_parameters"], "parameters"),
             ("program/assignment/poly_assignment.py", "PolyAssignment.__init__", ["polynomials", "probabilities"], None)]
    for rp, qn, sinks, _ in sites:
        f = repo.function(rp, qn)
        selfn = f.params()[0]
        from ..shape import expanded
        fx = expanded(repo, f)           # conversion loops moved into helpers of the class are read in place

        def node_of(g_):
            return fx if g_ is f else g_.node
        defs = Defs(fx, selfn)
        convs = _calls(fx, "float_to_rational")
        for sk in sinks:
            if sk == "set_parameters":
                calls = [c for c in walk_no_nested(fx) if isinstance(c, ast.Call) and call_name(c) == "set_parameters"]
                if not calls:
                    raise AnalysisError(f"{qn}: set_parameters call not found")
                r = set()
                for a in calls[0].args:
                    r |= defs.roots(a)
            else:
                r = defs.roots(ast.parse(f"{selfn}.{sk}").body[0].value)
            # functions the stored value is routed through (same class / module, or a unique module-level function of the repo)
            from ..shape import helper_calls
            route: List[FunctionInfo] = [f]
            for x in sorted(r):
                if x.startswith("call:"):
                    nm = x[5:].split(".")[-1]
                    if nm == "float_to_rational":
                        continue
                    h = (f.cls.find_method(nm) if f.cls else None) or next((g for g in repo.functions if g.module is f.module and g.cls is None and g.name == nm), None)
                    if h is None:
                        cands = [g for g in repo.functions if g.cls is None and g.name == nm and not g.relpath.startswith("tests/")]
                        h = cands[0] if len(cands) == 1 else None
                    if h is not None and h not in route:
                        route.append(h)
            for h in list(route[1:]):
                route += [hh for hh, _, _ in helper_calls(repo, h, depth=2) if hh not in route]
            # every call of the single-number converter on that route: what is converted, and under which test
            modes = []     # "deep" (all float atoms), "coefficients" (every coefficient of the expanded polynomial), "whole" (only a value that is a float as a whole)
            unguarded = False
            for g in route:
                gdefs = Defs(node_of(g), g.params()[0] if g.params() and g.cls is not None else None)
                gc = cfg_of(node_of(g))
                for cv in _calls(node_of(g), "float_to_rational"):
                    if g is f and not any(x.endswith("float_to_rational") for x in r if x.startswith("call:")):
                        continue
                    arg = cv.args[0] if cv.args else None
                    rts = gdefs.roots(arg) if arg is not None else set()
                    if isinstance(arg, ast.Name):
                        # comprehension variables are not in Defs: look at the generator the name is bound by
                        for anc in ancestors(cv):
                            if isinstance(anc, (ast.DictComp, ast.ListComp, ast.SetComp, ast.GeneratorExp)):
                                for gen in anc.generators:
                                    if arg.id in {n.id for n in ast.walk(gen.target) if isinstance(n, ast.Name)}:
                                        rts |= gdefs.roots(gen.iter)
                    if isinstance(arg, ast.Name) and arg.id in g.params():
                        # the converted value is a parameter of a helper: what do the callers on the route pass?
                        pos = g.params().index(arg.id) - (1 if g.cls is not None and "staticmethod" not in [src(d0) for d0 in g.node.decorator_list] else 0)
                        for caller in route:
                            cdefs = Defs(node_of(caller), caller.params()[0] if caller.params() and caller.cls is not None else None)
                            for cc in _calls(node_of(caller), g.name):
                                a = cc.args[pos] if 0 <= pos < len(cc.args) else next((kw.value for kw in cc.keywords if kw.arg == arg.id), None)
                                if a is not None:
                                    rts |= cdefs.roots(a)
                                    for anc in ancestors(cc):
                                        if isinstance(anc, (ast.DictComp, ast.ListComp, ast.SetComp, ast.GeneratorExp)):
                                            for gen in anc.generators:
                                                if isinstance(a, ast.Name) and a.id in {n.id for n in ast.walk(gen.target) if isinstance(n, ast.Name)}:
                                                    rts |= cdefs.roots(gen.iter)
                    if any(x.endswith("atoms") for x in rts if x.startswith("call:")):
                        modes.append("deep")
                        continue
                    tests = controlling_tests(gc, node_for(gc, cv))
                    is_float = any("is_Float" in src(t.ast) and reach is True for t, reach in tests) or \
                        any(isinstance(x2, ast.IfExp) and "is_Float" in src(x2.test) for x2 in ancestors(cv))
                    if not is_float:
                        unguarded = True
                        continue
                    modes.append("coefficients" if any(x.endswith("get_monoms") for x in rts if x.startswith("call:")) else "whole")
            key = f"{rp}::{qn}::{sk}"
            if not modes and unguarded:
                obs.append(inconclusive("E-float", key, rp, f.node.lineno, qn, "float_to_rational is applied but the is_Float test was not recognised"))
            elif not modes:
                obs.append(Ob("E-float", key, rp, f.node.lineno, qn, False,
                              f"values stored via `{sk}` do not pass through float_to_rational: a decimal literal stays a binary float"))
            elif "deep" in modes or "coefficients" in modes:
                obs.append(Ob("E-float", key, rp, f.node.lineno, qn, True,
                              f"every float occurring in a value stored via `{sk}` is converted through its decimal text ({'all float atoms' if 'deep' in modes else 'every coefficient'})"))
            else:
                obs.append(Ob("E-float", key, rp, f.node.lineno, qn, True, f"a value stored via `{sk}` that is a float as a whole is converted through its decimal text"))
                obs.append(Ob("E-float", key + "::nested-floats", rp, f.node.lineno, qn, False,
                              f"a value stored via `{sk}` is converted only if it is a float as a whole: decimal literals inside a compound expression "
                              "(0.5*p, pi/4 - 0.1) stay binary floats and the results are still reported as exact"))
    return obs


def mut_float_conversion(repo: Repo) -> List[Mutant]:
    out = []

    def raw_params(tree):
        fn = find_def(tree, "Distribution.__init__")
        for c in ast.walk(fn):
            if isinstance(c, ast.Call) and call_name(c) == "set_parameters":
                c.args = [ast.parse("[sympify(q) for q in parameters]").body[0].value]
                return True
        return False
    ov = mutate_module(repo, "program/distribution/distribution.py", raw_params)
    if ov:
        out.append(Mutant("distribution-keeps-floats", ov, "fire", "Distribution.__init__::set_parameters", control=True))

    def binary(tree):
        fn = find_def(tree, "float_to_rational")
        for c in ast.walk(fn):
            if isinstance(c, ast.Call) and call_name(c) == "Rational" and isinstance(c.args[0], ast.Call) and call_name(c.args[0]) == "str":
                c.args[0] = ast.Call(func=ast.Name(id="float", ctx=ast.Load()), args=c.args[0].args, keywords=[])
                return True
        return False
    ov = mutate_module(repo, "utils/expressions.py", binary)
    if ov:
        out.append(Mutant("rational-from-binary-float", ov, "fire", "float_to_rational::decimal-text"))

    def probs(tree):
        fn = find_def(tree, "PolyAssignment.__init__")
        for n in ast.walk(fn):
            if isinstance(n, ast.If) and "is_Float" in src(n.test) and any("float_to_rational(p)" in src(x) for x in n.body):
                return replace_node(fn, n, ast.Pass())
        return False
    ov = mutate_module(repo, "program/assignment/poly_assignment.py", probs)
    if ov:
        out.append(Mutant("probabilities-keep-floats", ov, "fire", "PolyAssignment.__init__::probabilities"))
    return out


# ------------------------------------------------------------------ C13: exponential moments only where the mgf exists; rounding funnel
def rule_mgf_guard(repo: Repo) -> List[Ob]:
    obs = []
    rp = "program/assignment/functional_assignment.py"
    f = repo.function(rp, "FunctionalAssignment.get_exp_moment")
    c = cfg_of(f.node)
    uses = [x for x in walk_no_nested(f.node) if isinstance(x, ast.Call) and call_name(x) == "mgf"]
    if not uses:
        raise AnalysisError("get_exp_moment: no mgf use")
    for i, u in enumerate(uses):
        sink = node_for(c, u)
        guards = raise_guards_before(c, sink)
        ok = any("mgf_exists_at" in src(t.ast) for t in guards)
        if not ok:
            # a dominating call of a helper that raises when the mgf does not exist
            for nd in c.nodes:
                if nd.ast is not None and nd is not sink and c.dominates(nd, sink):
                    for h in helper_bodies(repo, f, nd.ast):
                        hc = cfg_of(h.node)
                        if any("mgf_exists_at" in src(t.ast) for t, _ in hc.raise_guards()):
                            ok = True
        obs.append(Ob("E-mgf", f"{rp}::{f.qualname}::mgf#{i}", rp, u.lineno, f.qualname, ok,
                      "mgf is evaluated only after the existence test raised for orders where it diverges" if ok else
                      f"`{src(u)[:40]}` is not dominated by a raising mgf_exists_at test: a divergent exponential moment gets a finite answer"))
    # existence is tested at the order that is used
    tests = [x for x in walk_no_nested(f.node) if isinstance(x, ast.Call) and call_name(x) == "mgf_exists_at"]
    defs = Defs(f.node, f.params()[0])
    if tests:
        targ = src(tests[0].args[0]) if tests[0].args else ""
        used = set()
        # the formal symbol the mgf is differentiated in (whatever it is called): a local bound to Symbol("...") / symbols("...")
        formal = {nm for nm, vals in defs.defs.items() if any(isinstance(v, ast.Call) and call_name(v) in ("Symbol", "SSymbol", "symbols", "Dummy") for v in vals)}
        for u in uses:
            if u.args and not (isinstance(u.args[0], ast.Name) and u.args[0].id in formal):
                used.add(src(u.args[0]))
        for x in walk_no_nested(f.node):
            if isinstance(x, ast.Call) and call_name(x) == "xreplace" and x.args and isinstance(x.args[0], ast.Dict):
                used |= {src(v) for v in x.args[0].values}
        ok = used == {targ}
        if not ok and not used:
            obs.append(inconclusive("E-mgf", f"{rp}::{f.qualname}::order", rp, tests[0].lineno, f.qualname, "point at which the mgf is evaluated not recognised"))
            ok = None
        if ok is not None:
          obs.append(Ob("E-mgf", f"{rp}::{f.qualname}::order", rp, tests[0].lineno, f.qualname, ok,
                        f"existence is tested at the order `{targ}` at which the mgf (or its derivative) is evaluated" if ok else
                        f"existence is tested at `{targ}` but the mgf is evaluated at {sorted(used)}"))
    # rounding funnel
    for qn in ("FunctionalAssignment.get_trig_moment", "FunctionalAssignment.get_exp_moment", "FunctionalAssignment.get_const_moment"):
        g = repo.function(rp, qn)
        rets = [r for r in walk_no_nested(g.node) if isinstance(r, ast.Return) and r.value is not None]
        ok = bool(rets) and all(isinstance(r.value, ast.Call) and call_name(r.value) == "convert_func_moment" for r in rets)
        obs.append(Ob("E-mgf", f"{rp}::{qn}::funnel", rp, g.node.lineno, qn, ok,
                      "every result leaves through convert_func_moment (exact mode / documented rounding in one place)" if ok else
                      "a result bypasses convert_func_moment"))
    return obs


def mut_mgf_guard(repo: Repo) -> List[Mutant]:
    out = []
    rp = "program/assignment/functional_assignment.py"

    def drop(tree):
        fn = find_def(tree, "FunctionalAssignment.get_exp_moment")
        for n in ast.walk(fn):
            if isinstance(n, ast.If) and "mgf_exists_at" in src(n.test):
                return replace_node(fn, n, ast.Pass())
        return False
    ov = mutate_module(repo, rp, drop)
    if ov:
        out.append(Mutant("no-existence-test", ov, "fire", "get_exp_moment::mgf#", control=True))

    def late(tree):
        fn = find_def(tree, "FunctionalAssignment.get_exp_moment")
        for i, n in enumerate(fn.body):
            if isinstance(n, ast.If) and "mgf_exists_at" in src(n.test):
                g = fn.body.pop(i)
                fn.body.insert(len(fn.body) - 1, g)
                return True
        return False
    ov = mutate_module(repo, rp, late)
    if ov:
        out.append(Mutant("existence-test-after-use", ov, "fire", "get_exp_moment::mgf#"))

    def wrong_order(tree):
        fn = find_def(tree, "FunctionalAssignment.get_exp_moment")
        for c in ast.walk(fn):
            if isinstance(c, ast.Call) and call_name(c) == "mgf_exists_at":
                c.args = [ast.Name(id="id_power", ctx=ast.Load())]
                return True
        return False
    ov = mutate_module(repo, rp, wrong_order)
    if ov:
        out.append(Mutant("existence-at-wrong-order", ov, "fire", "get_exp_moment::order"))
    return out


# ------------------------------------------------------------------ C06: exponential abstraction only for b**n with numeric b
def rule_abstract_exponentials(repo: Repo) -> List[Ob]:
    rp = "invariants/invariant_ideal.py"
    f = repo.function(rp, "InvariantIdeal.abstract_exponentials")
    c = cfg_of(f.node)
    selfn = f.params()[0]
    # sink: the return of the symbol standing for the base
    sinks = [r for r in walk_no_nested(f.node) if isinstance(r, ast.Return) and isinstance(r.value, ast.Subscript)
             and is_self_attr(r.value.value, "base_to_symbol", selfn)]
    if not sinks:
        raise AnalysisError("abstract_exponentials: return of base symbol not found")
    sk = sinks[0]
    key_var = src(sk.value.slice)
    guards = raise_guards_before(c, node_for(c, sk))
    sinkn = node_for(c, sk)
    for nd in c.nodes:
        if nd.ast is not None and nd is not sinkn and c.dominates(nd, sinkn):
            for h in helper_bodies(repo, f, nd.ast):
                guards = guards + [t for t, _ in cfg_of(h.node).raise_guards()]
    g1 = any(("is_number" in src(t.ast) or "is_Number" in src(t.ast)) for t in guards)
    g2 = any(f"{selfn}.n" in src(t.ast) and isinstance(t.ast, ast.Compare) for t in guards)
    return [
        Ob("E-abstract", f"{rp}::{f.qualname}::numeric-base", rp, sk.lineno, f.qualname, g1,
           "a power is abstracted to a symbol only after its base was checked to be a number" if g1 else
           f"no dominating raise checks that `{key_var}` is a number before it is abstracted: x**n with symbolic x would be treated as a geometric sequence"),
        Ob("E-abstract", f"{rp}::{f.qualname}::exponent-n", rp, sk.lineno, f.qualname, g2,
           "a power is abstracted only if its exponent is exactly n" if g2 else
           "no dominating raise checks that the exponent equals n: b**(n**2) or b**(n+1) would be abstracted as b**n"),
    ]


def mut_abstract_exponentials(repo: Repo) -> List[Mutant]:
    out = []
    for i, (needle, key) in enumerate([("is_number", "numeric-base"), ("exponent != self.n", "exponent-n")]):
        def tr(tree, needle=needle):
            fn = find_def(tree, "InvariantIdeal.abstract_exponentials")
            for n in ast.walk(fn):
                if isinstance(n, ast.If) and needle in src(n.test) and any(isinstance(x, ast.Raise) for x in n.body):
                    return replace_node(fn, n, ast.Pass())
            return False
        ov = mutate_module(repo, "invariants/invariant_ideal.py", tr)
        if ov:
            out.append(Mutant(f"no-check:{key}", ov, "fire", key, control=(i == 0)))
    return out


# ------------------------------------------------------------------ C16: Kauers loop returns the matrix that passed the exact test
def rule_kauers(repo: Repo) -> List[Ob]:
    rp = "invariants/exponent_lattice.py"
    obs = []
    f = repo.function(rp, "ExponentLattice.compute_basis_kauers")
    loops = [n for n in walk_no_nested(f.node) if isinstance(n, ast.While)]
    ok = False
    msg = "no `while not self._all_in_lattice(B)` loop"
    line = f.node.lineno
    if loops:
        w = loops[0]
        line = w.lineno
        t = w.test
        if isinstance(t, ast.UnaryOp) and isinstance(t.op, ast.Not) and isinstance(t.operand, ast.Call) and call_name(t.operand) == "_all_in_lattice":
            tested = src(t.operand.args[0])
            no_break = not any(isinstance(x, ast.Break) for x in ast.walk(w))
            # returns after the loop return (a slice of) the tested matrix
            after = [r for r in f.node.body[f.node.body.index(w) + 1:] if isinstance(r, ast.Return)]
            rets_ok = bool(after) and all(re.match(r"^%s\b" % re.escape(tested), src(r.value)) for r in after)
            inner_rets = [r for r in ast.walk(w) if isinstance(r, ast.Return)]
            inner_ok = all(isinstance(r.value, ast.List) and not r.value.elts for r in inner_rets)
            ok = no_break and rets_ok and inner_ok
            msg = (f"the loop is left only when the exact membership test holds for `{tested}`, which is what is returned (or [] when the bound excludes all vectors)"
                   if ok else "the returned matrix is not the one that passed _all_in_lattice (break / different variable / early non-empty return)")
    if not ok and not (loops and any(isinstance(x, ast.Break) for x in ast.walk(loops[0]))):
        obs.append(inconclusive("E-kauers", f"{rp}::{f.qualname}::exit", rp, line, f.qualname, "exit of the refinement loop not recognised"))
    else:
        obs.append(Ob("E-kauers", f"{rp}::{f.qualname}::exit", rp, line, f.qualname, ok, msg))
    g = repo.function(rp, "ExponentLattice._all_in_lattice")
    c = cfg_of(g.node)
    exact = [x for x in walk_no_nested(g.node) if isinstance(x, ast.Call) and call_name(x) == "algebraic_number_equals_const"]
    true_rets = [r for r in walk_no_nested(g.node) if isinstance(r, ast.Return) and isinstance(r.value, ast.Constant) and r.value.value is True]
    ok2 = None
    msg2 = "arrangement of the exact membership test not recognised"
    if not exact and not any("algebraic_number_equals_const" in src(h.node) for h in helper_bodies(repo, g, g.node)):
        ok2, msg2 = False, "the membership test no longer uses the exact comparison algebraic_number_equals_const: a numerically small but non-zero deviation is accepted as a relation"
    if exact and true_rets:
        en = node_for(c, exact[0])
        # every path to `return True` passes the head of the loop that contains the exact test, and a failing exact test returns False
        loop = next((a for a in ancestors(exact[0]) if isinstance(a, ast.For)), None)
        head = next((n for n in c.nodes if n.kind == "test" and n.stmt is loop), None) if loop is not None else None
        all_rows = loop is not None and "shape[0]" in src(loop.iter)
        dom = head is not None and all(c.dominates(head, node_for(c, r)) for r in true_rets)
        fails = False
        for b, lab in c.succ[en]:
            if lab in (True, False):
                rs = [n for n in c._reach(b, c.succs) if n.kind == "stmt" and isinstance(n.ast, ast.Return)]
                first = b if (b.kind == "stmt" and isinstance(b.ast, ast.Return)) else None
                if first is not None and isinstance(first.ast.value, ast.Constant) and first.ast.value.value is False:
                    fails = True
        const_one = len(exact[0].args) == 2 and isinstance(exact[0].args[1], ast.Constant) and exact[0].args[1].value == 1
        ok2 = True if (dom and fails and all_rows and const_one) else None
        msg2 = "True is returned only after every row passed the exact test prod(b_i**e_i) == 1" if ok2 else \
            "arrangement of the exact membership test not recognised"
    if ok2 is None:
        obs.append(inconclusive("E-kauers", f"{rp}::{g.qualname}::exact", rp, g.node.lineno, g.qualname, msg2))
    else:
        obs.append(Ob("E-kauers", f"{rp}::{g.qualname}::exact", rp, g.node.lineno, g.qualname, ok2, msg2))
    # the exact test itself: minimal polynomial x - c
    h = repo.function("utils/algebraic_numbers.py", "algebraic_number_equals_const")
    s = src(h.node)
    ok3 = "minpoly" in s and "degree() == 1" in s and "eval(c) == 0" in s
    if ok3:
        obs.append(Ob("E-kauers", f"utils/algebraic_numbers.py::{h.qualname}::minpoly", h.relpath, h.node.lineno, h.qualname, True, "equality with a constant is decided on the minimal polynomial (exact)"))
    elif "minpoly" not in s:
        obs.append(Ob("E-kauers", f"utils/algebraic_numbers.py::{h.qualname}::minpoly", h.relpath, h.node.lineno, h.qualname, False, "equality test no longer uses the minimal polynomial"))
    else:
        obs.append(inconclusive("E-kauers", f"utils/algebraic_numbers.py::{h.qualname}::minpoly", h.relpath, h.node.lineno, h.qualname, "shape of the minimal-polynomial test not recognised"))
    return obs


def mut_kauers(repo: Repo) -> List[Mutant]:
    out = []
    rp = "invariants/exponent_lattice.py"

    def numeric_only(tree):
        fn = find_def(tree, "ExponentLattice._all_in_lattice")
        for n in list(ast.walk(fn)):
            if isinstance(n, ast.For) and "algebraic_number_equals_const" in src(n):
                return replace_node(fn, n, ast.Pass())
        return False
    ov = mutate_module(repo, rp, numeric_only)
    if ov:
        out.append(Mutant("membership-numeric-only", ov, "fire", "_all_in_lattice::exact", control=True))

    def brk(tree):
        fn = find_def(tree, "ExponentLattice.compute_basis_kauers")
        for n in ast.walk(fn):
            if isinstance(n, ast.While):
                n.body.append(ast.If(test=ast.parse("w > 1024").body[0].value, body=[ast.Break()], orelse=[]))
                return True
        return False
    ov = mutate_module(repo, rp, brk)
    if ov:
        out.append(Mutant("precision-cap-break", ov, "fire", "compute_basis_kauers::exit"))
    return out


RULES = {
    "CONSTANTS": Rule("E-constants", rule_constants_guard, 1, "constant folding is controlled by a test on the free symbols of the folded value and the assigned variables", mut_constants_guard, soft=True),
    "TYPER": Rule("E-typer", rule_typer, 4, "type inference refuses intervals, types only non-failed all-numeric sets, and starts from the state after the *whole* initial block", mut_typer, soft=True),
    "SUPPORT": Rule("A4-support-default", rule_support_default, 5, "supports / free symbols of guarded assignments include the default variable unless the condition is implied by the loop guard", mut_support_default, soft=True),
    "FLOAT": Rule("E-float", rule_float_conversion, 4, "float literals in coefficients, probabilities and distribution parameters are converted to exact rationals through their decimal text", mut_float_conversion, soft=True),
    "MGF": Rule("E-mgf", rule_mgf_guard, 5, "mgf uses are dominated by a raising existence test at the order used; functional moments leave through one rounding funnel", mut_mgf_guard, soft=True),
    "ABSTRACT": Rule("E-abstract", rule_abstract_exponentials, 2, "b**n is abstracted to a symbol only behind raising checks (numeric base, exponent exactly n)", mut_abstract_exponentials, soft=True),
    "KAUERS": Rule("E-kauers", rule_kauers, 3, "the LLL loop returns only a matrix that passed the exact membership test on every row", mut_kauers, soft=True),
}


# ------------------------------------------------------------------ C05/C08: declared supports match the kind of the family
BOUNDED = {"Uniform": ("$a", "$b"), "TruncNormal": ("$a", "$b"), "Beta": ("0", "$scale")}
HALF_LINE = {"Exponential", "Gamma"}
WHOLE_LINE = {"Normal", "Laplace"}


def rule_support_kind(repo: Repo) -> List[Ob]:
    obs = []
    base = repo.cls("Distribution", "program/distribution/distribution.py")
    for cls in repo.subclasses(base):
        disc = cls.methods.get("is_discrete")
        sup = cls.methods.get("get_support")
        if disc is None or sup is None:
            raise AnalysisError(f"{cls.name} lacks is_discrete/get_support")
        dr = [r.value for r in walk_no_nested(disc.node) if isinstance(r, ast.Return)]
        if len(dr) != 1 or not isinstance(dr[0], ast.Constant) or not isinstance(dr[0].value, bool):
            obs.append(inconclusive("A4-support-kind", f"{cls.relpath}::{cls.name}.get_support::kind", cls.relpath, disc.node.lineno, disc.qualname, "is_discrete is not a constant"))
            continue
        discrete = dr[0].value
        rets = [r.value for r in walk_no_nested(sup.node) if isinstance(r, ast.Return)]
        key = f"{cls.relpath}::{cls.name}.get_support::kind"
        if discrete:
            def _elems(r):
                return r.elts if isinstance(r, ast.Set) else [r.elt] if isinstance(r, (ast.SetComp, ast.ListComp, ast.GeneratorExp)) else [r]
            bad = [r for r in rets if any(isinstance(x, ast.Tuple) and isinstance(x.ctx, ast.Load) for e in _elems(r) for x in ast.walk(e))]
            obs.append(Ob("A4-support-kind", key, cls.relpath, sup.node.lineno, sup.qualname, not bad,
                          "discrete family: support is an enumeration of values" if not bad else "a discrete family reports an interval"))
            continue
        sdefs = Defs(sup.node, sup.params()[0])

        def res(e, d=0):
            if isinstance(e, ast.Name) and d < 4:
                vals = [v for v in sdefs.defs.get(e.id, []) if isinstance(v, ast.expr)]
                if len(vals) == 1:
                    return res(vals[0], d + 1)
            return e
        rets = [res(r) for r in rets]
        for r in rets:
            if isinstance(r, ast.Set):
                r.elts = [res(e) for e in r.elts]
        recognised = bool(rets) and all(isinstance(r, ast.Set) and r.elts and all(isinstance(e, (ast.Tuple, ast.Attribute, ast.Constant, ast.Call, ast.UnaryOp)) for e in r.elts) for r in rets)
        if not recognised:
            obs.append(inconclusive("A4-support-kind", key, cls.relpath, sup.node.lineno, sup.qualname, "support expression not recognised"))
            continue
        ok = all(all(isinstance(e, ast.Tuple) and len(e.elts) == 2 for e in r.elts) for r in rets)
        obs.append(Ob("A4-support-kind", key, cls.relpath, sup.node.lineno, sup.qualname, ok,
                      "continuous family: support is reported as (lower, upper) intervals, which type inference refuses to treat as finitely many values" if ok else
                      f"continuous family {cls.name} reports `{src(rets[0]) if rets else None}`: plain values instead of an interval make the variable look finitely valued"))
        if not ok:
            continue
        lo, hi = rets[0].elts[0].elts
        selfn = sup.params()[0]

        def canon(e):
            if is_self_attr(e, None, selfn):
                return "$" + e.attr
            s = src(e)
            return {"Zero()": "0", "zero": "0", "0": "0", "-oo": "-oo", "oo": "oo", "One()": "1"}.get(s, s)
        got = (canon(lo), canon(hi))
        if cls.name in BOUNDED:
            want = BOUNDED[cls.name]
        elif cls.name in HALF_LINE:
            want = ("0", "oo")
        elif cls.name in WHOLE_LINE:
            want = ("-oo", "oo")
        else:
            obs.append(Ob("A4-support-kind", f"{cls.relpath}::{cls.name}.get_support::bounds", cls.relpath, sup.node.lineno, sup.qualname, False,
                          f"continuous family {cls.name} has no reviewed support bounds"))
            continue
        obs.append(Ob("A4-support-kind", f"{cls.relpath}::{cls.name}.get_support::bounds", cls.relpath, sup.node.lineno, sup.qualname, got == want,
                      f"support interval is ({want[0]}, {want[1]})" if got == want else f"support interval is ({got[0]}, {got[1]}), the family lives on ({want[0]}, {want[1]})"))
    return obs


def mut_support_kind(repo: Repo) -> List[Mutant]:
    out = []

    def endpoints(tree):
        fn = find_def(tree, "TruncNormal.get_support")
        for n in ast.walk(fn):
            if isinstance(n, ast.Return) and isinstance(n.value, ast.Set) and isinstance(n.value.elts[0], ast.Tuple):
                n.value.elts = list(n.value.elts[0].elts)
                return True
        return False
    ov = mutate_module(repo, "program/distribution/truncated_normal.py", endpoints)
    if ov:
        out.append(Mutant("interval-as-two-values", ov, "fire", "TruncNormal.get_support::kind", control=True))

    def swapped(tree):
        fn = find_def(tree, "Uniform.get_support")
        for n in ast.walk(fn):
            if isinstance(n, ast.Tuple) and len(n.elts) == 2:
                n.elts.reverse()
                return True
        return False
    ov = mutate_module(repo, "program/distribution/uniform.py", swapped)
    if ov:
        out.append(Mutant("bounds-swapped", ov, "fire", "Uniform.get_support::bounds"))

    def beta_unit(tree):
        fn = find_def(tree, "Beta.get_support")
        for n in ast.walk(fn):
            if isinstance(n, ast.Tuple) and len(n.elts) == 2:
                n.elts[1] = ast.parse("One()").body[0].value
                return True
        return False
    ov = mutate_module(repo, "program/distribution/beta.py", beta_unit)
    if ov:
        out.append(Mutant("beta-support-ignores-scale", ov, "fire", "Beta.get_support::bounds"))
    return out


# ------------------------------------------------------------------ C05: fixed-point bookkeeping of the typer
def rule_typer_fixpoint(repo: Repo) -> List[Ob]:
    obs = []
    rp = "type_inference/finite_fixed_point_typer.py"
    cls = repo.cls("FiniteFixedPointTyper", rp)
    n = 0
    # methods that run only before the first pass (the initialiser and helpers called from nowhere else)
    def callees(g):
        return {c0.func.attr for c0 in walk_no_nested(g.node) if isinstance(c0, ast.Call) and isinstance(c0.func, ast.Attribute) and isinstance(c0.func.value, ast.Name) and c0.func.value.id == "self"}
    init_only = {"_initialize_state"}
    grew = True
    while grew:
        grew = False
        for g in cls.all_methods:
            if g.name in init_only:
                continue
            callers_of_g = {h.name for h in cls.all_methods if g.name in callees(h)}
            if callers_of_g and callers_of_g <= init_only:
                init_only.add(g.name)
                grew = True
    for m in cls.all_methods:
        if m.name in init_only:
            continue  # runs before the first pass; every Status it creates starts with has_changed=True
        for blk_owner in walk_no_nested(m.node):
            for field in ("body", "orelse"):
                blk = getattr(blk_owner, field, None)
                if not isinstance(blk, list):
                    continue
                muts = []
                for st in blk:
                    if isinstance(st, ast.Assign) and any(isinstance(t, ast.Attribute) and t.attr == "has_failed" for t in st.targets) and isinstance(st.value, ast.Constant) and st.value.value is True:
                        muts.append(st)
                    if isinstance(st, ast.AugAssign) and isinstance(st.target, ast.Attribute) and st.target.attr == "values":
                        muts.append(st)
                for mu in muts:
                    n += 1
                    tgt = mu.targets[0] if isinstance(mu, ast.Assign) else mu.target
                    owner = src(tgt.value)
                    flags = [st for st in blk if isinstance(st, ast.Assign) and any(isinstance(t, ast.Attribute) and t.attr == "has_changed" and src(t.value) == owner for t in st.targets)]
                    if not flags:
                        # announced elsewhere?  anywhere in this method, or by a caller right after the call
                        def sets_changed(fn_node) -> Optional[bool]:
                            vals = [st.value for st in walk_no_nested(fn_node) if isinstance(st, ast.Assign) and any(isinstance(t, ast.Attribute) and t.attr == "has_changed" for t in st.targets)]
                            if not vals:
                                return None
                            return any(isinstance(v, ast.Constant) and v.value is True for v in vals) or any(not isinstance(v, ast.Constant) for v in vals)
                        here = sets_changed(m.node)
                        callers = [g for g in cls.all_methods if g.node is not m.node and any(isinstance(c0, ast.Call) and call_name(c0) == m.name for c0 in walk_no_nested(g.node))]
                        def announces_after_call(g) -> bool:
                            for owner_node in walk_no_nested(g.node):
                                for fld in ("body", "orelse", "finalbody"):
                                    blk2 = getattr(owner_node, fld, None)
                                    if not isinstance(blk2, list):
                                        continue
                                    for i2, st2 in enumerate(blk2):
                                        if any(isinstance(c0, ast.Call) and call_name(c0) == m.name for c0 in ast.walk(st2)) and not isinstance(st2, (ast.If, ast.For, ast.While, ast.With, ast.Try)):
                                            tail = ast.Module(body=blk2[i2 + 1:], type_ignores=[])
                                            if sets_changed(tail):
                                                return True
                            return False
                        there = [announces_after_call(g) for g in callers]
                        keyc = f"{rp}::{m.qualname}::changed-after::{'fail' if isinstance(mu, ast.Assign) else 'grow'}"
                        if here or any(there):
                            obs.append(inconclusive("E-typer-fixpoint", keyc, rp, mu.lineno, m.qualname, "has_changed is assigned in this method or a caller, but not next to the state change"))
                        else:
                            obs.append(Ob("E-typer-fixpoint", keyc, rp, mu.lineno, m.qualname, False,
                                          f"`{src(mu)[:50]}` changes the state of a variable and neither {m.name} nor its callers ({', '.join(g.name for g in callers) or 'none'}) set has_changed = True: "
                                          "the fixed-point test cannot see the change, readers evaluated earlier in the pass keep their value sets and are typed finite"))
                        continue
                    ok = all(isinstance(f.value, ast.Constant) and f.value.value is True for f in flags)
                    obs.append(Ob("E-typer-fixpoint", f"{rp}::{m.qualname}::changed-after::{'fail' if isinstance(mu, ast.Assign) else 'grow'}", rp, mu.lineno, m.qualname, ok,
                                  f"`{src(mu)[:50]}` is announced with has_changed = True, so the fixed-point loop makes another pass" if ok else
                                  f"`{src(mu)[:50]}` changes the state of a variable without has_changed = True: readers of the variable that were evaluated earlier in the pass keep their partial value sets and are typed finite"))
    # a variable that is still changing when it is taken out of the iteration must be marked failed, not just locked
    def effects(stmts, depth=0) -> Set[str]:
        out: Set[str] = set()
        for st in stmts:
            for x in ast.walk(st):
                if isinstance(x, ast.Assign) and isinstance(x.value, ast.Constant) and x.value.value is True:
                    out |= {t.attr for t in x.targets if isinstance(t, ast.Attribute)}
                if isinstance(x, ast.Call) and isinstance(x.func, ast.Attribute) and isinstance(x.func.value, ast.Name) and x.func.value.id == "self" and depth < 2:
                    h = cls.find_method(x.func.attr)
                    if h is not None:
                        out |= effects(h.node.body, depth + 1)
        return out
    for m in cls.all_methods:
        for iff in [x for x in walk_no_nested(m.node) if isinstance(x, ast.If)]:
            t = iff.test
            region = None
            if isinstance(t, ast.Attribute) and t.attr == "has_changed":
                region = iff.body
            elif isinstance(t, ast.UnaryOp) and isinstance(t.op, ast.Not) and isinstance(t.operand, ast.Attribute) and t.operand.attr == "has_changed":
                # if not s.has_changed: continue ; <what happens to a variable that is still changing>
                par_ = parent(iff)
                if iff.orelse:
                    region = iff.orelse
                elif isinstance(par_, ast.For) and iff.body and isinstance(iff.body[-1], ast.Continue) and iff in par_.body:
                    region = par_.body[par_.body.index(iff) + 1:]
            if region is not None and any(isinstance(a, ast.For) for a in ancestors(iff)):
                eff = effects(region)
                if not ({"is_locked", "has_failed"} & eff):
                    continue
                keyl = f"{rp}::{m.qualname}::still-changing"
                if "has_failed" in eff:
                    obs.append(Ob("E-typer-fixpoint", keyl, rp, iff.lineno, m.qualname, True, "a variable that is still changing when it is taken out of the iteration is marked failed"))
                else:
                    obs.append(Ob("E-typer-fixpoint", keyl, rp, iff.lineno, m.qualname, False,
                                  "a variable whose value set is still growing is only locked, not failed: its incomplete set is handed out as a finite type once the iteration budget is used up"))
    # an announcement made during a pass must survive until the fixed-point test: a sweep over ALL state entries that resets
    # has_changed and runs after the updates of the same pass erases announcements (a variable failed in this pass is locked at once)
    def can_announce(stmts, depth=0) -> bool:
        for st in stmts:
            for x in ast.walk(st):
                if isinstance(x, ast.Assign) and any(isinstance(t, ast.Attribute) and t.attr == "has_changed" for t in x.targets) and not (isinstance(x.value, ast.Constant) and x.value.value is False):
                    return True
                if isinstance(x, ast.Call) and isinstance(x.func, ast.Attribute) and isinstance(x.func.value, ast.Name) and x.func.value.id == "self" and depth < 3:
                    h = cls.find_method(x.func.attr)
                    if h is not None and can_announce(h.node.body, depth + 1):
                        return True
        return False
    from ..shape import expanded as _expanded, callers_of as _callers_of
    for m in cls.all_methods:
        if m.name.startswith("_") and len(_callers_of(repo, m)) == 1 and _callers_of(repo, m)[0].name.startswith("_"):
            pass      # still examined on its own: a sweep in a helper is judged against what precedes its call through the expanded caller
        mnode = _expanded(repo, m)
        for blk_owner in [mnode] + [x for x in walk_no_nested(mnode) if isinstance(x, (ast.If, ast.For, ast.While, ast.With))]:
            for fld in ("body", "orelse"):
                blk = getattr(blk_owner, fld, None)
                if not isinstance(blk, list):
                    continue
                for i, st in enumerate(blk):
                    if not (isinstance(st, ast.For) and re.search(r"state\.(values|items|keys)\(\)|in self\.state\b", src(st.iter) if True else "")):
                        continue
                    resets = [x for x in ast.walk(st) if isinstance(x, ast.Assign) and any(isinstance(t, ast.Attribute) and t.attr == "has_changed" for t in x.targets)
                              and isinstance(x.value, ast.Constant) and x.value.value is False]
                    if not resets:
                        continue
                    keys_ = f"{rp}::{m.qualname}::reset-sweep"
                    if can_announce(blk[:i]):
                        obs.append(Ob("E-typer-fixpoint", keys_, rp, resets[0].lineno, m.qualname, False,
                                      f"`{src(resets[0])[:50]}` in a sweep over all variables runs after the updates of the same pass: the has_changed = True of a variable that "
                                      "failed (and was locked) in this pass is erased before the fixed-point test, readers evaluated earlier in the pass keep their value sets"))
                    else:
                        obs.append(Ob("E-typer-fixpoint", keys_, rp, resets[0].lineno, m.qualname, True, "the sweep that clears has_changed runs before the updates of the pass"))
    if n < 2:
        raise AnalysisError("typer: state mutations not found")
    # types are extracted only after the fixed point was reached
    inf = cls.methods.get("infer_types")
    from ..shape import expanded as _exp2
    infx = _exp2(repo, inf)            # the two loops may have been moved into helpers of the typer
    c = cfg_of(infx)
    rets = [r for r in walk_no_nested(infx) if isinstance(r, ast.Return)]
    from .discipline import _canonical_quantifier

    def still_changing(e) -> Optional[bool]:
        """True: the test says `some variable changed in the last pass`; False: it says `no variable changed`; None: not a fixed-point test.
        Both spellings: a call of a helper named *fix(ed)point*, or the quantifier over has_changed itself (the helper inlined)."""
        neg = False
        while isinstance(e, ast.UnaryOp) and isinstance(e.op, ast.Not):
            e, neg = e.operand, not neg
        if isinstance(e, ast.Call) and re.search(r"fix(ed)?_?point", call_name(e) or ""):
            return neg
        if isinstance(e, ast.Call):
            cq = _canonical_quantifier(e)
            if cq is not None and "has_changed" in cq[1]:
                # _canonical_quantifier folds the enclosing `not` itself
                return {"any": True, "none": False}.get(cq[0])
        return None
    whiles = [t for t in c.nodes if t.kind == "test" and isinstance(t.ast, ast.expr) and still_changing(t.ast) is not None]
    ok = bool(rets) and bool(whiles)
    if ok:
        # every path to the return crosses an outcome of a fixed-point test that says `reached` (the exit of `while still changing`, the true
        # arm of `if reached: break`), and no pass of the iteration runs between that outcome and the return
        rn = node_for(c, rets[-1])
        good = set()
        for t in whiles:
            sc = still_changing(t.ast)
            for nxt, lab in c.succ[t]:
                if isinstance(lab, bool) and ((sc is True and lab is False) or (sc is False and lab is True)):
                    good.add((id(t), id(nxt)))
        seen_, stack_ = set(), [c.entry]
        unguarded = False
        while stack_:
            n_ = stack_.pop()
            if id(n_) in seen_:
                continue
            seen_.add(id(n_))
            if n_ is rn:
                unguarded = True
                break
            for nxt, lab in c.succ[n_]:
                if (id(n_), id(nxt)) not in good:
                    stack_.append(nxt)
        # after a `reached` outcome nothing changes the state before the return
        def changes_state(n_):
            if n_.ast is not None and n_ is not rn and n_.kind == "stmt" and any(isinstance(x, ast.Assign) and any(isinstance(t_, ast.Attribute) and t_.attr in ("has_changed", "values", "is_locked", "has_failed")
                                                                                                            for t_ in x.targets) for x in [n_.ast] if isinstance(n_.ast, ast.Assign)):
                return True
            return n_.ast is not None and n_ is not rn and any(isinstance(x, ast.Call) and isinstance(x.func, ast.Attribute) and isinstance(x.func.value, ast.Name) and x.func.value.id == "self"
                                                                and cls.find_method(x.func.attr) is not None and can_announce(cls.find_method(x.func.attr).node.body) for x in ast.walk(n_.ast)
                                                                if not (n_.kind == "test" and still_changing(n_.ast) is not None))
        dirty = False
        for t in whiles:
            for nxt, lab in c.succ[t]:
                if (id(t), id(nxt)) in good:
                    seen2, st2 = set(), [nxt]
                    while st2:
                        n_ = st2.pop()
                        if id(n_) in seen2 or n_ is rn:
                            continue
                        seen2.add(id(n_))
                        if changes_state(n_) and c.reachable(n_, rn):
                            # allowed when another `reached` outcome lies between this change and the return on every path: approximated by
                            # requiring that the change is itself inside a loop governed by a fixed-point test
                            if not any((id(w_), id(x_)) in good and c.reachable(n_, w_) for w_ in whiles for x_, _l in c.succ[w_]):
                                dirty = True
                            continue
                        st2 += [x_ for x_, _l in c.succ[n_]]
        ok = not unguarded and not dirty
    if not whiles:
        obs.append(inconclusive("E-typer-fixpoint", f"{rp}::FiniteFixedPointTyper.infer_types::exit", rp, inf.node.lineno, inf.qualname, "loop `while not fixed point reached` not recognised"))
    else:
        obs.append(Ob("E-typer-fixpoint", f"{rp}::FiniteFixedPointTyper.infer_types::exit", rp, inf.node.lineno, inf.qualname, ok,
                      "types are extracted only after `while not fixedpoint_reached` has exited normally" if ok else "types can be extracted before the fixed point is reached"))
    # the fixed-point test itself: NO variable changed (all(not changed) / not any(changed)); used negated it reads `any changed`
    quants = []
    for m in cls.all_methods:
        for x in walk_no_nested(m.node):
            if isinstance(x, ast.Call):
                cq = _canonical_quantifier(x)
                if cq is not None and "has_changed" in cq[1]:
                    quants.append((m, x, cq[0]))
    keyq = f"{rp}::FiniteFixedPointTyper._fixedpoint_reached::all"
    if not quants:
        obs.append(inconclusive("E-typer-fixpoint", keyq, rp, cls.node.lineno, "FiniteFixedPointTyper", "fixed-point test over has_changed not written with any()/all()"))
    else:
        badq = [(m, x, q) for m, x, q in quants if q in ("all", "notall")]
        m0, x0, q0 = (badq or quants)[0]
        obs.append(Ob("E-typer-fixpoint", keyq, rp, x0.lineno, m0.qualname, not badq,
                      "the fixed point is reached only when no variable changed in the last pass" if not badq else
                      f"`{src(x0)[:60]}`: the fixed-point test holds as soon as ONE variable is unchanged (it must be: no variable changed)"))
    return obs


def mut_typer_fixpoint(repo: Repo) -> List[Mutant]:
    out = []
    rp = "type_inference/finite_fixed_point_typer.py"

    def quiet_fail(tree):
        fn = find_def(tree, "FiniteFixedPointTyper._fail_variable")
        for n in ast.walk(fn):
            if isinstance(n, ast.Assign) and "has_changed" in src(n.targets[0]):
                n.value = ast.Constant(value=False)
                return True
        return False
    ov = mutate_module(repo, rp, quiet_fail)
    if ov:
        out.append(Mutant("failure-not-announced", ov, "fire", "_fail_variable::changed-after::fail", control=True))

    def any_fix(tree):
        fn = find_def(tree, "FiniteFixedPointTyper._fixedpoint_reached")
        for n in ast.walk(fn):
            if isinstance(n, ast.Call) and call_name(n) == "all":
                n.func = ast.Name(id="any", ctx=ast.Load())
                return True
        return False
    ov = mutate_module(repo, rp, any_fix)
    if ov:
        out.append(Mutant("fixpoint-if-any-unchanged", ov, "fire", "_fixedpoint_reached::all"))
    ov = text_mutant(repo, rp, "while not self._fixedpoint_reached():", "if not self._fixedpoint_reached():")
    if ov:
        out.append(Mutant("one-failing-pass-instead-of-a-loop", ov, "fire", "infer_types::exit"))
    return out


RULES["SUPPORTKIND"] = Rule("A4-support-kind", rule_support_kind, 10, "continuous families report interval supports with the family's bounds, discrete ones enumerations", mut_support_kind, soft=True)
RULES["TYPERFIX"] = Rule("E-typer-fixpoint", rule_typer_fixpoint, 4, "every state change of the typer is announced by has_changed; types are extracted only at the fixed point", mut_typer_fixpoint, soft=True)
