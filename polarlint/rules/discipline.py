"""Error-discipline rules (C18, safety half): whatever Polar refuses, it refuses with an error -- a refusal
never takes the form of a wrong or partial result.  Two necessary conditions are visible in the shape of the code:
no exception is swallowed, and no function hands back an implicit None on one path where it returns a value on
another (a dispatcher that falls off its end)."""
import ast
from typing import Dict, List, Optional, Set, Tuple

from ..model import Repo, FunctionInfo, AnalysisError, walk_no_nested, src, call_name, ancestors, dotted
from ..core import Ob, Rule, Mutant, mutate_module, find_def, replace_node, text_mutant, inconclusive
from ..cfg import cfg_of

SCOPE_EXCLUDE = ("tests/", "plots/", "benchmarks/", "documentation/")

# handlers that continue instead of re-raising: key -> why the continuation is a complete alternative
# keyed by (file, callee that computes the alternative): the function around it may be renamed or split
REVIEWED_FALLBACKS = {
    ("utils/expressions.py", "roots"): "Poly.all_roots failed: sympy.roots is complete below degree 5 and the handler re-raises from degree 5 on (checked by F-rootsource)",
}
# functions that return a value on some paths and fall off the end on others: key -> why None is a proper answer
REVIEWED_IMPLICIT_NONE = {
    "bayesnet/bayes_variable.py::BayesVariable.cpt_has_nan": "predicate used only in a truth context: None is read as `no NaN entry`",
}


def _handler_outcomes(h: ast.ExceptHandler) -> Tuple[bool, List[str]]:
    """(every path through the handler ends in raise?, kinds of non-raising exits)"""
    # small structural walk: a handler body "always raises" if its last statement does, or an if/else whose arms all do
    def always_raises(stmts) -> bool:
        for st in stmts:
            if isinstance(st, ast.Raise):
                return True
            if isinstance(st, ast.If) and st.orelse and always_raises(st.body) and always_raises(st.orelse):
                return True
            if isinstance(st, (ast.Return, ast.Continue, ast.Break)):
                return False
        return False
    exits = []
    for n in ast.walk(h):
        if isinstance(n, ast.Return):
            exits.append("return")
        elif isinstance(n, ast.Continue):
            exits.append("continue")
        elif isinstance(n, ast.Break):
            exits.append("break")
        elif isinstance(n, ast.Pass):
            exits.append("pass")
    return always_raises(h.body), exits


def rule_except_discipline(repo: Repo) -> List[Ob]:
    obs = []
    n_handlers = 0
    for f in repo.functions:
        if f.relpath.startswith(SCOPE_EXCLUDE):
            continue
        for t in walk_no_nested(f.node):
            if not isinstance(t, ast.Try):
                continue
            for h in t.handlers:
                n_handlers += 1
                key = f"{f.relpath}::{f.qualname}::except::{src(h.type) if h.type is not None else 'bare'}"
                raises, exits = _handler_outcomes(h)
                # EAFP lookup:  try: return table[key]  except KeyError: <create the entry>  -- a lookup miss is not a refusal
                lookup_types = {"KeyError", "IndexError", "AttributeError", "StopIteration", "LookupError"}
                htypes = {src(x) for x in (h.type.elts if isinstance(h.type, ast.Tuple) else [h.type])} if h.type is not None else set()
                only_lookup = len(t.body) == 1 and isinstance(t.body[0], (ast.Return, ast.Assign, ast.Expr)) and \
                    isinstance(getattr(t.body[0], "value", None), (ast.Subscript, ast.Attribute, ast.Call)) and \
                    (not isinstance(t.body[0].value, ast.Call) or call_name(t.body[0].value) in ("next", "getattr", "index", "pop"))
                if htypes and htypes <= lookup_types and only_lookup:
                    obs.append(Ob("E-except", key, f.relpath, h.lineno, f.qualname, True, "lookup miss handled (try: read an entry / except: create it)", trivial=True))
                    continue
                if raises:
                    obs.append(Ob("E-except", key, f.relpath, h.lineno, f.qualname, True, "the handler re-raises (possibly as the project's own exception) on every path"))
                    continue
                alt_calls = {call_name(c0) for c0 in ast.walk(h) if isinstance(c0, ast.Call)}
                # the alternative may be computed after the try statement (handler: `if cannot: raise`, then fall through)
                from ..model import parent as _parent
                owner = _parent(t)
                for fld in ("body", "orelse", "finalbody"):
                    blk = getattr(owner, fld, None)
                    if isinstance(blk, list) and any(x is t for x in blk):
                        for later in blk[blk.index(t) + 1:]:
                            alt_calls |= {call_name(c0) for c0 in ast.walk(later) if isinstance(c0, ast.Call)}
                reason = next((why for (rp0, callee), why in REVIEWED_FALLBACKS.items() if rp0 == f.relpath and callee in alt_calls), None)
                # a handler that raises on some path and otherwise computes an alternative for the value of the try body
                has_raise = any(isinstance(n, ast.Raise) for n in ast.walk(h))
                if reason and has_raise:
                    obs.append(Ob("E-except", key, f.relpath, h.lineno, f.qualname, True, f"reviewed fallback: {reason}"))
                    continue
                what = ("swallows the exception (`%s`)" % ", ".join(sorted(set(exits)))) if exits else "continues after the exception"
                obs.append(Ob("E-except", key, f.relpath, h.lineno, f.qualname, False,
                              f"handler {what}: a refusal of the code in the try block turns into a result computed without it"))
    # module-level try blocks
    for m in repo.modules.values():
        if not m.relpath.endswith(".py") or m.relpath.startswith(SCOPE_EXCLUDE) or m.tree is None:
            continue
        for t in m.tree.body:
            if isinstance(t, ast.Try):
                for h in t.handlers:
                    n_handlers += 1
                    raises, exits = _handler_outcomes(h)
                    imports_only = all(isinstance(s, (ast.Import, ast.ImportFrom)) for s in t.body)
                    obs.append(Ob("E-except", f"{m.relpath}::<module>::except", m.relpath, h.lineno, "<module>", raises or imports_only,
                                  "module-level handler re-raises / guards an optional import" if raises or imports_only else "module-level handler swallows an exception"))
    if n_handlers < 3:
        raise AnalysisError(f"E-except: only {n_handlers} exception handlers found")
    return obs


def mut_except_discipline(repo: Repo) -> List[Mutant]:
    out = []

    def swallow(tree):
        fn = find_def(tree, "GoalParser._parse_moment_relative")
        if fn is None:
            return False
        for n in ast.walk(fn):
            if isinstance(n, ast.ExceptHandler):
                n.body = [ast.parse("return kind, [1, sympify(goal)]").body[0]]
                return True
        return False
    ov = mutate_module(repo, "inputparser/goal_parser.py", swallow)
    if ov:
        out.append(Mutant("malformed-goal-gets-a-default", ov, "fire", "_parse_moment_relative::except", control=True))

    def roots_always(tree):
        fn = find_def(tree, "get_all_roots")
        if fn is None:
            return False
        for n in ast.walk(fn):
            if isinstance(n, ast.ExceptHandler):
                n.body = [s for s in n.body if not (isinstance(s, ast.If) and any(isinstance(x, ast.Raise) for x in ast.walk(s)))]
                return bool(n.body)
        return False
    ov = mutate_module(repo, "utils/expressions.py", roots_always)
    if ov:
        out.append(Mutant("fallback-without-reraise", ov, "fire", "get_all_roots::except"))
    return out


# ------------------------------------------------------------------ no implicit None next to a value
def rule_fallthrough(repo: Repo) -> List[Ob]:
    obs = []
    n = 0
    for f in repo.functions:
        if f.relpath.startswith(SCOPE_EXCLUDE):
            continue
        rets = [r for r in walk_no_nested(f.node) if isinstance(r, ast.Return) and r.value is not None
                and not (isinstance(r.value, ast.Constant) and r.value.value is None)]
        if not rets:
            continue
        n += 1
        if any(isinstance(x, (ast.Yield, ast.YieldFrom)) for x in walk_no_nested(f.node)):
            continue
        try:
            c = cfg_of(f.node)
        except AnalysisError:
            continue
        falls = [p for p in c.preds(c.exit) if not (p.kind == "stmt" and isinstance(p.ast, (ast.Return, ast.Raise)))]
        # `assert False` / sys.exit() as last statement are refusals
        falls = [p for p in falls if not (p.kind == "stmt" and ((isinstance(p.ast, ast.Assert) and isinstance(p.ast.test, ast.Constant) and not p.ast.test.value)
                                                               or (isinstance(p.ast, ast.Expr) and isinstance(p.ast.value, ast.Call) and call_name(p.ast.value) in ("exit", "_exit", "abort"))))]
        # an explicit `return None` states an optional result on purpose; a bare `return` / falling off the end does not
        bare = [r for r in walk_no_nested(f.node) if isinstance(r, ast.Return) and r.value is None]
        if not falls and not bare:
            continue
        key = f"{f.relpath}::{f.qualname}::implicit-none"
        reason = REVIEWED_IMPLICIT_NONE.get(f"{f.relpath}::{f.qualname}")
        line = getattr(falls[0].ast, "lineno", f.node.lineno) if falls else bare[0].lineno
        if reason:
            obs.append(Ob("E-fallthrough", key, f.relpath, line, f.qualname, True, f"reviewed: {reason}"))
            continue
        # is the missing value an optional result that callers test for?
        aware, sites = 0, 0
        for g in repo.functions:
            if g.relpath.startswith(SCOPE_EXCLUDE):
                continue
            gdefs = None
            for cnode in walk_no_nested(g.node):
                if isinstance(cnode, ast.Call) and call_name(cnode) == f.name:
                    sites += 1
                    par = getattr(cnode, "_parent", None)
                    from ..model import parent as _parent
                    par = _parent(cnode)
                    names = set()
                    if isinstance(par, ast.Assign) and len(par.targets) == 1 and isinstance(par.targets[0], ast.Name):
                        names.add(par.targets[0].id)
                    if isinstance(par, ast.NamedExpr) and isinstance(par.target, ast.Name):
                        names.add(par.target.id)
                    def tests_none(e, nm=None):
                        for x in ast.walk(e):
                            if isinstance(x, ast.Compare) and any(isinstance(c0, ast.Constant) and c0.value is None for c0 in x.comparators + [x.left]):
                                if nm is None or any(isinstance(y, ast.Name) and y.id == nm for y in ast.walk(x)):
                                    return True
                            if isinstance(x, (ast.If, ast.IfExp, ast.While)) and nm is not None and isinstance(x.test, (ast.Name, ast.UnaryOp)) \
                                    and any(isinstance(y, ast.Name) and y.id == nm for y in ast.walk(x.test)):
                                return True
                        return False
                    if isinstance(par, (ast.Compare, ast.If, ast.IfExp, ast.UnaryOp, ast.BoolOp, ast.While)) and (not isinstance(par, ast.Compare) or tests_none(par)):
                        aware += 1
                    elif names and any(tests_none(g.node, nm) for nm in names):
                        aware += 1
        if aware:
            obs.append(Ob("E-fallthrough", key, f.relpath, line, f.qualname, True, f"optional result: {aware} of {sites} call site(s) test the result before using it", trivial=True))
        elif not sites:
            obs.append(inconclusive("E-fallthrough", key, f.relpath, line, f.qualname, "can end without a value; no call site found to see whether that is handled"))
        else:
            obs.append(Ob("E-fallthrough", key, f.relpath, line, f.qualname, False,
                          f"returns a value on {len(rets)} path(s) but can also end without one (line {line}): an unhandled case yields None instead of an error"))
    if n < 200:
        raise AnalysisError(f"E-fallthrough: only {n} value-returning functions found")
    if not any(not o.ok for o in obs):
        obs.append(Ob("E-fallthrough", "repo::implicit-none::census", "", 0, "", True, f"{n} value-returning functions: none can end without a value (reviewed exceptions listed separately)"))
    return obs


def mut_fallthrough(repo: Repo) -> List[Mutant]:
    out = []

    def drop_final_raise(qual, rp):
        def tr(tree):
            fn = find_def(tree, qual)
            if fn is None or not isinstance(fn.body[-1], ast.Raise):
                return False
            fn.body.pop()
            return True
        return mutate_module(repo, rp, tr)
    ov = drop_final_raise("GoalParser.parse", "inputparser/goal_parser.py")
    if ov:
        out.append(Mutant("unknown-goal-falls-through", ov, "fire", "GoalParser.parse::implicit-none", control=True))
    ov = drop_final_raise("FunctionalAssignment.get_support", "program/assignment/functional_assignment.py")
    if ov:
        out.append(Mutant("unknown-function-falls-through", ov, "fire", "FunctionalAssignment.get_support::implicit-none"))
    return out


# ------------------------------------------------------------------ quantifiers of safety-relevant guards
# (file, predicate named in the comprehension element) -> (canonical quantifier over the *positive* predicate, reason)
#   "any": the guard fires / the fact holds if SOME element has the predicate;   "all": only if EVERY element has it.
REVIEWED_QUANTIFIERS = {
    ("program/transformer/conditions_normalizer.py", "is_iteration_dependent"): ("any", "a condition is refused if ANY of its variables depends on the iteration: the constant-probability abstraction needs all of them to be iteration independent"),
    ("invariants/exponent_lattice.py", "is_Rational"): ("all", "the coprimality shortcut is meaningful only if ALL bases are rational"),
    ("invariants/exponent_lattice.py", "is_rational"): ("all", "the factorisation based lattice algorithm needs ALL bases rational"),
    ("invariants/exponent_lattice.py", "is_integer"): ("all", "two bases are equivalent only if ALL entries of the transition matrix are integers"),
    ("program/distribution/truncated_normal.py", "is_Number"): ("notall", "the moment is refused unless ALL four parameters are numbers (refusal if NOT ALL are)"),
    ("type_inference/finite_fixed_point_typer.py", "has_changed"): ("none", "the fixed point is reached only if NO variable changed"),
    ("type_inference/finite_fixed_point_typer.py", "is_number"): ("all", "a value set becomes a type only if ALL its values are numbers"),
    ("program/type/finite.py", "v == 0 or v == 1"): ("all", "binary means ALL values are 0 or 1"),
    ("cli/actions/goals_action.py", "free_symbols"): ("none", "the minimum of the bounds is taken only if NONE of them still has free symbols"),
    ("program/program.py", "is_dependent"): ("any", "two variable sets are dependent if ANY pair is"),
    ("program/transformer/update_info_transformer.py", "iteration_dependent"): ("any", "a variable is iteration dependent if ANY parent is"),
}


def _canonical_quantifier(call: ast.Call) -> Optional[Tuple[str, str]]:
    """('any' | 'all' | 'none' | 'notall', predicate text) of an any()/all() call over a comprehension, with an enclosing `not`
    and a leading `not` of the element folded in:  all(not P) = none P,  not any(P) = none P,  not all(P) = notall P,  any(not P) = notall P."""
    q = call_name(call)
    if q not in ("any", "all") or not call.args:
        return None
    a0 = call.args[0]
    if isinstance(a0, (ast.ListComp, ast.GeneratorExp, ast.SetComp)):
        elt = a0.elt
    elif isinstance(a0, (ast.List, ast.Tuple, ast.Set)) and a0.elts:
        # a literal list of tests of one kind: [a.is_Number, b.is_Number, ...]
        negs = {isinstance(e, ast.UnaryOp) and isinstance(e.op, ast.Not) for e in a0.elts}
        if len(negs) != 1:
            return None
        elt = a0.elts[0]
    else:
        return None
    neg_elt = False
    while isinstance(elt, ast.UnaryOp) and isinstance(elt.op, ast.Not):
        elt = elt.operand
        neg_elt = not neg_elt
    from ..model import parent as _parent
    par = _parent(call)
    neg_out = False
    while isinstance(par, ast.UnaryOp) and isinstance(par.op, ast.Not):       # not not any(..): parity of the enclosing negations
        neg_out = not neg_out
        par = _parent(par)
    table = {("any", False, False): "any", ("any", True, False): "notall", ("any", False, True): "none", ("any", True, True): "all",
             ("all", False, False): "all", ("all", True, False): "none", ("all", False, True): "notall", ("all", True, True): "any"}
    return table[(q, neg_elt, neg_out)], src(elt)


def rule_quantifiers(repo: Repo) -> List[Ob]:
    obs = []
    seen = set()
    for f in repo.functions:
        if f.relpath.startswith(SCOPE_EXCLUDE):
            continue
        for n in walk_no_nested(f.node):
            if not isinstance(n, ast.Call):
                continue
            cq = _canonical_quantifier(n)
            if cq is None:
                continue
            quant, pred = cq
            for (rp, name), (want, reason) in REVIEWED_QUANTIFIERS.items():
                if rp == f.relpath and name in pred:
                    seen.add((rp, name))
                    key = f"{rp}::quantifier::{name}"
                    # an `if not any(..)`-style use whose negation is applied elsewhere cannot be told apart here: only the direct forms are compared
                    # the guard may be used negated at the site (`while not <guard>`; the same after a one-line predicate helper was
                    # inlined): the enclosing `not` is folded into the quantifier, so the negation of the reviewed quantifier is the
                    # same guard, and the negation of its flip is the same mistake
                    negq = {"any": "none", "none": "any", "all": "notall", "notall": "all"}
                    ok = quant in (want, negq[want])
                    flipped = {"any": "all", "all": "any", "none": "notall", "notall": "none"}[want]
                    if ok:
                        obs.append(Ob("E-quantifier", key, rp, n.lineno, f.qualname, True, f"{want.upper()}: {reason}"))
                    elif quant in (flipped, negq[flipped]):
                        obs.append(Ob("E-quantifier", key, rp, n.lineno, f.qualname, False,
                                      f"`{src(n)[:70]}` quantifies {quant.upper()} where the argument needs {want.upper()}: {reason}"))
                    else:
                        obs.append(inconclusive("E-quantifier", key, rp, n.lineno, f.qualname, f"`{src(n)[:60]}` is neither the reviewed quantifier nor its flip"))
    for (rp, name), (want, reason) in REVIEWED_QUANTIFIERS.items():
        if (rp, name) not in seen:
            obs.append(inconclusive("E-quantifier", f"{rp}::quantifier::{name}", rp, 0, "", f"the reviewed {want.upper()}-guard over `{name}` is no longer written with any()/all()"))
    return obs


def mut_quantifiers(repo: Repo) -> List[Mutant]:
    out = []

    def flip(rp, qual, attr, control=False):
        def tr(tree):
            fn = find_def(tree, qual)
            if fn is None:
                return False
            for n in ast.walk(fn):
                if isinstance(n, ast.Call) and call_name(n) in ("any", "all") and attr in src(n):
                    n.func = ast.Name(id="all" if call_name(n) == "any" else "any", ctx=ast.Load())
                    return True
            return False
        ov = mutate_module(repo, rp, tr)
        if ov:
            out.append(Mutant(f"quantifier-flipped:{attr}", ov, "fire", f"quantifier::{attr}", control=control))
    flip("program/transformer/conditions_normalizer.py", "ConditionsNormalizer._try_abstract_failed_condition", "is_iteration_dependent", True)
    flip("type_inference/finite_fixed_point_typer.py", "FiniteFixedPointTyper._extract_types", "is_number")
    flip("program/distribution/truncated_normal.py", "TruncNormal.get_moment", "is_Number")
    # De Morgan spelling of the fixed-point test must stay silent
    ov = text_mutant(repo, "type_inference/finite_fixed_point_typer.py", "all([not s.has_changed for s in self.state.values()])", "not any([s.has_changed for s in self.state.values()])")
    if ov:
        out.append(Mutant("benign-de-morgan", ov, "silent"))
    return out


# ------------------------------------------------------------------ methods called on freshly constructed objects exist
def _class_offers(ci, name: str) -> Optional[bool]:
    """True / False: the hierarchy of ci defines / does not define `name`; None: cannot tell (a base outside the repository, __getattr__)"""
    for c in ci.mro():
        if name in c.methods or name in c.annotations or name in c.class_assigns:
            return True
        if "__getattr__" in c.methods or "__getattribute__" in c.methods:
            return None
        for m in c.all_methods:
            selfn = m.params()[0] if m.params() else "self"
            for x in walk_no_nested(m.node):
                if isinstance(x, ast.Attribute) and isinstance(x.ctx, ast.Store) and x.attr == name and isinstance(x.value, ast.Name) and x.value.id == selfn:
                    return True
                if isinstance(x, ast.Call) and call_name(x) == "setattr":
                    return None
    for c in ci.mro():
        if len(c.bases) != len([b for b in c.base_names if b not in ("object", "ABC", "abc.ABC")]):
            return None       # some base class is not part of the repository (or not resolved)
    return False if not hasattr(object, name) else True


def rule_resolve(repo: Repo) -> List[Ob]:
    """v = Cls(...); ... v.m(...) : Cls is a class of the repository, v has no other definition -- then m must be defined somewhere in
    Cls's hierarchy.  (What a type checker would say; the pinned tree has no type checker in its tool chain, and code that only runs
    under a non-default option is not reached by the tests.)"""
    obs = []
    n = 0
    for f in repo.functions:
        if f.relpath.startswith(SCOPE_EXCLUDE):
            continue
        ctor_locals = {}
        for st in walk_no_nested(f.node):
            if isinstance(st, ast.Assign) and len(st.targets) == 1 and isinstance(st.targets[0], ast.Name) and isinstance(st.value, ast.Call):
                d = dotted(st.value.func)
                ci = repo.resolve_class(f.module, d) if d else None
                if ci is not None:
                    ctor_locals.setdefault(st.targets[0].id, []).append(ci)
        if not ctor_locals:
            continue
        stores = {}
        for x in walk_no_nested(f.node):
            if isinstance(x, ast.Name) and isinstance(x.ctx, (ast.Store, ast.Del)):
                stores[x.id] = stores.get(x.id, 0) + 1
        for x in walk_no_nested(f.node):
            if isinstance(x, ast.Call) and isinstance(x.func, ast.Attribute) and isinstance(x.func.value, ast.Name):
                v = x.func.value.id
                if v in ctor_locals and len(ctor_locals[v]) == 1 and stores.get(v, 0) == 1 and v not in f.params():
                    ci = ctor_locals[v][0]
                    has = _class_offers(ci, x.func.attr)
                    n += 1
                    key = f"{f.relpath}::{f.qualname}::{ci.name}.{x.func.attr}"
                    if has is False:
                        obs.append(Ob("E-resolve", key, f.relpath, x.lineno, f.qualname, False,
                                      f"`{src(x)[:60]}`: `{v}` is a {ci.name} and no class of its hierarchy defines `{x.func.attr}`: AttributeError as soon as this statement runs"))
                    elif has is True:
                        obs.append(Ob("E-resolve", key, f.relpath, x.lineno, f.qualname, True, f"{ci.name}.{x.func.attr} is defined", trivial=True))
        # parameters annotated with a class of the repository: an attribute that neither the class, nor a base, nor any subclass offers
    for f in repo.functions:
        if f.relpath.startswith(SCOPE_EXCLUDE):
            continue
        ann = {}
        for a in f.node.args.args + f.node.args.kwonlyargs:
            if a.annotation is None:
                continue
            d = a.annotation.value if isinstance(a.annotation, ast.Constant) and isinstance(a.annotation.value, str) else dotted(a.annotation)
            if isinstance(d, str) and d:
                ci = repo.resolve_class(f.module, d.strip("'\"")) or repo.find_cls(d.strip("'\"").split(".")[-1])
                if ci is not None:
                    ann[a.arg] = ci
        if not ann:
            continue
        stored = {x.id for x in walk_no_nested(f.node) if isinstance(x, ast.Name) and isinstance(x.ctx, (ast.Store, ast.Del))}
        for x in walk_no_nested(f.node):
            if isinstance(x, ast.Attribute) and isinstance(x.ctx, ast.Load) and isinstance(x.value, ast.Name) and x.value.id in ann and x.value.id not in stored:
                ci = ann[x.value.id]
                n += 1
                has = _class_offers(ci, x.attr)
                if has is False and not any(_class_offers(c, x.attr) is not False for c in repo.subclasses(ci)):
                    obs.append(Ob("E-resolve", f"{f.relpath}::{f.qualname}::{ci.name}.{x.attr}", f.relpath, x.lineno, f.qualname, False,
                                  f"`{src(x)[:50]}`: the parameter is annotated `{ci.name}` and neither that class, its bases nor any subclass defines `{x.attr}`"))
                elif has is True:
                    obs.append(Ob("E-resolve", f"{f.relpath}::{f.qualname}::{ci.name}.{x.attr}", f.relpath, x.lineno, f.qualname, True, f"{ci.name}.{x.attr} is defined", trivial=True))
    if n < 10:
        raise AnalysisError(f"only {n} method calls on freshly constructed repository objects found")
    return obs


def rule_arity(repo: Repo) -> List[Ob]:
    """calls that resolve to exactly one function of the repository (a method of the own class that no subclass overrides, a module
    function, a constructor) pass arguments its signature accepts.  Code behind non-default options is not reached by the tests; a
    call and a signature that have drifted apart end in a TypeError there."""
    obs = []
    n = 0
    for f in repo.functions:
        if f.relpath.startswith(SCOPE_EXCLUDE):
            continue
        for c in walk_no_nested(f.node):
            if not isinstance(c, ast.Call):
                continue
            h, meth = None, False
            if isinstance(c.func, ast.Attribute) and isinstance(c.func.value, ast.Name) and c.func.value.id in ("self", "cls") and f.cls is not None:
                cands = [m for k in f.cls.mro() for m in k.all_methods if m.name == c.func.attr]
                subs = [m for k in repo.subclasses(f.cls) for m in k.all_methods if m.name == c.func.attr]
                if len(cands) == 1 and not subs:
                    h, meth = cands[0], True
            elif isinstance(c.func, ast.Name):
                r = repo.resolve_name(f.module, c.func.id)
                if r and r[0] == "func":
                    h = r[1]
                elif r and r[0] == "class" and r[1] is not None:
                    init = r[1].find_method("__init__")
                    if init is not None and r[1].find_method("__new__") is None:
                        h, meth = init, True
            if h is None or any(isinstance(a, ast.Starred) for a in c.args) or any(k.arg is None for k in c.keywords):
                continue
            decos = [src(d) for d in h.node.decorator_list]
            if any(("register" in d) or ("singledispatch" in d) or d == "property" or d.endswith(".setter") for d in decos):
                continue
            a = h.node.args
            params = [x.arg for x in a.posonlyargs + a.args]
            if h.cls is not None and "staticmethod" not in decos and meth:
                params = params[1:]
            nd = len(a.defaults)
            required = params[:len(params) - nd] if nd else params
            kwonly = [k.arg for k in a.kwonlyargs]
            kwreq = [k.arg for k, d in zip(a.kwonlyargs, a.kw_defaults) if d is None]
            npos, kws = len(c.args), [k.arg for k in c.keywords]
            prob = None
            if npos > len(params) and a.vararg is None:
                prob = f"{npos} positional arguments for {len(params)} parameters"
            for k in kws:
                if k not in params and k not in kwonly and a.kwarg is None:
                    prob = f"unknown keyword `{k}`"
                if k in params[:npos]:
                    prob = f"`{k}` is given twice"
            missing = [p_ for p_ in required[npos:] if p_ not in kws] + [k for k in kwreq if k not in kws]
            if missing:
                prob = f"missing {missing}"
            n += 1
            key = f"{f.relpath}::{f.qualname}::call::{h.qualname}"
            if prob:
                obs.append(Ob("E-arity", key, f.relpath, c.lineno, f.qualname, False, f"`{src(c)[:60]}` does not fit `{h.qualname}({', '.join(params)})`: {prob} -- a TypeError as soon as the statement runs"))
            else:
                obs.append(Ob("E-arity", key, f.relpath, c.lineno, f.qualname, True, "arguments fit the signature", trivial=True))
    if n < 100:
        raise AnalysisError(f"only {n} resolved calls")
    return obs


def mut_arity(repo: Repo) -> List[Mutant]:
    out = []
    ov = text_mutant(repo, "recurrences/solver/cyclic_solver.py", "self._add_beginning_values(solution, self.monom_to_index[monomial])", "self._add_beginning_values(solution)")
    if ov:
        out.append(Mutant("argument-dropped-at-a-call", ov, "fire", "call::CyclicSolver._add_beginning_values", control=True))
    return out


def rule_get_or_create(repo: Repo) -> List[Ob]:
    """a method that stores a FRESH name (get_unique_var / get_unique_name) in a table of the object under a key it was given and hands
    that name out is a get-or-create: the store is guarded by `key not in table` (or is a setdefault).  Without the guard every call
    creates a new name for the same key; the names handed out before lose the entry that defines them."""
    obs = []
    n = 0
    for f in repo.functions:
        if f.relpath.startswith(SCOPE_EXCLUDE) or f.cls is None or not f.params():
            continue
        selfn = f.params()[0]
        from ..cfg import cfg_of as _cfg
        from .validate import controlling_tests as _ct
        from ..shape import conjuncts as _cj
        stores = [st for st in walk_no_nested(f.node) if isinstance(st, ast.Assign) and len(st.targets) == 1 and isinstance(st.targets[0], ast.Subscript)
                  and isinstance(st.targets[0].value, ast.Attribute) and isinstance(st.targets[0].value.value, ast.Name) and st.targets[0].value.value.id == selfn
                  and isinstance(st.targets[0].slice, ast.Name) and st.targets[0].slice.id in f.params()]
        if not stores:
            continue
        defs = None
        for st in stores:
            from ..dataflow import Defs as _Defs
            defs = defs or _Defs(f.node, selfn)
            fresh = any(r.startswith("call:") and r[5:].split(".")[-1] in ("get_unique_var", "get_unique_name") for r in defs.roots(st.value))
            if not fresh:
                continue
            table, keyn = src(st.targets[0].value), st.targets[0].slice.id
            # handed out: some return mentions the table entry or the stored value
            rets = [r.value for r in walk_no_nested(f.node) if isinstance(r, ast.Return) and r.value is not None]
            handed = any(src(st.targets[0]) in src(r) or (isinstance(st.value, ast.Name) and any(isinstance(x, ast.Name) and x.id == st.value.id for x in ast.walk(r))) for r in rets)
            if not handed:
                continue
            n += 1
            c = _cfg(f.node)
            node = c.node_of(st)
            facts = []
            if node is not None:
                for t, reach in _ct(c, node):
                    if isinstance(t.ast, ast.expr) and isinstance(reach, bool):
                        facts += _cj(t.ast, reach)
            guarded = any(isinstance(fa, ast.Compare) and len(fa.ops) == 1 and src(fa.left) == keyn and src(fa.comparators[0]) == table and
                          ((isinstance(fa.ops[0], ast.NotIn) and tr) or (isinstance(fa.ops[0], ast.In) and not tr)) for fa, tr in facts)
            in_handler = any(isinstance(a, ast.ExceptHandler) for a in ancestors(st))
            key = f"{f.relpath}::{f.qualname}::get-or-create::{table}"
            if guarded or in_handler:
                obs.append(Ob("G3-get-or-create", key, f.relpath, st.lineno, f.qualname, True, f"a fresh name is created for `{keyn}` only if `{table}` has none yet"))
            else:
                obs.append(Ob("G3-get-or-create", key, f.relpath, st.lineno, f.qualname, False,
                              f"`{src(st)[:70]}` stores a fresh name for `{keyn}` on every call: a second request for the same key replaces the name handed out before, whose defining "
                              "equation / entry is lost"))
    obs.append(Ob("G3-get-or-create", "repo::get-or-create-census", "utils/identifiers.py", 1, "", True, f"{n} get-or-create method(s) examined", trivial=True))
    return obs


def mut_get_or_create(repo: Repo) -> List[Mutant]:
    def tr(tree):
        fn = find_def(tree, "LatticeIdeal.get_inverse_symbol")
        if fn is None:
            return False
        for i, st in enumerate(fn.body):
            if isinstance(st, ast.If) and "not in" in src(st.test) and "inverse_symbols" in src(st.test):
                fn.body[i:i + 1] = st.body
                return True
        return False
    ov = mutate_module(repo, "invariants/lattice_ideal.py", tr)
    return [Mutant("fresh-inverse-symbol-on-every-call", ov, "fire", "get-or-create", control=True)] if ov else []


def mut_resolve(repo: Repo) -> List[Mutant]:
    ov = text_mutant(repo, "program/transformer/conditions_to_arithm.py", "support = assign.distribution.get_support()", "support = dist_assign.get_assign_support()")
    return [Mutant("method-that-does-not-exist", ov, "fire", "DistAssignment.get_assign_support", control=True)] if ov else []


RULES = {
    "GETORCREATE": Rule("G3-get-or-create", rule_get_or_create, 2, "a fresh name stored under a given key and handed out is created only if the table has no entry for the key", mut_get_or_create, soft=True),
    "ARITY": Rule("E-arity", rule_arity, 100, "calls that resolve to one function of the repository pass arguments its signature accepts", mut_arity, soft=True),
    "RESOLVE": Rule("E-resolve", rule_resolve, 10, "a method called on a freshly constructed object of a repository class is defined in that class's hierarchy", mut_resolve, soft=True),
    "EXCEPT": Rule("E-except", rule_except_discipline, 3, "every exception handler re-raises on all its paths, or is a reviewed complete fallback", mut_except_discipline),
    "QUANT": Rule("E-quantifier", rule_quantifiers, 8, "reviewed safety-relevant any()/all() guards keep their quantifier (negations folded: De Morgan spellings are equal)", mut_quantifiers),
    "FALLTHROUGH": Rule("E-fallthrough", rule_fallthrough, 1, "no function returns a value on some paths and ends without one on others (an unhandled case is an error, not None)", mut_fallthrough),
}
