"""Family G: provenance / who-may-write rules for process-global state
(settings module, module/class level state, mutable defaults, memoisation, randomness)."""
import ast
import re
from typing import Dict, List, Optional, Set, Tuple

from ..model import Repo, ClassInfo, FunctionInfo, Module, AnalysisError, walk_no_nested, src, is_self_attr, call_name, const_str, \
    dotted, parent, enclosing_stmt, ancestors
from ..core import inconclusive, Ob, Rule, Mutant, mutate_module, find_def, replace_node
from ..dataflow import Defs
from ..cfg import cfg_of

SETTINGS = "settings.py"
SETTER = ("cli/argument_parser.py", "_set_settings")


def settings_fields(repo: Repo) -> Dict[str, int]:
    m = repo.module(SETTINGS)
    out = {}
    for st in m.tree.body:
        if isinstance(st, ast.AnnAssign) and isinstance(st.target, ast.Name):
            out[st.target.id] = st.lineno
        elif isinstance(st, ast.Assign):
            for t in st.targets:
                if isinstance(t, ast.Name):
                    out[t.id] = st.lineno
    if not out:
        raise AnalysisError("settings.py defines no flags")
    return out


def _settings_aliases(repo: Repo, m: Module) -> Set[str]:
    """local names that denote the settings module in module m"""
    out = set()
    for local, (base, item) in m.imports.items():
        if item is None and base == "settings":
            out.add(local)
        if item == "settings" and base == "":
            out.add(local)
    return out


def _fn_of(repo: Repo, m: Module, node) -> Tuple[str, Optional[FunctionInfo]]:
    f = repo.enclosing_function(m, node)
    return (f.qualname if f else "<module>"), f


# ------------------------------------------------------------------ G1: writers / import-time readers of settings
def rule_settings_writers(repo: Repo) -> List[Ob]:
    obs = []
    fields = settings_fields(repo)
    setter = repo.function(*SETTER)
    n_access = 0
    for m in repo.modules.values():
        aliases = _settings_aliases(repo, m)
        # `from settings import flag` freezes the value at import time
        for local, (base, item) in m.imports.items():
            if base == "settings" and item is not None:
                obs.append(Ob("G1-settings", f"{m.relpath}::from-import::{item}", m.relpath, 1, "<module>", False,
                              f"`from settings import {item}` copies the flag at import time; later option changes are not seen"))
        if not aliases:
            continue
        for n in ast.walk(m.tree):
            # setattr(settings, ...), vars(settings), settings.__dict__
            if isinstance(n, ast.Call) and isinstance(n.func, ast.Name) and n.func.id in ("setattr", "delattr", "vars") and n.args \
                    and isinstance(n.args[0], ast.Name) and n.args[0].id in aliases:
                qn, f = _fn_of(repo, m, n)
                if f is not None and f.node is setter.node and n.func.id == "setattr":
                    obs.append(Ob("G1-settings", f"{m.relpath}::{qn}::setattr", m.relpath, n.lineno, qn, True,
                                  "the CLI setter copies options into settings (table-driven form; the census rule checks which)", trivial=True))
                    continue
                obs.append(Ob("G1-settings", f"{m.relpath}::{qn}::{n.func.id}", m.relpath, n.lineno, qn, False,
                              f"`{src(n)[:60]}` manipulates the settings module dynamically"))
            if not (isinstance(n, ast.Attribute) and isinstance(n.value, ast.Name) and n.value.id in aliases):
                continue
            n_access += 1
            qn, f = _fn_of(repo, m, n)
            flag = n.attr
            if flag not in fields and not flag.startswith("__"):
                obs.append(Ob("G1-settings", f"{m.relpath}::{qn}::unknown::{flag}", m.relpath, n.lineno, qn, False,
                              f"settings.{flag} is not defined in settings.py"))
                continue
            if isinstance(n.ctx, (ast.Store, ast.Del)):
                key = f"{m.relpath}::{qn}::write::{flag}"
                if f is not None and f.node is setter.node:
                    obs.append(Ob("G1-settings", key, m.relpath, n.lineno, qn, True, f"settings.{flag} written by the CLI option setter"))
                    continue
                ok, why = _is_scoped_override(m, f, n, flag, aliases)
                obs.append(Ob("G1-settings", key, m.relpath, n.lineno, qn, ok,
                              (f"settings.{flag} overridden temporarily and restored in `finally` ({why})") if ok else
                              f"settings.{flag} is written outside {SETTER[1]} and never restored: every later analysis in this process runs with the changed option ({why})"))
            else:
                # import-time reads: module level, class body, default arguments, decorators
                where = _import_time_context(n)
                if where and not (m.relpath == SETTER[0]):
                    obs.append(Ob("G1-settings", f"{m.relpath}::{qn}::import-time-read::{flag}", m.relpath, n.lineno, qn, False,
                                  f"settings.{flag} is read at import time ({where}): the option set by the CLI later has no effect"))
                else:
                    obs.append(Ob("G1-settings", f"{m.relpath}::{qn}::read::{flag}", m.relpath, n.lineno, qn, True,
                                  f"settings.{flag} read at call time", trivial=True))
    if n_access < 10:
        raise AnalysisError(f"G1: only {n_access} accesses to settings found")
    return obs


def _import_time_context(n) -> Optional[str]:
    prev = n
    for a in ancestors(n):
        if isinstance(a, (ast.FunctionDef, ast.AsyncFunctionDef, ast.Lambda)):
            if isinstance(a, ast.Lambda):
                return None
            args = a.args
            if any(prev is d or _contains(d, n) for d in args.defaults + [k for k in args.kw_defaults if k is not None]):
                return f"default argument of {a.name}"
            if any(_contains(d, n) for d in a.decorator_list):
                return f"decorator of {a.name}"
            return None
        if isinstance(a, ast.ClassDef):
            return f"class body of {a.name}"
        prev = a
    return "module level"


def _contains(root, n) -> bool:
    return any(x is n for x in ast.walk(root))


def _is_scoped_override(m: Module, f: Optional[FunctionInfo], store, flag: str, aliases) -> Tuple[bool, str]:
    """settings.flag = v  is acceptable outside the setter only as a scoped override:
    the old value is saved before, and a `finally` block of a try that covers the rest of the
    override's lifetime writes the saved value back."""
    if f is None:
        return False, "module-level write"
    defs = Defs(f.node, None)

    def is_flag(node):
        return isinstance(node, ast.Attribute) and node.attr == flag and isinstance(node.value, ast.Name) and node.value.id in aliases

    def restores(stmt_list) -> bool:
        for st in stmt_list:
            for n in ast.walk(st):
                if isinstance(n, ast.Assign):
                    tv = _pairs(n)
                    # a, b = saved   with   saved = (x, y): pair the targets with the saved components position by position
                    if len(n.targets) == 1 and isinstance(n.targets[0], (ast.Tuple, ast.List)) and isinstance(n.value, ast.Name):
                        saved = [d for d in defs.defs.get(n.value.id, []) if isinstance(d, (ast.Tuple, ast.List))]
                        if len(saved) == 1 and len(saved[0].elts) == len(n.targets[0].elts):
                            tv = list(zip(n.targets[0].elts, saved[0].elts))
                            for t, v in tv:
                                if is_flag(t) and not is_flag(v) and isinstance(v, ast.Attribute) and isinstance(v.value, ast.Name) and v.value.id in aliases:
                                    return False     # restored from the saved value of a *different* flag
                    for t, v in tv:
                        if is_flag(t) and v is not None:
                            r = defs.roots(v)
                            # value derives from an earlier read of the same flag (saved copy)
                            if ("attr:" + flag) in r and not isinstance(v, ast.Constant):
                                return True
        return False

    st = enclosing_stmt(store)
    # is this store itself the restoring write (inside a finally)?
    for a in ancestors(store):
        if isinstance(a, ast.Try) and any(_contains(x, store) for x in a.finalbody):
            if restores(a.finalbody):
                return True, "restoring write"
    # find a Try whose body contains the store or which directly follows the store in the same block
    for a in ancestors(store):
        if isinstance(a, ast.Try) and a.finalbody and any(_contains(x, store) for x in a.body):
            return (True, "try/finally around the override") if restores(a.finalbody) else (False, "finally does not restore the saved value")
    blk = _block_of(st)
    if blk is not None:
        i = next((k for k, x in enumerate(blk) if x is st), None)
        if i is not None:
            for later in blk[i + 1:]:
                if isinstance(later, ast.Try) and later.finalbody:
                    return (True, "try/finally after the override") if restores(later.finalbody) else (False, "finally does not restore the saved value")
                if not isinstance(later, ast.Assign):
                    break
    return False, "no try/finally restores it"


def _pairs(assign: ast.Assign):
    out = []
    for t in assign.targets:
        if isinstance(t, (ast.Tuple, ast.List)) and isinstance(assign.value, (ast.Tuple, ast.List)) and len(t.elts) == len(assign.value.elts):
            out += list(zip(t.elts, assign.value.elts))
        elif isinstance(t, (ast.Tuple, ast.List)):
            out += [(e, assign.value) for e in t.elts]
        else:
            out.append((t, assign.value))
    return out


def _block_of(stmt):
    p = parent(stmt)
    if p is None:
        return None
    for field in ("body", "orelse", "finalbody"):
        b = getattr(p, field, None)
        if isinstance(b, list) and any(x is stmt for x in b):
            return b
    if isinstance(p, ast.ExceptHandler):
        return p.body
    return None


def mut_settings_writers(repo: Repo) -> List[Mutant]:
    out = []

    def add_write(tree):
        fn = find_def(tree, "TypeInferer.execute")
        if fn is None:
            return False
        fn.body.insert(0, ast.parse("settings.disable_type_inference = True").body[0])
        return True
    ov = mutate_module(repo, "program/transformer/type_inferer.py", add_write)
    if ov:
        out.append(Mutant("pass-writes-settings", ov, "fire", "TypeInferer.execute::write::disable_type_inference", control=True))

    def default_arg(tree):
        fn = find_def(tree, "CyclicSolver.__init__")
        if fn is None:
            return False
        fn.args.defaults[0] = ast.parse("settings.numeric_roots").body[0].value
        return True
    ov = mutate_module(repo, "recurrences/solver/cyclic_solver.py", default_arg)
    if ov:
        out.append(Mutant("default-arg-freezes-option", ov, "fire", "import-time-read::numeric_roots"))

    def from_import(tree):
        tree.body.insert(0, ast.parse("from settings import cond2arithm").body[0])
        return True
    ov = mutate_module(repo, "program/transformer/__init__.py", from_import)
    if ov:
        out.append(Mutant("from-import-flag", ov, "fire", "from-import::cond2arithm"))

    def scoped(tree):
        fn = find_def(tree, "TypeInferer.execute")
        if fn is None:
            return False
        new = ast.parse(
            "def f():\n"
            "    old = settings.type_fp_iterations\n"
            "    settings.type_fp_iterations = 5\n"
            "    try:\n"
            "        pass\n"
            "    finally:\n"
            "        settings.type_fp_iterations = old\n").body[0].body
        fn.body = new + fn.body
        return True
    ov = mutate_module(repo, "program/transformer/type_inferer.py", scoped)
    if ov:
        out.append(Mutant("benign-scoped-override", ov, "silent"))
    return out


# ------------------------------------------------------------------ census: settings <-> CLI <-> setter
def rule_settings_census(repo: Repo) -> List[Ob]:
    obs = []
    fields = settings_fields(repo)
    setter = repo.function(*SETTER)
    p = setter.params()[0]
    assigned: Dict[str, Tuple[str, int]] = {}
    for n in walk_no_nested(setter.node):
        if isinstance(n, ast.Assign):
            for t, v in _pairs(n):
                if isinstance(t, ast.Attribute) and isinstance(t.value, ast.Name) and t.value.id == "settings":
                    assigned[t.attr] = (src(v), n.lineno)
    # table-driven form:  for opt in TABLE: setattr(settings, opt, getattr(args, opt))
    table_unreadable = False
    for loop in [n for n in walk_no_nested(setter.node) if isinstance(n, ast.For) and isinstance(n.target, ast.Name)]:
        v = loop.target.id
        sets = [c for c in ast.walk(loop) if isinstance(c, ast.Call) and isinstance(c.func, ast.Name) and c.func.id == "setattr" and len(c.args) == 3
                and src(c.args[0]) == "settings" and src(c.args[1]) == v]
        if not sets:
            continue
        val = sets[0].args[2]
        same = isinstance(val, ast.Call) and isinstance(val.func, ast.Name) and val.func.id == "getattr" and len(val.args) >= 2 and src(val.args[0]) == p and src(val.args[1]) == v
        names = None
        it = loop.iter
        if isinstance(it, (ast.Tuple, ast.List)):
            names = [const_str(e) for e in it.elts]
        elif isinstance(it, ast.Name):
            for st in setter.module.tree.body:
                if isinstance(st, ast.Assign) and isinstance(st.targets[0], ast.Name) and st.targets[0].id == it.id and isinstance(st.value, (ast.Tuple, ast.List)):
                    names = [const_str(e) for e in st.value.elts]
        if names is None or any(nm is None for nm in names):
            table_unreadable = True
            continue
        for nm in names:
            assigned[nm] = (f"{p}.{nm}" if same else f"{src(val)} [for {v} = {nm!r}]", sets[0].lineno)
    ap = repo.cls("ArgumentParser", "cli/argument_parser.py")
    init = ap.methods.get("__init__")
    if init is None:
        raise AnalysisError("ArgumentParser.__init__ not found")
    options: Dict[str, Tuple[Optional[str], int, str]] = {}
    for c in walk_no_nested(init.node):
        if isinstance(c, ast.Call) and call_name(c) == "add_argument":
            names = [a.value for a in c.args if isinstance(a, ast.Constant) and isinstance(a.value, str)]
            kw = {k.arg: k.value for k in c.keywords}
            dest = kw["dest"].value if "dest" in kw and isinstance(kw["dest"], ast.Constant) else None
            if dest is None:
                longs = [x for x in names if x.startswith("--")]
                dest = (longs[0][2:] if longs else names[0].lstrip("-")).replace("-", "_")
            default = src(kw["default"]) if "default" in kw else None
            action = kw["action"].value if "action" in kw and isinstance(kw["action"], ast.Constant) else ""
            options[dest] = (default, c.lineno, action)
    # parse_args must call the setter on the parsed namespace
    pa = ap.methods.get("parse_args")
    calls_setter = pa is not None and any(isinstance(c, ast.Call) and isinstance(c.func, ast.Name) and c.func.id == setter.name
                                          for c in walk_no_nested(pa.node))
    obs.append(Ob("G1-census", "cli/argument_parser.py::ArgumentParser.parse_args::calls-setter", ap.relpath, pa.node.lineno if pa else 0,
                  "ArgumentParser.parse_args", calls_setter, "parse_args hands the parsed options to the settings setter" if calls_setter
                  else "parse_args no longer calls the settings setter: options are ignored"))
    for f, line in sorted(fields.items()):
        a = assigned.get(f)
        ok = a is not None and a[0] == f"{p}.{f}"
        if a is None and table_unreadable:
            obs.append(inconclusive("G1-census", f"cli/argument_parser.py::{setter.name}::{f}", setter.relpath, setter.node.lineno, setter.qualname, "the setter copies options through a table that could not be read"))
            continue
        obs.append(Ob("G1-census", f"cli/argument_parser.py::{setter.name}::{f}", setter.relpath, a[1] if a else setter.node.lineno, setter.qualname, ok,
                      f"settings.{f} = {a[0]}" if ok else (f"settings.{f} is set from `{a[0]}` (expected {p}.{f})" if a else f"settings.{f} is never set from the CLI options")))
        o = options.get(f)
        ok2 = o is not None and o[0] == f"settings.{f}"
        obs.append(Ob("G1-census", f"cli/argument_parser.py::option::{f}", ap.relpath, o[1] if o else init.node.lineno, "ArgumentParser.__init__", ok2,
                      f"option --{f} defaults to settings.{f}" if ok2 else (f"option --{f} has default `{o[0]}` (expected settings.{f})" if o else f"no CLI option for settings.{f}")))
    for f, (v, line) in sorted(assigned.items()):
        if f not in fields:
            obs.append(Ob("G1-census", f"cli/argument_parser.py::{setter.name}::extra::{f}", setter.relpath, line, setter.qualname, False,
                          f"setter writes settings.{f}, which settings.py does not define"))
    return obs


def mut_settings_census(repo: Repo) -> List[Mutant]:
    out = []

    def cross(tree):
        fn = find_def(tree, SETTER[1])
        for n in ast.walk(fn):
            if isinstance(n, ast.Assign) and isinstance(n.targets[0], ast.Attribute) and n.targets[0].attr == "numeric_croots":
                n.value.attr = "numeric_roots"
                return True
        return False
    ov = mutate_module(repo, SETTER[0], cross)
    if ov:
        out.append(Mutant("setter-crosses-flags", ov, "fire", "_set_settings::numeric_croots", control=True))

    def drop(tree):
        fn = find_def(tree, SETTER[1])
        for i, n in enumerate(fn.body):
            if isinstance(n, ast.Assign) and isinstance(n.targets[0], ast.Attribute) and n.targets[0].attr == "cond2arithm":
                del fn.body[i]
                return True
        return False
    ov = mutate_module(repo, SETTER[0], drop)
    if ov:
        out.append(Mutant("setter-drops-flag", ov, "fire", "_set_settings::cond2arithm"))

    def nosetter(tree):
        fn = find_def(tree, "ArgumentParser.parse_args")
        for i, n in enumerate(fn.body):
            if isinstance(n, ast.Expr) and isinstance(n.value, ast.Call) and isinstance(n.value.func, ast.Name) and n.value.func.id == SETTER[1]:
                del fn.body[i]
                return True
        return False
    ov = mutate_module(repo, SETTER[0], nosetter)
    if ov:
        out.append(Mutant("parse-args-skips-setter", ov, "fire", "calls-setter"))
    return out


# ------------------------------------------------------------------ G3: inventory of process-global mutable state
# key -> reason.  Anything that is found and not listed is a violation.
REVIEWED_STATE = {
    "global::utils/identifiers.py::_count_unique_var": "counter behind get_unique_var: affects only the *names* of auxiliary symbols (allowed by C20)",
    "classattr::FunctionalAssignment.exact_func_moments": "rewritten from settings at the end of every normalize_program",
    "default::program/assignment/assignment.py::Assignment.__init__::condition": "shared TrueCond() default: TrueCond has no mutable field except the guard mark, and no guard-mark store can reach it (G2 provenance rule)",
    "default::utils/expressions.py::get_monoms::zero": "immutable CAS number",
    "default::utils/expressions.py::get_monoms::one": "immutable CAS number",
    "classattr-call::TreeTransformer.transform.register": "idempotent registration of the list handler on the subclass's dispatcher",
}
RANDOM_OK = {
    "sample": "simulation only", "evaluate_right_side": "simulation only", "get_unique_name": "bayesnet variable names only",
    "random_string": "unused helper (names only)",
}
MUTATING = {"append", "add", "update", "extend", "insert", "pop", "remove", "clear", "setdefault", "popitem", "discard", "__setitem__"}


def rule_state_inventory(repo: Repo) -> List[Ob]:
    obs = []
    found: Dict[str, Tuple[str, int, str, str]] = {}
    for m in repo.modules.values():
        # module-level containers
        modvars: Dict[str, ast.AST] = {}
        for st in m.tree.body:
            if isinstance(st, ast.Assign):
                for t in st.targets:
                    if isinstance(t, ast.Name):
                        modvars[t.id] = st.value
            elif isinstance(st, ast.AnnAssign) and isinstance(st.target, ast.Name) and st.value is not None:
                modvars[st.target.id] = st.value
        for f in [x for x in repo.functions if x.module is m]:
            localnames = {x.id for x in walk_no_nested(f.node) if isinstance(x, ast.Name) and isinstance(x.ctx, ast.Store)} | set(f.params())
            localnames -= {g for x in walk_no_nested(f.node) if isinstance(x, ast.Global) for g in x.names}
            for n in walk_no_nested(f.node):
                if isinstance(n, ast.Global):
                    for name in n.names:
                        found[f"global::{m.relpath}::{name}"] = (m.relpath, n.lineno, f.qualname, f"`global {name}` rebinding module state")
                # mutation of a module-level container from inside a function
                if isinstance(n, ast.Call) and isinstance(n.func, ast.Attribute) and n.func.attr in MUTATING \
                        and isinstance(n.func.value, ast.Name) and n.func.value.id in modvars and n.func.value.id not in localnames:
                    found[f"modstate::{m.relpath}::{n.func.value.id}"] = (m.relpath, n.lineno, f.qualname, f"module-level `{n.func.value.id}` mutated by `{src(n)[:50]}`")
                if isinstance(n, (ast.Assign, ast.AugAssign)):
                    targets = n.targets if isinstance(n, ast.Assign) else [n.target]
                    for t in targets:
                        for tt in (t.elts if isinstance(t, (ast.Tuple, ast.List)) else [t]):
                            if isinstance(tt, ast.Subscript) and isinstance(tt.value, ast.Name) and tt.value.id in modvars and tt.value.id not in localnames:
                                found[f"modstate::{m.relpath}::{tt.value.id}"] = (m.relpath, n.lineno, f.qualname, f"module-level `{tt.value.id}` mutated by item assignment")
                            # item stores into a class-level container through cls / the class name:  cls._cache[key] = value
                            if isinstance(tt, ast.Subscript) and isinstance(tt.value, ast.Attribute) and isinstance(tt.value.value, ast.Name) and f.cls is not None \
                                    and (tt.value.value.id == "cls" or tt.value.value.id == f.cls.name) and tt.value.attr in f.cls.class_assigns:
                                found[f"classmutable::{f.cls.name}.{tt.value.attr}"] = (m.relpath, n.lineno, f.qualname,
                                                                                         f"class-level container {f.cls.name}.{tt.value.attr} is written through the class (`{src(n)[:50]}`): one table for the whole process")
                            # class attribute stores:  Cls.attr = ... / cls.attr = ...
                            if isinstance(tt, ast.Attribute) and isinstance(tt.value, ast.Name):
                                base = tt.value.id
                                target_cls = None
                                if base == "cls" and f.cls is not None and "classmethod" in f.decorators():
                                    target_cls = f.cls.name
                                else:
                                    r = repo.resolve_name(m, base)
                                    if r and r[0] == "class" and base not in localnames:
                                        target_cls = r[1].name
                                    elif r and r[0] == "module" and r[1] is not None and base not in localnames and r[1].relpath != SETTINGS:
                                        found[f"modattr::{r[1].relpath}::{tt.attr}"] = (m.relpath, n.lineno, f.qualname, f"attribute `{tt.attr}` of module {r[1].name} rebound")
                                if target_cls:
                                    found[f"classattr::{target_cls}.{tt.attr}"] = (m.relpath, n.lineno, f.qualname, f"class attribute {target_cls}.{tt.attr} rebound at run time")
                            if isinstance(tt, ast.Attribute) and isinstance(tt.value, ast.Attribute) and tt.value.attr == "__class__":
                                found[f"classattr::{f.cls.name if f.cls else '?'}.{tt.attr}"] = (m.relpath, n.lineno, f.qualname, "class attribute rebound through __class__")
            # mutable default arguments
            a = f.node.args
            pos = a.posonlyargs + a.args
            pairs = list(zip(pos[len(pos) - len(a.defaults):], a.defaults)) + [(k, d) for k, d in zip(a.kwonlyargs, a.kw_defaults) if d is not None]
            for arg, d in pairs:
                if isinstance(d, (ast.List, ast.Dict, ast.Set, ast.ListComp, ast.DictComp, ast.SetComp, ast.Call)):
                    found[f"default::{m.relpath}::{f.qualname}::{arg.arg}"] = (m.relpath, d.lineno, f.qualname, f"default `{arg.arg}={src(d)}` is evaluated once and shared by all calls")
        # module-level statements that mutate module state of *other* modules are not used by polar
    # containers captured by a closure that is created once per process: a decorator applied at class / module level
    for m in repo.modules.values():
        if m.tree is None or not m.relpath.endswith(".py"):
            continue
        decorators_used = set()
        for n in ast.walk(m.tree):
            if isinstance(n, (ast.FunctionDef, ast.AsyncFunctionDef, ast.ClassDef)):
                for d in n.decorator_list:
                    dn = d.func if isinstance(d, ast.Call) else d
                    if isinstance(dn, ast.Name):
                        decorators_used.add(dn.id)
                    elif isinstance(dn, ast.Attribute):
                        decorators_used.add(dn.attr)
        for F in [n for n in ast.walk(m.tree) if isinstance(n, (ast.FunctionDef, ast.AsyncFunctionDef))]:
            bound = {}
            for st in F.body:
                if isinstance(st, ast.Assign) and len(st.targets) == 1 and isinstance(st.targets[0], ast.Name):
                    v = st.value
                    if isinstance(v, (ast.List, ast.Dict, ast.Set)) or (isinstance(v, ast.Call) and call_name(v) in ("list", "dict", "set", "defaultdict", "deque", "OrderedDict")):
                        bound[st.targets[0].id] = st
            if not bound:
                continue
            for W in [n for n in ast.walk(F) if isinstance(n, (ast.FunctionDef, ast.AsyncFunctionDef, ast.Lambda)) and n is not F]:
                wlocals = {x.id for x in ast.walk(W) if isinstance(x, ast.Name) and isinstance(x.ctx, ast.Store)}
                for n in ast.walk(W):
                    name = None
                    if isinstance(n, ast.Call) and isinstance(n.func, ast.Attribute) and n.func.attr in MUTATING and isinstance(n.func.value, ast.Name):
                        name = n.func.value.id
                    if isinstance(n, ast.Subscript) and isinstance(n.ctx, (ast.Store, ast.Del)) and isinstance(n.value, ast.Name):
                        name = n.value.id
                    if name in bound and name not in wlocals:
                        once = F.name in decorators_used
                        if once:
                            found[f"closure::{m.relpath}::{F.name}::{name}"] = (m.relpath, n.lineno, F.name,
                                                                                 f"`{name}` is created once per decorated function by the decorator `{F.name}` and written on every call: "
                                                                                 "it is shared by all objects and all analyses of the process")
    # class-level mutable containers that instances mutate without re-binding them in __init__
    for cls in repo.classes:
        for attr, val in cls.class_assigns.items():
            mutable = isinstance(val, (ast.List, ast.Dict, ast.Set, ast.ListComp, ast.DictComp, ast.SetComp)) or \
                (isinstance(val, ast.Call) and call_name(val) in ("list", "dict", "set", "defaultdict", "deque", "OrderedDict"))
            if not mutable:
                continue
            rebinders = set()
            mutators = []
            for mth in cls.all_methods:
                selfn = mth.params()[0] if mth.params() else "self"
                for n in walk_no_nested(mth.node):
                    if isinstance(n, ast.Assign) and any(is_self_attr(t, attr, selfn) for t in n.targets):
                        rebinders.add(mth.name)
                    if isinstance(n, ast.Call) and isinstance(n.func, ast.Attribute) and n.func.attr in MUTATING and is_self_attr(n.func.value, attr, selfn):
                        mutators.append((mth, n))
                    if isinstance(n, (ast.Assign, ast.AugAssign)):
                        for t in (n.targets if isinstance(n, ast.Assign) else [n.target]):
                            if isinstance(t, ast.Subscript) and is_self_attr(t.value, attr, selfn):
                                mutators.append((mth, n))
            if mutators and "__init__" not in rebinders:
                mth, n = mutators[0]
                found[f"classmutable::{cls.name}.{attr}"] = (cls.relpath, n.lineno, mth.qualname,
                                                              f"class-level container {cls.name}.{attr} = {src(val)} is mutated through `self` ({src(n)[:40]}) and never re-bound in __init__: all instances share it")
    # registration on a class-level dispatcher
    for f in repo.functions:
        for n in walk_no_nested(f.node):
            if isinstance(n, ast.Attribute) and n.attr == "register" and "__class__" in src(n):
                found[f"classattr-call::{f.cls.name if f.cls else '?'}.transform.register"] = (f.relpath, n.lineno, f.qualname, "registers a handler on a class-level dispatcher")
    for key, (rp, line, qn, what) in sorted(found.items()):
        reason = REVIEWED_STATE.get(key)
        obs.append(Ob("G3-state", key, rp, line, qn, reason is not None,
                      f"{what} -- reviewed: {reason}" if reason else f"{what}: process-global state that is not in the reviewed table (results may depend on process history)"))
    for key in REVIEWED_STATE:
        if key not in found and not key.startswith("default::utils"):
            obs.append(Ob("G3-state", key + "::gone", "", 0, "", True, "reviewed entry no longer present in the tree", trivial=True))
    return obs


def mut_state_inventory(repo: Repo) -> List[Mutant]:
    out = []

    def memo(tree):
        tree.body.insert(len([s for s in tree.body if isinstance(s, (ast.Import, ast.ImportFrom))]), ast.parse("_seen_monomials = {}").body[0])
        fn = find_def(tree, "RecBuilder.get_recurrence")
        if fn is None:
            return False
        fn.body.insert(0, ast.parse("_seen_monomials[monomial] = True").body[0])
        return True
    ov = mutate_module(repo, "recurrences/rec_builder.py", memo)
    if ov:
        out.append(Mutant("module-level-memo", ov, "fire", "modstate::recurrences/rec_builder.py::_seen_monomials", control=True))

    def classflag(tree):
        fn = find_def(tree, "ConditionsNormalizer.execute")
        if fn is None:
            return False
        fn.body.insert(0, ast.parse("ConditionsNormalizer.needs_info_update = False").body[0])
        return True
    ov = mutate_module(repo, "program/transformer/conditions_normalizer.py", classflag)
    if ov:
        out.append(Mutant("class-level-flag-write", ov, "fire", "classattr::ConditionsNormalizer.needs_info_update"))

    def shared_evidence(tree):
        cls = find_def(tree, "ExactInferenceQuery")
        if cls is None:
            return False
        for st in cls.body:
            if isinstance(st, ast.AnnAssign) and isinstance(st.target, ast.Name) and st.target.id == "evidence":
                st.value = ast.List(elts=[], ctx=ast.Load())
        init = find_def(tree, "ExactInferenceQuery.__init__")
        for i, st in enumerate(init.body):
            if isinstance(st, ast.Assign) and src(st.targets[0]) == "self.evidence":
                del init.body[i]
                return True
        return False
    ov = mutate_module(repo, "bayesnet/query/exact_inference_query.py", shared_evidence)
    if ov:
        out.append(Mutant("class-level-evidence-list", ov, "fire", "classmutable::ExactInferenceQuery.evidence"))

    def mutable_default(tree):
        fn = find_def(tree, "get_moment")
        if fn is None:
            return False
        fn.args.args.append(ast.arg(arg="cache"))
        fn.args.defaults.append(ast.Dict(keys=[], values=[]))
        return True
    ov = mutate_module(repo, "cli/common.py", mutable_default)
    if ov:
        out.append(Mutant("mutable-default-cache", ov, "fire", "default::cli/common.py::get_moment::cache"))
    return out


# ------------------------------------------------------------------ randomness census
def rule_random(repo: Repo) -> List[Ob]:
    obs = []
    for f in repo.functions:
        for n in walk_no_nested(f.node):
            if not isinstance(n, ast.Call):
                continue
            d = dotted(n.func) or ""
            head = d.split(".")[0]
            imp = f.module.imports.get(head)
            is_random = bool(imp) and (imp[0] == "random" or (imp[0] or "").startswith("numpy.random") or (imp[1] == "random"))
            is_rvs = call_name(n) == "rvs"
            if not (is_random or is_rvs):
                continue
            ok = f.name in RANDOM_OK
            obs.append(Ob("G3-random", f"{f.relpath}::{f.qualname}::{d or call_name(n)}", f.relpath, n.lineno, f.qualname, ok,
                          f"random source `{d}` in {f.qualname}: {RANDOM_OK.get(f.name)}" if ok else
                          f"random source `{d}` used outside the simulator/naming helpers: analysis results become irreproducible"))
    return obs


def mut_random(repo: Repo) -> List[Mutant]:
    def tr(tree):
        fn = find_def(tree, "RecBuilder.get_recurrences")
        if fn is None:
            return False
        tree.body.insert(0, ast.parse("import random").body[0])
        fn.body.insert(0, ast.parse("random.random()").body[0])
        return True
    ov = mutate_module(repo, "recurrences/rec_builder.py", tr)
    return [Mutant("random-in-analysis", ov, "fire", "RecBuilder.get_recurrences::random.random", control=True)] if ov else []


# ------------------------------------------------------------------ memoisation (lru_cache) rules
ANALYSIS_PHASE_PREFIXES = ("recurrences/", "cli/common.py", "cli/actions/", "invariants/", "sensitivity_analysis/", "expansions/",
                           "unsolvable_analysis/", "simulation/", "plots/")


def _is_cached(f: FunctionInfo) -> bool:
    return any(d.split(".")[-1] in ("lru_cache", "cache") for d in f.decorators())


def _fields_read(cls: ClassInfo, f: FunctionInfo, depth=2) -> Set[str]:
    from .conformance import _method_reads
    return _method_reads(cls, f, depth)


def _receiver_kind(repo: Repo, f: FunctionInfo, defs: Defs, e) -> Optional[str]:
    """'Assignment' | 'Condition' | 'Distribution' | None for the receiver expression of a method call."""
    r = defs.roots(e)
    if any(x in ("attr:loop_body", "attr:initial") for x in r) and not any(x.startswith("attr:polynomials") or x.startswith("attr:probabilities") for x in r):
        if "attr:condition" in r or "attr:loop_guard" in r:
            return "Condition"
        if "attr:distribution" in r or "attr:argument_dist" in r:
            return "Distribution"
        if not any(x in ("attr:variable", "attr:default", "attr:free_symbols", "attr:argument") for x in r):
            return "Assignment"
    if "attr:distribution" in r or "attr:argument_dist" in r:
        return "Distribution"
    if any(x in ("attr:condition", "attr:loop_guard", "attr:original_loop_guard") for x in r):
        return "Condition"
    # annotated parameters
    if isinstance(e, ast.Name):
        for a in f.node.args.args + f.node.args.kwonlyargs:
            if a.arg == e.id and a.annotation is not None:
                ann = src(a.annotation)
                for k in ("Assignment", "Condition", "Distribution"):
                    if k in ann:
                        return k
    return None


def rule_lru(repo: Repo) -> List[Ob]:
    obs = []
    cached = [f for f in repo.functions if _is_cached(f)]
    # mutator table: class name -> field -> [methods writing it outside constructors]
    for f in cached:
        key = f"{f.relpath}::{f.qualname}::lru_cache"
        if f.cls is None:
            # plain function: must be a pure function of its arguments
            bad = []
            for n in walk_no_nested(f.node):
                if isinstance(n, ast.Attribute) and isinstance(n.value, ast.Name) and n.value.id in _settings_aliases(repo, f.module):
                    bad.append(src(n))
                if isinstance(n, ast.Global):
                    bad.append("global " + ",".join(n.names))
            obs.append(Ob("G3-lru", key, f.relpath, f.node.lineno, f.qualname, not bad,
                          "memoised function depends only on its (hashable) arguments" if not bad else
                          f"memoised function reads process state {bad}: cached results outlive option changes"))
            continue
        cls = f.cls
        reads = _fields_read(cls, f)
        mutators: Dict[str, Set[str]] = {}
        family = [c for c in repo.classes if cls in c.mro() or c in cls.mro()]
        for c in family:
            for mname, mf in c.methods.items():
                if mname in ("__init__", "set_parameters") or mf.node is f.node:
                    continue
                selfn = mf.params()[0] if mf.params() else "self"
                for n in walk_no_nested(mf.node):
                    if isinstance(n, (ast.Assign, ast.AugAssign)):
                        targets = n.targets if isinstance(n, ast.Assign) else [n.target]
                        for t in targets:
                            for tt in (t.elts if isinstance(t, (ast.Tuple, ast.List)) else [t]):
                                base = tt.value if isinstance(tt, ast.Subscript) else tt
                                if is_self_attr(base, None, selfn) and base.attr in reads:
                                    mutators.setdefault(mname, set()).add(base.attr)
        # which field values are settings-dependent?  (cached method reading settings directly)
        reads_settings = [src(n) for n in walk_no_nested(f.node) if isinstance(n, ast.Attribute) and isinstance(n.value, ast.Name)
                          and n.value.id in _settings_aliases(repo, f.module)]
        if reads_settings:
            obs.append(Ob("G3-lru", key + "::settings", f.relpath, f.node.lineno, f.qualname, False,
                          f"memoised method reads {reads_settings} at call time: a cached result survives an option change"))
        if not mutators:
            obs.append(Ob("G3-lru", key, f.relpath, f.node.lineno, f.qualname, True,
                          f"memoised per instance; fields read {sorted(reads)} are written only by constructors"))
            continue
        # the mutators must not be called from the analysis phase on an object of this family
        kind = "Distribution" if cls.is_subclass_of("Distribution") else "Assignment" if cls.is_subclass_of("Assignment") else \
            "Condition" if cls.is_subclass_of("Condition") else cls.name
        offenders = []
        for g in repo.functions:
            if not g.relpath.startswith(ANALYSIS_PHASE_PREFIXES):
                continue
            gdefs = None
            for n in walk_no_nested(g.node):
                if isinstance(n, ast.Call) and isinstance(n.func, ast.Attribute) and n.func.attr in mutators:
                    if gdefs is None:
                        gdefs = Defs(g.node, g.params()[0] if g.params() else None)
                    rk = _receiver_kind(repo, g, gdefs, n.func.value)
                    if rk == kind or (rk == "Assignment" and kind == "Distribution" and n.func.attr == "subs"):
                        offenders.append(f"{g.relpath}:{n.lineno} {g.qualname}: {src(n)[:50]}")
        if f.name in mutators:
            pass
        ok = not offenders
        obs.append(Ob("G3-lru", key, f.relpath, f.node.lineno, f.qualname, ok,
                      f"memoised per instance; the fields it reads are mutated only by {sorted(mutators)} which the analysis phase never calls on a {kind}"
                      if ok else f"memoised method reads fields mutated by {sorted(mutators)}, which the analysis phase calls: {offenders[:3]} -> stale cache"))
    return obs


def mut_lru(repo: Repo) -> List[Mutant]:
    out = []

    def analysis_subs(tree):
        fn = find_def(tree, "RecBuilder.get_recurrence")
        if fn is None:
            return False
        fn.body.insert(0, ast.parse("for assign in self.program.loop_body:\n    assign.distribution.subs({})").body[0])
        return True
    ov = mutate_module(repo, "recurrences/rec_builder.py", analysis_subs)
    if ov:
        out.append(Mutant("analysis-phase-mutates-distribution", ov, "fire", "Normal.get_moment::lru_cache", control=True))

    def cached_fn_reads_settings(tree):
        fn = find_def(tree, "get_reduced_powers")
        if fn is None:
            return False
        tree.body.insert(0, ast.parse("import settings").body[0])
        fn.body.insert(0, ast.parse("eps = settings.numeric_eps").body[0])
        return True
    ov = mutate_module(repo, "utils/finite_power_reduction.py", cached_fn_reads_settings)
    if ov:
        out.append(Mutant("memoised-function-reads-settings", ov, "fire", "get_reduced_powers::lru_cache"))

    def cache_cyclic_settings(tree):
        fn = find_def(tree, "CyclicSolver.get")
        if fn is None:
            return False
        fn.body.insert(0, ast.parse("eps = settings.numeric_eps").body[0])
        return True
    ov = mutate_module(repo, "recurrences/solver/cyclic_solver.py", cache_cyclic_settings)
    if ov:
        out.append(Mutant("memoised-method-reads-settings", ov, "fire", "CyclicSolver.get::lru_cache::settings"))
    return out


# ------------------------------------------------------------------ exact_func_moments class flag is refreshed by every normalisation
def rule_class_flag_refresh(repo: Repo) -> List[Ob]:
    fn = repo.function("program/transformer/__init__.py", "normalize_program")
    key = "program/transformer/__init__.py::normalize_program::exact_func_moments"

    def stores_in(g):
        """(cfg, node) of `FunctionalAssignment.exact_func_moments = ...` statements of g"""
        c = cfg_of(g.node)
        out = []
        for n in c.nodes:
            if n.kind == "stmt" and isinstance(n.ast, ast.Assign):
                for t in n.ast.targets:
                    if isinstance(t, ast.Attribute) and t.attr == "exact_func_moments" and isinstance(t.value, ast.Name) and t.value.id == "FunctionalAssignment":
                        out.append((c, n))
        return out
    c = cfg_of(fn.node)
    cands = []     # (store node, on every path of normalize_program?)
    for cc, n in stores_in(fn):
        cands.append((n, cc.postdominates(n, cc.entry)))
    # one level of same-module helpers: the store is on every path of the helper and the call on every path of normalize_program
    for call in walk_no_nested(fn.node):
        if isinstance(call, ast.Call) and isinstance(call.func, ast.Name):
            h = next((g for g in repo.functions if g.module is fn.module and g.cls is None and g.name == call.func.id and g.node is not fn.node), None)
            if h is None:
                continue
            cn = c.node_of(call)
            for hc, n in stores_in(h):
                cands.append((n, cn is not None and c.postdominates(cn, c.entry) and hc.postdominates(n, hc.entry)))
    if not cands:
        return [Ob("G3-flag-refresh", key, fn.relpath, fn.node.lineno, fn.qualname, False, "normalize_program does not refresh FunctionalAssignment.exact_func_moments")]
    def from_settings(n):
        v = n.ast.value
        if src(v) == "settings.exact_func_moments":
            return True
        if isinstance(v, ast.Constant) or ("settings." in src(v) and "settings.exact_func_moments" not in src(v)):
            return False
        return None
    if all(from_settings(n) is None for n, _ in cands):
        return [inconclusive("G3-flag-refresh", key, fn.relpath, cands[0][0].ast.lineno, fn.qualname, f"value `{src(cands[0][0].ast.value)}` written to the class flag not traced to settings")]
    good = [n for n, allp in cands if allp and from_settings(n)]
    if good:
        return [Ob("G3-flag-refresh", key, fn.relpath, good[0].ast.lineno, fn.qualname, True, "class flag exact_func_moments is refreshed from settings on every path through normalize_program")]
    n, allp = cands[0]
    msg = ("flag is refreshed from `%s`" % src(n.ast.value)) if src(n.ast.value) != "settings.exact_func_moments" else "flag is not refreshed on every path through normalize_program"
    return [Ob("G3-flag-refresh", key, fn.relpath, n.ast.lineno, fn.qualname, False, msg)]


def mut_class_flag_refresh(repo: Repo) -> List[Mutant]:
    out = []

    def cond(tree):
        fn = find_def(tree, "normalize_program")
        for i, n in enumerate(fn.body):
            if isinstance(n, ast.Assign) and "exact_func_moments" in src(n.targets[0]):
                fn.body[i] = ast.If(test=ast.parse("settings.exact_func_moments").body[0].value, body=[n], orelse=[])
                return True
        return False
    ov = mutate_module(repo, "program/transformer/__init__.py", cond)
    if ov:
        out.append(Mutant("flag-only-ever-set", ov, "fire", "normalize_program::exact_func_moments", control=True))
    return out


RULES = {
    "SETTINGS-W": Rule("G1-settings", rule_settings_writers, 15, "settings flags are written only by the CLI setter (or scoped try/finally overrides) and never read at import time", mut_settings_writers),
    "SETTINGS-C": Rule("G1-census", rule_settings_census, 19, "every settings flag has a CLI option defaulting to it and is assigned from that option by the setter", mut_settings_census),
    "STATE": Rule("G3-state", rule_state_inventory, 3, "inventory of process-global mutable state (globals, class attributes rebound at run time, mutated module containers, shared default arguments) equals the reviewed table", mut_state_inventory),
    "RANDOM": Rule("G3-random", rule_random, 10, "random sources occur only in the simulator's samplers and in naming helpers", mut_random),
    "LRU": Rule("G3-lru", rule_lru, 8, "memoised functions are pure; memoised methods read only fields that the analysis phase never mutates", mut_lru),
    "FLAG": Rule("G3-flag-refresh", rule_class_flag_refresh, 1, "the class-level exact_func_moments flag is rewritten from settings on every path of normalize_program", mut_class_flag_refresh),
}


# ------------------------------------------------------------------ the parsed command line is read-only
def rule_cli_namespace(repo: Repo) -> List[Ob]:
    """polar.py parses the command line once and hands the same namespace to every action of every benchmark.
    An attribute store on it in an action changes what the next benchmark is analysed with."""
    obs = []
    n_reads = 0
    for f in repo.functions:
        if not (f.relpath.startswith("cli/") or f.relpath == "polar.py"):
            continue
        if f.relpath.endswith("argument_parser.py"):
            continue
        for n in walk_no_nested(f.node):
            if isinstance(n, ast.Attribute) and isinstance(n.ctx, ast.Load) and src(n.value) in ("self.cli_args", "cli_args", "args"):
                n_reads += 1
            targets = []
            if isinstance(n, ast.Assign):
                targets = n.targets
            elif isinstance(n, (ast.AugAssign, ast.AnnAssign)):
                targets = [n.target]
            elif isinstance(n, ast.Call) and isinstance(n.func, ast.Name) and n.func.id == "setattr" and n.args and src(n.args[0]) in ("self.cli_args", "cli_args", "args"):
                targets = [n.args[0]]
                obs.append(Ob("G1-cli-namespace", f"{f.relpath}::{f.qualname}::setattr", f.relpath, n.lineno, f.qualname, False,
                              f"`{src(n)[:60]}` writes the parsed command line, which is shared by all benchmarks of the invocation"))
                continue
            for t in targets:
                for tt in (t.elts if isinstance(t, (ast.Tuple, ast.List)) else [t]):
                    base = tt.value if isinstance(tt, ast.Subscript) else tt
                    if isinstance(base, ast.Attribute) and src(base.value) in ("self.cli_args", "cli_args", "args") and f.name != "__init__":
                        obs.append(Ob("G1-cli-namespace", f"{f.relpath}::{f.qualname}::{base.attr}", f.relpath, n.lineno, f.qualname, False,
                                      f"`{src(n)[:60]}` writes the parsed command line, which is shared by all benchmarks of the invocation: "
                                      "the next benchmark is analysed with this benchmark's value"))
            # in-place mutation of a list option
            if isinstance(n, ast.Call) and isinstance(n.func, ast.Attribute) and n.func.attr in ("append", "extend", "insert", "remove", "pop", "clear", "sort") \
                    and isinstance(n.func.value, ast.Attribute) and src(n.func.value.value) in ("self.cli_args", "cli_args", "args"):
                obs.append(Ob("G1-cli-namespace", f"{f.relpath}::{f.qualname}::{n.func.value.attr}", f.relpath, n.lineno, f.qualname, False,
                              f"`{src(n)[:60]}` mutates an option list of the shared command line"))
    if n_reads < 20:
        raise AnalysisError(f"G1-cli-namespace: only {n_reads} reads of the parsed command line found")
    if not obs:
        obs.append(Ob("G1-cli-namespace", "cli::namespace::read-only", "cli/", 0, "", True, f"{n_reads} reads of the parsed command line, no write outside the argument parser"))
    return obs


def mut_cli_namespace(repo: Repo) -> List[Mutant]:
    def tr(tree):
        fn = find_def(tree, "GoalsAction.parse_goals")
        if fn is None:
            return False
        fn.body.insert(0, ast.parse("if not self.cli_args.goals:\n    self.cli_args.goals = ['E(' + str(v) + ')' for v in self.program.original_variables]").body[0])
        return True
    ov = mutate_module(repo, "cli/actions/goals_action.py", tr)
    return [Mutant("default-goals-stored-in-namespace", ov, "fire", "GoalsAction.parse_goals::goals", control=True)] if ov else []


RULES["CLIARGS"] = Rule("G1-cli-namespace", rule_cli_namespace, 1, "the parsed command line (shared by all benchmarks of one invocation) is never written by an action", mut_cli_namespace)


# ------------------------------------------------------------------ memoised mutable results
_FRESH_WRAPPERS = {"set", "list", "dict", "sorted", "frozenset", "tuple", "copy", "deepcopy"}
_MUT_METHODS = {"add", "append", "update", "extend", "insert", "remove", "discard", "pop", "clear", "sort", "reverse", "setdefault", "popitem"}


def _returns_mutable(f: FunctionInfo) -> Optional[str]:
    for r in walk_no_nested(f.node):
        if isinstance(r, ast.Return) and r.value is not None:
            v = r.value
            if isinstance(v, (ast.Set, ast.List, ast.Dict, ast.SetComp, ast.ListComp, ast.DictComp)):
                return src(v)
            if isinstance(v, ast.Call) and isinstance(v.func, ast.Name) and v.func.id in ("set", "list", "dict", "defaultdict"):
                return src(v)
            if isinstance(v, ast.Name):
                defs = Defs(f.node, None)
                vals = [x for x in defs.defs.get(v.id, []) if isinstance(x, ast.expr)]
                if vals and all(isinstance(x, (ast.Set, ast.List, ast.Dict, ast.SetComp, ast.ListComp, ast.DictComp)) or
                                (isinstance(x, ast.Call) and isinstance(x.func, ast.Name) and x.func.id in ("set", "list", "dict")) for x in vals[:1]):
                    return src(vals[0])
    return None


def rule_lru_mutable(repo: Repo) -> List[Ob]:
    """A memoised function that hands out a mutable container hands out the *same* object on every hit.  If that object can
    reach a caller that writes into it, one analysis changes what the next one is told.  Forwarders (`return cached(..)`)
    are followed by name, including through method dispatch."""
    obs = []
    cached = [f for f in repo.functions if _is_cached(f)]
    sources: Dict[str, Tuple[FunctionInfo, str]] = {}
    for f in cached:
        mut = _returns_mutable(f)
        if mut is not None:
            sources[f.name] = (f, mut)
    # forwarders: functions whose return value is (an alias of) a call to a source, without a copying wrapper
    carriers: Dict[str, str] = {n: n for n in sources}
    changed = True
    while changed:
        changed = False
        for g in repo.functions:
            if g.name in carriers or g.relpath.startswith(("tests/", "plots/")):
                continue
            for r in walk_no_nested(g.node):
                if isinstance(r, ast.Return) and isinstance(r.value, ast.Call) and call_name(r.value) in carriers:
                    carriers[g.name] = carriers[call_name(r.value)]
                    changed = True
                    break
    for name, (f, mut) in sorted(sources.items()):
        key = f"{f.relpath}::{f.qualname}::lru_cache::mutable-result"
        offenders = []
        names = {c for c, s0 in carriers.items() if s0 == name}
        for g in repo.functions:
            if g.relpath.startswith(("tests/", "plots/")):
                continue
            gdefs = None
            for st in walk_no_nested(g.node):
                if isinstance(st, ast.Assign) and isinstance(st.value, ast.Call) and call_name(st.value) in names and len(st.targets) == 1 and isinstance(st.targets[0], ast.Name):
                    var = st.targets[0].id
                    for x in walk_no_nested(g.node):
                        if isinstance(x, ast.Call) and isinstance(x.func, ast.Attribute) and x.func.attr in _MUT_METHODS and isinstance(x.func.value, ast.Name) and x.func.value.id == var:
                            offenders.append(f"{g.relpath}:{x.lineno} {g.qualname}: {src(x)[:40]}")
                        if isinstance(x, ast.Subscript) and isinstance(x.ctx, (ast.Store, ast.Del)) and isinstance(x.value, ast.Name) and x.value.id == var:
                            offenders.append(f"{g.relpath}:{x.lineno} {g.qualname}: {src(x)[:40]}")
                        if isinstance(x, ast.AugAssign) and isinstance(x.target, ast.Name) and x.target.id == var and isinstance(x.op, (ast.BitOr, ast.BitAnd, ast.Sub, ast.Add)):
                            offenders.append(f"{g.relpath}:{x.lineno} {g.qualname}: {src(x)[:40]}")
        ok = not offenders
        obs.append(Ob("G3-lru-mutable", key, f.relpath, f.node.lineno, f.qualname, ok,
                      f"memoised function returns the mutable `{mut[:40]}`; no caller (through {sorted(names)}) writes into the shared object" if ok else
                      f"memoised function returns the mutable `{mut[:40]}`, the one cached object reaches {offenders[0]} which writes into it: "
                      "the first analysis changes what every later call in the process is given"))
    if not sources:
        obs.append(Ob("G3-lru-mutable", "repo::lru_cache::mutable-result", "", 0, "", True, f"none of the {len(cached)} memoised functions returns a mutable container", trivial=True))
    return obs


def mut_lru_mutable(repo: Repo) -> List[Mutant]:
    m = repo.module("program/distribution/categorical.py")
    text = ast.unparse(m.tree)
    old = "return {sympify(v) for v in range(len(self.probabilities))}"
    if old not in text:
        return []
    new = text.replace(old, "return _index_support(len(self.probabilities))")
    new = new.replace("class Categorical(", "from functools import lru_cache\n\n\n@lru_cache(maxsize=None)\ndef _index_support(size):\n    return {sympify(v) for v in range(size)}\n\n\nclass Categorical(", 1)
    out = [Mutant("cached-support-set-shared", {"program/distribution/categorical.py": new}, "fire", "_index_support::lru_cache::mutable-result", control=True)]
    new2 = new.replace("return _index_support(len(self.probabilities))", "return set(_index_support(len(self.probabilities)))")
    out.append(Mutant("benign-cached-support-copied", {"program/distribution/categorical.py": new2}, "silent"))
    return out


RULES["LRUMUT"] = Rule("G3-lru-mutable", rule_lru_mutable, 1, "no memoised function hands a mutable container to a caller that writes into it", mut_lru_mutable)


# ------------------------------------------------------------------ set iteration order (hash seed)
SET_ATTRS = {"free_symbols", "variables", "symbols", "original_variables", "effective_variables", "defective_variables",
             "program_variables", "artificial_variables", "gen_sol_unknowns_set", "dep_vars"}
SET_METHODS = {"get_free_symbols", "get_support", "difference", "union", "intersection", "symmetric_difference", "copy_set",
               "get_dependent_variables", "get_reachable_variables", "get_defective_nodes"}
ORDER_FREE_WRAPPERS = {"set", "frozenset", "sum", "any", "all", "sorted", "min", "max", "len", "prod", "Add", "Mul", "dict"}
ORDER_TAKERS = {"list", "tuple", "enumerate", "zip", "iter", "next", "Matrix", "join", "reversed"}

# reviewed order-sensitive consumers of a set: key -> reason it cannot change a reported result
REVIEWED_SET_ORDER = {
    # key: file::class (or module-level function)::kind:shape, local names in the shape replaced by `_`
    "recurrences/rec_builder.py::RecBuilder::pop:_": "worklist of symengine monomials (seed-independent hash); every monomial is processed, solutions are per monomial",
    "recurrences/diff_rec_builder.py::DiffRecBuilder::pop:_": "same worklist shape as RecBuilder",
    "program/condition/atom_cond.py::Atom::pop:_": "set of symengine numbers; the result is a disjunction of equalities, commutative in meaning",
    "program/condition/atom_cond.py::Atom::for:_": "same disjunction",
    "utils/expressions.py::is_solvable::enumerate:_.variables": "index map and get_terms_with_vars enumerate the same set object in the same call",
    "unsolvable_analysis/solvability_checker.py::SolvabilityChecker::enumerate:_.variables": "same index map idiom within one call",
    "cli/actions/goals_action.py::GoalsAction::listcomp:self.program.original_variables": "order of default goals only changes the order of printed results (symengine symbols)",
    "program/transformer/update_info_transformer.py::UpdateInfoTransformer::call:combinations": "pairs are treated symmetrically",
    "invariants/lattice_ideal.py::LatticeIdeal::list:_": "order among the *eliminated* symbols does not change the reduced basis of the elimination ideal",
    "cli/actions/synth_solv_loop_action.py::SynthSolvLoopAction::for:_.defective_variables": "symengine symbols (seed-independent hash); candidate order only permutes template coefficients",
    "cli/actions/synth_unsolv_inv_action.py::SynthUnsolvInvAction::for:_.defective_variables": "symengine symbols (seed-independent hash); candidate order only permutes template coefficients",
    "program/condition/atom_cond.py::Atom::listcomp:_.values": "factors of a product (commutative)",
    "program/transformer/constants_transformer.py::ConstantsTransformer::for:_": "appends independent `c = c` assignments; their relative order has no meaning",
    "utils/expressions.py::get_terms_with_vars::iter:_.free_symbols": "a factor of an expanded monomial has exactly one free symbol",
}
# sets whose elements are plain strings (hash depends on PYTHONHASHSEED)
STR_SET_ATTRS = {"program_variables", "artificial_variables"}


def _alpha(e, localnames) -> str:
    """source of e with local variable names replaced by `_` (a rename of a local is not a new site)"""
    class R(ast.NodeTransformer):
        def visit_Name(self, n):
            return ast.copy_location(ast.Name(id="_", ctx=n.ctx), n) if n.id in localnames and n.id != "self" else n
    import copy as _copy
    from ..model import clone as _clone
    return src(R().visit(_clone(e)))


def _seed_dependent_elements(e, module_kind: str) -> Optional[str]:
    """positive evidence that the hashes of the elements of set expression e depend on the hash seed"""
    for n in ast.walk(e):
        if isinstance(n, ast.Attribute) and n.attr in STR_SET_ATTRS:
            return f"`{n.attr}` is a set of strings"
        if isinstance(n, ast.Call) and isinstance(n.func, ast.Name) and n.func.id == "str":
            return "a set of str(...) values"
    if module_kind == "sympy":
        return "this module works with sympy objects, whose hashes depend on the hash seed"
    return None


def _module_kind(mod) -> str:
    sympy = symengine = False
    for n in mod.tree.body:
        if isinstance(n, ast.ImportFrom) and n.module:
            if n.module == "sympy":
                sympy = True
            if n.module.startswith("symengine"):
                symengine = True
        elif isinstance(n, ast.Import):
            for a in n.names:
                if a.name == "sympy":
                    sympy = True
                if a.name.startswith("symengine"):
                    symengine = True
    return "sympy" if sympy and not symengine else "symengine" if symengine and not sympy else "mixed"


def _is_set_expr(e, defs: Defs, depth=0) -> bool:
    if depth > 4 or e is None:
        return False
    if isinstance(e, (ast.Set, ast.SetComp)):
        return True
    if isinstance(e, ast.Call):
        cn = call_name(e)
        if isinstance(e.func, ast.Name) and cn in ("set", "frozenset"):
            return True
        if isinstance(e.func, ast.Attribute) and cn in SET_METHODS:
            return True
        if isinstance(e.func, ast.Name) and cn in _SET_RETURNING:
            return True
        return False
    if isinstance(e, ast.Attribute):
        return e.attr in SET_ATTRS or (e.attr == "values" and "type" in src(e.value).lower())
    if isinstance(e, ast.BinOp) and isinstance(e.op, (ast.BitOr, ast.BitAnd, ast.Sub)):
        return _is_set_expr(e.left, defs, depth + 1) or _is_set_expr(e.right, defs, depth + 1)
    if isinstance(e, ast.Name) and e.id in defs.defs and e.id not in defs.params:
        vals = [v for v in defs.defs[e.id] if isinstance(v, ast.expr)]
        # container growth (x.add(v)) registers v as a "def": look only at whole-value bindings
        whole = []
        for v, site in zip(defs.defs[e.id], defs.def_sites.get(e.id, [])):
            if isinstance(site, (ast.Assign, ast.AnnAssign)) and isinstance(v, ast.expr):
                whole.append(v)
        return bool(whole) and all(_is_set_expr(v, defs, depth + 1) for v in whole)
    return False


def _body_order_sensitive(body_nodes) -> Optional[str]:
    for st in body_nodes:
        for n in ast.walk(st):
            if isinstance(n, ast.Call):
                cn = call_name(n)
                if cn in ("append", "insert", "extend", "appendleft", "put", "write"):
                    return f".{cn}("
                if cn in ("get_unique_var", "get_unique_name"):
                    return f"{cn}() in the loop body"
            if isinstance(n, ast.AugAssign) and isinstance(n.op, ast.Add) and isinstance(n.value, (ast.List, ast.JoinedStr, ast.Constant)) \
                    and not (isinstance(n.value, ast.Constant) and isinstance(n.value.value, (int, float))):
                return "sequence/text accumulation"
            if isinstance(n, ast.Return) and n.value is not None and not (isinstance(n.value, ast.Constant)):
                return "first-match return"
            if isinstance(n, ast.Break):
                return "first-match break"
    return None


_SET_RETURNING: Set[str] = set()


def rule_set_order(repo: Repo) -> List[Ob]:
    obs = []
    _SET_RETURNING.clear()
    for g in repo.functions:
        if g.cls is None:
            rets = [r.value for r in walk_no_nested(g.node) if isinstance(r, ast.Return) and r.value is not None]
            if rets and all(isinstance(r, (ast.Set, ast.SetComp)) or (isinstance(r, ast.Call) and isinstance(r.func, ast.Name) and r.func.id in ("set", "frozenset")) for r in rets):
                _SET_RETURNING.add(g.name)
    found: Dict[str, Tuple[str, int, str, str]] = {}
    for f in repo.functions:
        if f.relpath.startswith(("plots/", "simulation/")):
            continue
        defs = None
        for n in walk_no_nested(f.node):
            site = None
            if isinstance(n, ast.For):
                it = n.iter
                kind = "for"
                inner = it
                if isinstance(it, ast.Call) and call_name(it) in ("enumerate", "zip", "reversed", "list", "tuple") and it.args:
                    inner = it.args[0]
                    kind = call_name(it)
                if defs is None:
                    defs = Defs(f.node, f.params()[0] if f.params() else None)
                if _is_set_expr(inner, defs):
                    why = "positions from enumerate" if kind == "enumerate" else _body_order_sensitive(n.body)
                    if why:
                        site = (kind, inner, n.lineno, why)
            elif isinstance(n, (ast.ListComp, ast.GeneratorExp, ast.DictComp)):
                if defs is None:
                    defs = Defs(f.node, f.params()[0] if f.params() else None)
                g = n.generators[0]
                inner = g.iter
                kind = "listcomp"
                if isinstance(inner, ast.Call) and call_name(inner) in ("enumerate", "zip", "list", "tuple") and inner.args:
                    kind = call_name(inner)
                    inner = inner.args[0]
                if _is_set_expr(inner, defs):
                    p = parent(n)
                    wrapped = isinstance(p, ast.Call) and call_name(p) in ORDER_FREE_WRAPPERS
                    if isinstance(n, ast.DictComp) and kind != "enumerate":
                        wrapped = True
                    if isinstance(n, ast.GeneratorExp) and isinstance(p, ast.Call) and call_name(p) in ORDER_FREE_WRAPPERS:
                        wrapped = True
                    if not wrapped or kind == "enumerate":
                        site = (kind, inner, n.lineno, "ordered result built from a set")
            elif isinstance(n, ast.Call):
                cn = call_name(n)
                if defs is None:
                    defs = Defs(f.node, f.params()[0] if f.params() else None)
                if cn == "pop" and isinstance(n.func, ast.Attribute) and not n.args and _is_set_expr(n.func.value, defs):
                    site = ("pop", n.func.value, n.lineno, "arbitrary element taken")
                elif isinstance(n.func, ast.Name) and cn in ("list", "tuple", "next", "iter") and n.args and _is_set_expr(n.args[0], defs) \
                        and not (isinstance(parent(n), ast.Call) and call_name(parent(n)) in ORDER_FREE_WRAPPERS) \
                        and not isinstance(parent(n), (ast.For, ast.comprehension)):
                    site = (cn, n.args[0], n.lineno, "ordered copy of a set")
                elif cn in ("combinations", "permutations", "product") and n.args and _is_set_expr(n.args[0], defs):
                    site = ("call", cn, n.lineno, "ordered tuples of a set")
                elif cn == "join" and n.args and _is_set_expr(n.args[0], defs):
                    site = ("join", n.args[0], n.lineno, "text built in set order")
            if site:
                kind, e, line, why = site
                localnames = set(defs.defs) | set(defs.params)
                shape = e if isinstance(e, str) else _alpha(e, localnames)
                scope = f.cls.name if f.cls is not None else f.qualname
                key = f"{f.relpath}::{scope}::{kind}:{shape}"
                evid = None if isinstance(e, str) else _seed_dependent_elements(e, _module_kind(repo.modules[f.relpath]))
                if isinstance(e, ast.Name) and evid is None:
                    for v in defs.defs.get(e.id, []):
                        if isinstance(v, ast.expr):
                            evid = evid or _seed_dependent_elements(v, "mixed")
                found.setdefault(key, (f.relpath, line, f.qualname, why, evid))
    for key, (rp, line, qn, why, evid) in sorted(found.items()):
        reason = REVIEWED_SET_ORDER.get(key)
        if reason:
            obs.append(Ob("G3-set-order", key, rp, line, qn, True, f"order-sensitive use of a set ({why}) -- reviewed: {reason}"))
        elif evid:
            obs.append(Ob("G3-set-order", key, rp, line, qn, False,
                          f"order-sensitive use of a set ({why}); {evid}, so the iteration order, and with it a reported result, "
                          "may depend on PYTHONHASHSEED; not in the reviewed table"))
        else:
            obs.append(inconclusive("G3-set-order", key, rp, line, qn,
                                    f"order-sensitive use of a set ({why}) that is not in the reviewed table; no evidence that its elements hash seed-dependently (symengine objects do not)"))
    return obs


def mut_set_order(repo: Repo) -> List[Mutant]:
    out = []

    def names_from_set(tree):
        fn = find_def(tree, "StructureTransformer.program")
        if fn is None:
            return False
        fn.body.insert(0, ast.parse("ordered = [v for v in self.program_variables]").body[0])
        return True
    ov = mutate_module(repo, "inputparser/structure_transformer.py", names_from_set)
    if ov:
        out.append(Mutant("list-from-string-set", ov, "fire", "StructureTransformer::listcomp:self.program_variables", control=True))

    def generators_from_set(tree):
        fn = find_def(tree, "LatticeIdeal.compute_basis")
        if fn is None:
            return False
        for n in ast.walk(fn):
            if isinstance(n, ast.Assign) and src(n.targets[0]) == "all_symbols":
                n.value = ast.parse("list(inverse_symbols | set(self.symbols))").body[0].value
                return True
        return False
    ov = mutate_module(repo, "invariants/lattice_ideal.py", generators_from_set)
    if ov:
        out.append(Mutant("groebner-generators-in-set-order", ov, "fire", "LatticeIdeal::list:"))

    def benign_sorted(tree):
        fn = find_def(tree, "StructureTransformer.program")
        if fn is None:
            return False
        fn.body.insert(0, ast.parse("ordered = sorted([v for v in self.program_variables])").body[0])
        return True
    ov = mutate_module(repo, "inputparser/structure_transformer.py", benign_sorted)
    if ov:
        out.append(Mutant("benign-sorted-copy", ov, "silent"))
    return out


RULES["SETORDER"] = Rule("G3-set-order", rule_set_order, 8, "every order-sensitive consumer of a set (pop, enumerate, list/tuple copy, append/first-match in a loop over a set) is in the reviewed table", mut_set_order)
