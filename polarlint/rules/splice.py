"""Family C: hygiene of arithmetic text that is spliced together and handed to the CAS
or to the program grammar again (parser helpers, draw rewriting, Bayes code generator)."""
import ast
import re
from typing import Dict, List, Optional, Set, Tuple

from ..model import Repo, FunctionInfo, AnalysisError, walk_no_nested, src, is_self_attr, call_name, dotted, parent, ancestors
from ..core import inconclusive, Ob, Rule, Mutant, mutate_module, find_def, replace_node, text_mutant
from ..dataflow import Defs
from ..astq import is_stringy, template_of, Lit, Hole, Chunk

SCOPE_PREFIXES = ("inputparser/structure_transformer.py", "program/transformer/", "program/distribution/", "program/assignment/",
                  "program/condition/", "bayesnet/code_generator.py", "bayesnet/query/")
DISPLAY_FUNCS = {"__str__", "__repr__", "print_pretty", "generate_result"}
DISPLAY_CALLS = {"print", "colored", "Bar", "indent_string"}
SAFE_LEFT = {"", "(", ",", "+", "{", "=", ":", "[", "\n"}
SAFE_RIGHT = {"", ")", ",", "+", "-", "}", ":", "]", "\n"}
SANITISED_MAPS = {"polar_variable_names", "polar_variable_mapping"}


def _top_level_templates(f: FunctionInfo):
    for n in walk_no_nested(f.node):
        top = False
        if isinstance(n, ast.JoinedStr):
            top = True
        elif isinstance(n, ast.BinOp) and isinstance(n.op, (ast.Add, ast.Mod)) and is_stringy(n):
            top = True
        elif isinstance(n, ast.Call) and isinstance(n.func, ast.Attribute) and n.func.attr in ("join", "format") and is_stringy(n):
            top = True
        if not top:
            continue
        p = parent(n)
        if isinstance(p, (ast.JoinedStr, ast.FormattedValue)) or (isinstance(p, ast.BinOp) and is_stringy(p)):
            continue
        if isinstance(p, ast.Call) and isinstance(p.func, ast.Attribute) and p.func.attr in ("join", "format") and p.func.value is n:
            continue
        if isinstance(p, ast.Call) and isinstance(p.func, ast.Name) and p.func.id == "str":
            continue
        skip = False
        for a in ancestors(n):
            if isinstance(a, (ast.Raise, ast.Assert)):
                skip = True
            if isinstance(a, ast.Call) and call_name(a) in DISPLAY_CALLS:
                skip = True
            if isinstance(a, ast.Call) and (call_name(a) or "").endswith(("Exception", "Error", "Warning")):
                skip = True   # message of an exception object, wherever it is raised
            if isinstance(a, (ast.FunctionDef, ast.AsyncFunctionDef)):
                break
        if not skip:
            yield n


def _class_attr_sources(repo: Repo, f: FunctionInfo, attr: str) -> List[ast.AST]:
    out = []
    if f.cls is None:
        return out
    for c in f.cls.mro():
        for m in c.all_methods:
            selfn = m.params()[0] if m.params() else "self"
            for n in walk_no_nested(m.node):
                if isinstance(n, ast.Assign):
                    for t in n.targets:
                        if is_self_attr(t, attr, selfn):
                            out.append(n.value)
                        elif isinstance(t, (ast.Tuple, ast.List)):
                            # self.a, self.b = <tuple> | helper(...)  : the component that lands in the field
                            for i, el in enumerate(t.elts):
                                if not is_self_attr(el, attr, selfn):
                                    continue
                                v = n.value
                                if isinstance(v, (ast.Tuple, ast.List)) and len(v.elts) == len(t.elts):
                                    out.append(v.elts[i])
                                    continue
                                h = None
                                if isinstance(v, ast.Call) and isinstance(v.func, ast.Attribute) and isinstance(v.func.value, ast.Name) and v.func.value.id in (selfn, "self", "cls", c.name):
                                    h = c.find_method(v.func.attr)
                                elif isinstance(v, ast.Call) and isinstance(v.func, ast.Name):
                                    h = next((g for g in repo.functions if g.module is m.module and g.cls is None and g.name == v.func.id), None)
                                rets = [r.value for r in walk_no_nested(h.node) if isinstance(r, ast.Return) and r.value is not None] if h is not None else []
                                if rets and all(isinstance(r, ast.Tuple) and len(r.elts) == len(t.elts) for r in rets):
                                    out += [r.elts[i] for r in rets]
                                else:
                                    out.append(ast.Name(id="__unreadable__", ctx=ast.Load()))
    return out


def _atomic(repo: Repo, f: FunctionInfo, defs: Defs, e, depth=0) -> Optional[str]:
    """reason why a hole expression denotes a single token (identifier / integer), else None."""
    if depth > 5:
        return None
    if isinstance(e, ast.Constant):
        return "literal"
    if isinstance(e, ast.IfExp):
        a, b = _atomic(repo, f, defs, e.body, depth + 1), _atomic(repo, f, defs, e.orelse, depth + 1)
        return a if a and b else None
    if isinstance(e, ast.BinOp) and isinstance(e.op, (ast.Add, ast.Sub, ast.Mult, ast.FloorDiv)):
        # integer arithmetic on integers is one numeric token when rendered
        def intlike(x):
            if isinstance(x, ast.Constant) and isinstance(x.value, int):
                return True
            if isinstance(x, ast.Call) and call_name(x) in ("len", "int", "index"):
                return True
            if isinstance(x, ast.Attribute) and (x.attr.endswith("size") or x.attr.startswith("num_") or x.attr.endswith("count")):
                return True
            if isinstance(x, ast.BinOp) and isinstance(x.op, (ast.Add, ast.Sub, ast.Mult, ast.FloorDiv)):
                return intlike(x.left) and intlike(x.right)
            if isinstance(x, ast.Name):
                r = _atomic(repo, f, defs, x, depth + 1)
                return bool(r) and ("integer" in r or "index" in r or "int" in r)
            return False
        if intlike(e.left) and intlike(e.right):
            return "integer arithmetic"
    if isinstance(e, ast.Call):
        cn = call_name(e)
        if cn in ("get_unique_var", "get_unique_name"):
            return f"{cn}()"
        if cn in ("index", "len", "int"):
            return f"integer from {cn}()"
        if cn == "str" and len(e.args) == 1:
            return _atomic(repo, f, defs, e.args[0], depth + 1)
        if cn == "Symbol" and len(e.args) >= 1:
            return _atomic(repo, f, defs, e.args[0], depth + 1)
        # a helper of the same class / module whose every return value is a single token
        h = None
        if isinstance(e.func, ast.Attribute) and isinstance(e.func.value, ast.Name) and e.func.value.id in ("self", "cls") and f.cls is not None:
            h = f.cls.find_method(e.func.attr)
        elif isinstance(e.func, ast.Name):
            h = next((g for g in repo.functions if g.module is f.module and g.cls is None and g.name == e.func.id), None)
        if h is not None and h.node is not f.node:
            rets = [r.value for r in walk_no_nested(h.node) if isinstance(r, ast.Return) and r.value is not None]
            hdefs = Defs(h.node, h.params()[0] if h.params() and h.cls is not None else None)
            rs = [_atomic(repo, h, hdefs, r, depth + 1) for r in rets]
            if rets and all(rs):
                return f"{h.name}() returns " + "/".join(sorted(set(rs)))
        return None
    if isinstance(e, ast.Attribute):
        if e.attr == "variable":
            return "assignment target symbol"
        selfn = f.params()[0] if f.params() else "self"
        if is_self_attr(e, None, selfn):
            srcs = _class_attr_sources(repo, f, e.attr)
            if srcs:
                rs = []
                for s in srcs:
                    if isinstance(s, ast.Constant) and isinstance(s.value, int):
                        rs.append("int literal")
                        continue
                    if isinstance(s, ast.Call) and call_name(s) in ("get_unique_name", "get_unique_var", "int"):
                        rs.append(call_name(s) + "()")
                        continue
                    if isinstance(s, ast.IfExp) and all((isinstance(x, ast.Constant) and isinstance(x.value, int)) or (isinstance(x, ast.Call) and call_name(x) == "int") for x in (s.body, s.orelse)):
                        rs.append("int")
                        continue
                    rs.append(None)
                if all(rs):
                    return "field set only from " + "/".join(sorted(set(rs)))
        return None
    if isinstance(e, ast.Subscript):
        base = e.value
        bn = base.attr if isinstance(base, ast.Attribute) else (base.id if isinstance(base, ast.Name) else "")
        if bn in SANITISED_MAPS:
            return "sanitised polar name"
        return None
    if isinstance(e, ast.Name):
        if e.id in defs.params and e.id not in defs.defs:
            return None
        vals = defs.defs.get(e.id, [])
        if not vals:
            return None
        rs = []
        for v in vals:
            if type(v).__name__ == "_Iter":
                it = v.expr
                if isinstance(it, ast.Call) and call_name(it) in ("range",):
                    rs.append("range index")
                    continue
                rs.append(None)
                continue
            if type(v).__name__ == "_Elem":
                it = v.expr
                inner = it.expr if type(it).__name__ == "_Iter" else it
                if isinstance(inner, ast.Call) and call_name(inner) == "enumerate" and v.index == 0:
                    rs.append("enumerate index")
                    continue
                rs.append(None)
                continue
            if isinstance(v, ast.expr):
                rs.append(_atomic(repo, f, defs, v, depth + 1))
            else:
                rs.append(None)
        if all(rs):
            return rs[0]
        return None
    return None


def _neigh(chunks: List[Chunk], i: int) -> Tuple[str, str]:
    left = right = None
    j = i - 1
    while j >= 0 and left is None:
        c = chunks[j]
        if isinstance(c, Lit):
            t = c.text.rstrip(" \t")
            if t:
                left = t[-1]
                if t != c.text and (t[-1].isalpha()):
                    left = ""  # `if <hole>` : a keyword followed by blank is a boundary, not an operator
        else:
            left = "?"
        j -= 1
    j = i + 1
    while j < len(chunks) and right is None:
        c = chunks[j]
        if isinstance(c, Lit):
            t = c.text.lstrip(" \t")
            if t:
                right = "**" if t.startswith("**") else t[0]
        else:
            right = "?"
        j += 1
    return (left if left is not None else "", right if right is not None else "")


def _ctx_safe(left: str, right: str) -> bool:
    if left == "(" and right == ")":
        return True
    return left in SAFE_LEFT and right in SAFE_RIGHT


def rule_splice(repo: Repo) -> List[Ob]:
    obs = []
    for f in repo.functions:
        if not f.relpath.startswith(SCOPE_PREFIXES) or f.name in DISPLAY_FUNCS:
            continue
        from ..shape import only_reached_from
        if only_reached_from(repo, f, lambda g: g.name in DISPLAY_FUNCS):
            continue          # a private helper of __str__ / print_pretty builds display text, not text that is parsed again
        defs = None
        for n in _top_level_templates(f):
            if defs is None:
                defs = Defs(f.node, f.params()[0] if f.params() else None)
            chunks = template_of(n, defs)
            text_shape = "".join(c.text if isinstance(c, Lit) else "{}" for c in chunks)
            first_lit = next((c.text.strip() for c in chunks if isinstance(c, Lit) and c.text.strip()), "")
            if text_shape.lstrip().startswith("#") or first_lit.startswith("#"):
                continue  # generated comment line
            if all(re.fullmatch(r"[A-Za-z0-9_]*", c.text) for c in chunks if isinstance(c, Lit)):
                continue  # identifier construction (x0, _x1, C3, ind_name): no operator context at all
            for i, c in enumerate(chunks):
                if not isinstance(c, Hole):
                    continue
                key = f"{f.relpath}::{f.qualname}::{text_shape.strip()[:50]}::hole{sum(1 for x in chunks[:i] if isinstance(x, Hole))}"
                elt = c.expr
                if type(elt).__name__ == "_IterOf":
                    elt_for_atomic = None
                else:
                    elt_for_atomic = elt
                why = _atomic(repo, f, defs, elt_for_atomic) if elt_for_atomic is not None else None
                if why is None and isinstance(elt, ast.Name) and elt.id in defs.defs and elt.id not in defs.params \
                        and all(isinstance(v, ast.expr) and is_stringy(v) for v in defs.defs[elt.id]):
                    why = "text accumulator built from templates that are checked on their own"
                if why:
                    obs.append(Ob("C-splice", key, f.relpath, n.lineno, f.qualname, True, f"hole `{src(elt)[:40]}` is a single token ({why})", trivial=True))
                    continue
                l, r = _neigh(chunks, i)
                if c.via_join is not None:
                    sep = c.via_join.strip(" \t")
                    if sep == "":
                        ctxs = [(l, r)]
                    else:
                        sl, sr = sep[-1], ("**" if sep.startswith("**") else sep[0])
                        ctxs = [(l, sr), (sl, sr), (sl, r)]
                else:
                    ctxs = [(l, r)]
                ok = all(_ctx_safe(a, b) for a, b in ctxs)
                bad = [(a, b) for a, b in ctxs if not _ctx_safe(a, b)]
                what = src(elt.expr if type(elt).__name__ == "_IterOf" else elt)[:50]
                obs.append(Ob("C-splice", key, f.relpath, n.lineno, f.qualname, ok,
                              (f"expression hole `{what}` sits in a precedence-safe context {ctxs}") if ok else
                              (f"expression hole `{what}` is spliced between {bad[0][0]!r} and {bad[0][1]!r} without parentheses: "
                               f"a compound value (e.g. `1-p`) re-associates when the text is parsed again"),
                              witness=src(n)[:120]))
    return obs


def mut_splice(repo: Repo) -> List[Mutant]:
    out = []
    cases = [
        ("program/transformer/dist_transformer.py", "f'{a} + ({b} - ({a}))*{new_var}'", "f'{a} + ({b} - {a})*{new_var}'", "_transform_uniform", True),
        ("program/transformer/dist_transformer.py", "f'({denominator}) * {new_var}'", "f'{denominator} * {new_var}'", "_transform_exponential", False),
        ("program/transformer/dist_transformer.py", "f'{normal.mu} + (({normal.sigma2}) ** (1 / 2))*{new_var}'", "f'{normal.mu} + ({normal.sigma2} ** (1 / 2))*{new_var}'", "_transform_normal", False),
        ("program/distribution/normal.py", "f'({self.sigma2}) ** (1/2)'", "f'{self.sigma2} ** (1/2)'", "Normal.get_moment", False),
        ("program/transformer/dist_transformer.py", "f'{laplace.mu} + {new_var}'", "f'{new_var} - -{laplace.mu}'", "_transform_laplace", False),
    ]
    for rp, old, new, key, control in cases:
        ov = text_mutant(repo, rp, old, new)
        if ov is None:
            # unparse may print the f-string with different quotes/spaces: fall back to AST edit below
            continue
        out.append(Mutant(f"unparenthesised:{key}", ov, "fire", key, control=control))
    if not any(m.control for m in out):
        def tr(tree):
            fn = find_def(tree, "DistTransformer._transform_uniform")
            if fn is None:
                return False
            for n in ast.walk(fn):
                if isinstance(n, ast.JoinedStr):
                    for v in n.values:
                        if isinstance(v, ast.Constant) and "(" in str(v.value):
                            v.value = str(v.value).replace("(", "", 1)
                            # drop one closing paren somewhere after
                    lits = [v for v in n.values if isinstance(v, ast.Constant)]
                    for v in reversed(lits):
                        if ")" in str(v.value):
                            v.value = str(v.value).replace(")", "", 1)
                            return True
            return False
        ov = mutate_module(repo, "program/transformer/dist_transformer.py", tr)
        if ov:
            out.append(Mutant("unparenthesised:_transform_uniform", ov, "fire", "_transform_uniform", control=True))
    # benign: f-string -> concatenation with the same parentheses
    ov = text_mutant(repo, "program/transformer/dist_transformer.py", "f'({denominator}) * {new_var}'", "'(' + str(denominator) + ') * ' + new_var")
    if ov:
        out.append(Mutant("benign-concat-spelling", ov, "silent"))
    return out


# ------------------------------------------------------------------ grammar: arithm is re-stringified faithfully (C19)
def parse_lark(text: str) -> Tuple[Dict[str, str], Dict[str, str]]:
    """very small reader: name -> right-hand side text, for rules (lowercase) and terminals (uppercase)."""
    rules, terms = {}, {}
    cur = None
    for raw in text.splitlines():
        line = raw.split("//")[0].rstrip()
        if not line.strip():
            continue
        m = re.match(r"^\s*([?!]?)([A-Za-z_][A-Za-z_0-9]*)(\.\d+)?\s*:\s*(.*)$", line)
        if m and not line.startswith((" ", "\t")) or (m and cur is None):
            name = m.group(2)
            cur = name
            (terms if name.isupper() or name.lstrip("_").isupper() else rules)[name] = m.group(4).strip()
        elif line.strip().startswith("|") and cur is not None:
            d = terms if cur in terms else rules
            d[cur] += " " + line.strip()
        elif line.startswith("%"):
            cur = None
    return rules, terms


def rule_grammar_arithm(repo: Repo) -> List[Ob]:
    obs = []
    text = repo.text("inputparser/syntax.lark")
    rules, terms = parse_lark(text)
    if "arithm" not in rules:
        raise AnalysisError("grammar rule `arithm` not found")
    rhs = rules["arithm"]
    toks = re.findall(r'"[^"]*"|/[^/]+/|[A-Za-z_][A-Za-z_0-9]*', rhs)
    bad = []
    for t in toks:
        if t.startswith('"') or t.startswith("/"):
            bad.append(f"anonymous literal {t} (filtered out of the tree, lost when re-stringified)")
        elif t == "arithm":
            continue
        elif t.isupper() or (t.lstrip("_").isupper()):
            if t.startswith("_"):
                bad.append(f"terminal {t} is filtered out of the tree")
            elif t not in terms:
                bad.append(f"terminal {t} undefined")
        else:
            bad.append(f"sub-rule `{t}` inside arithm is not re-stringified by ArithmeticToStringTransformer")
    obs.append(Ob("C-grammar", "inputparser/syntax.lark::arithm::kept-tokens", "inputparser/syntax.lark", 0, "arithm", not bad,
                  "every symbol of `arithm` is a named terminal that survives into the re-stringified text (parentheses and operators included)"
                  if not bad else "; ".join(bad)))
    # operator terminals denote Python's operators
    want = {"PLUS": "+", "MINUS": "-", "MULT": "*", "DIV": "/", "POW": "**", "BOPEN": "(", "BCLOSE": ")"}
    for t, lit in want.items():
        got = terms.get(t)
        ok = got is not None and got.strip() == f'"{lit}"'
        obs.append(Ob("C-grammar", f"inputparser/syntax.lark::terminal::{t}", "inputparser/syntax.lark", 0, t, ok,
                      f"{t} is the Python operator {lit!r}" if ok else f"terminal {t} is {got!r}, expected \"{lit}\""))
    # the transformer joins all children in order
    f = repo.function("inputparser/arithmetic_transformer.py", "ArithmeticToStringTransformer.arithm")
    params = f.params()
    argp = params[-1]
    defs = Defs(f.node, None)
    rets = [n.value for n in walk_no_nested(f.node) if isinstance(n, ast.Return)]
    ok = False
    why = "no return"
    if len(rets) == 1:
        chunks = template_of(rets[0], defs)
        if len(chunks) == 1 and isinstance(chunks[0], Hole) and chunks[0].via_join == "":
            call = rets[0]
            if isinstance(call, ast.Name):
                call = defs.defs[call.id][0]
            arg = call.args[0]
            if isinstance(arg, (ast.ListComp, ast.GeneratorExp)) and len(arg.generators) == 1:
                g = arg.generators[0]
                elt_ok = (isinstance(arg.elt, ast.Call) and call_name(arg.elt) == "str" and isinstance(arg.elt.args[0], ast.Name)
                          and isinstance(g.target, ast.Name) and arg.elt.args[0].id == g.target.id) or \
                         (isinstance(arg.elt, ast.Name) and isinstance(g.target, ast.Name) and arg.elt.id == g.target.id)
                ok = elt_ok and not g.ifs and isinstance(g.iter, ast.Name) and g.iter.id == argp
                why = "children are filtered, reordered or rewritten before joining"
            elif isinstance(arg, ast.Call) and call_name(arg) == "map" and len(arg.args) == 2 and src(arg.args[0]) == "str" \
                    and isinstance(arg.args[1], ast.Name) and arg.args[1].id == argp:
                ok = True
            else:
                why = f"joined iterable is `{src(arg)[:50]}`"
        else:
            why = f"result is not ''.join(children): {src(rets[0])[:60]}"
    obs.append(Ob("C-grammar", "inputparser/arithmetic_transformer.py::arithm::join", f.relpath, f.node.lineno, f.qualname, ok,
                  "arithm re-stringifies all children in order with the empty separator" if ok else why))
    # Parser must install that transformer
    pf = repo.function("inputparser/parser.py", "Parser.parse_string")
    larks = [(g, c) for g in repo.functions if g.relpath == "inputparser/parser.py" for c in walk_no_nested(g.node) if isinstance(c, ast.Call) and call_name(c) == "Lark"]
    key = "inputparser/parser.py::Parser.parse_string::transformer"
    if not larks:
        obs.append(inconclusive("C-grammar", key, pf.relpath, pf.node.lineno, pf.qualname, "construction of the Lark parser not found in inputparser/parser.py"))
    else:
        bare = [(g, c) for g, c in larks if not any(k.arg == "transformer" and "ArithmeticToStringTransformer" in src(k.value) for k in c.keywords) and not any(k.arg is None for k in c.keywords)]
        obs.append(Ob("C-grammar", key, pf.relpath, (bare or larks)[0][1].lineno, (bare or larks)[0][0].qualname, not bare,
                      "Lark is built with the arithmetic re-stringifier" if not bare else "Lark is not given ArithmeticToStringTransformer"))
    return obs


def mut_grammar_arithm(repo: Repo) -> List[Mutant]:
    out = []
    text = repo.text("inputparser/syntax.lark")
    if "BOPEN arithm BCLOSE" in text:
        out.append(Mutant("anonymous-parentheses", {"inputparser/syntax.lark": text.replace("BOPEN arithm BCLOSE", '"(" arithm ")"')}, "fire",
                          "arithm::kept-tokens", control=True))
    if 'POW: "**"' in text:
        out.append(Mutant("pow-is-caret", {"inputparser/syntax.lark": text.replace('POW: "**"', 'POW: "^"')}, "fire", "terminal::POW"))

    def sep(tree):
        fn = find_def(tree, "ArithmeticToStringTransformer.arithm")
        for n in ast.walk(fn):
            if isinstance(n, ast.Call) and isinstance(n.func, ast.Attribute) and n.func.attr == "join" and isinstance(n.func.value, ast.Constant):
                c = n.args[0]
                if isinstance(c, (ast.ListComp, ast.GeneratorExp)):
                    c.generators[0].iter = ast.parse("reversed(args)").body[0].value
                    return True
        return False
    ov = mutate_module(repo, "inputparser/arithmetic_transformer.py", sep)
    if ov:
        out.append(Mutant("children-reversed", ov, "fire", "arithm::join"))
    return out


# ------------------------------------------------------------------ Bayes name sanitiser (C15)
def _charclass(pattern: str) -> Optional[Tuple[bool, Set[str]]]:
    m = re.fullmatch(r"\[(\^?)((?:[^\]\\]|\\.)+)\]\+?", pattern)
    if not m:
        return None
    neg = bool(m.group(1))
    body = m.group(2)
    chars: Set[str] = set()
    i = 0
    while i < len(body):
        c = body[i]
        if i + 2 < len(body) and body[i + 1] == "-":
            a, b = ord(c), ord(body[i + 2])
            chars |= {chr(x) for x in range(a, b + 1)}
            i += 3
        else:
            chars.add(c)
            i += 1
    return neg, chars


def rule_sanitiser(repo: Repo) -> List[Ob]:
    f = repo.function("bayesnet/code_generator.py", "CodeGenerator.__generate_mapping__")
    obs = []
    ok = False
    msg = "no re.sub sanitiser"
    line = f.node.lineno
    from ..shape import expanded
    fx = expanded(repo, f)           # the renaming loop may live in a helper of the generator
    # re.sub(pattern, repl, subject)  or  COMPILED.sub(repl, subject) with COMPILED = re.compile(pattern) at module / class level
    found = None
    for c in walk_no_nested(fx):
        if not (isinstance(c, ast.Call) and call_name(c) == "sub" and isinstance(c.func, ast.Attribute)):
            continue
        recv = c.func.value
        if isinstance(recv, ast.Name) and recv.id == "re" and len(c.args) >= 3:
            found = (c, c.args[0], c.args[1], c.args[2])
            break
        rname = recv.id if isinstance(recv, ast.Name) else recv.attr if isinstance(recv, ast.Attribute) else None
        if rname and len(c.args) >= 2:
            for body in (f.module.tree.body, f.cls.node.body if f.cls is not None else []):
                for st in body:
                    if isinstance(st, ast.Assign) and isinstance(st.targets[0], ast.Name) and st.targets[0].id == rname \
                            and isinstance(st.value, ast.Call) and call_name(st.value) == "compile" and st.value.args:
                        found = (c, st.value.args[0], c.args[0], c.args[1])
            if found:
                break
    other_filters = [c for c in walk_no_nested(fx) if isinstance(c, ast.Call) and call_name(c) in ("translate", "filter", "isalnum", "isidentifier", "sub", "replace")]
    if found is None and other_filters:
        obs.append(inconclusive("C-sanitiser", "bayesnet/code_generator.py::__generate_mapping__::charclass", f.relpath, other_filters[0].lineno, f.qualname,
                                f"name filtering through `{src(other_filters[0])[:50]}` not recognised"))
    if found is not None:
        c, pat_e, repl_e, subj_e = found
        line = c.lineno
        pat = pat_e.value if isinstance(pat_e, ast.Constant) else None
        repl = repl_e.value if isinstance(repl_e, ast.Constant) else None
        cc = _charclass(pat) if isinstance(pat, str) else None
        lowered = "lower" in src(subj_e)
        # the program grammar: VARIABLE = CNAME = ("_"|LETTER)("_"|LETTER|DIGIT)* ; arithmetic atoms = (NUMBER|"I"|LCASE_LETTER|"_")+
        allowed = set("abcdefghijklmnopqrstuvwxyz0123456789_")
        if cc and cc[0] and repl == "":
            kept = cc[1]
            kept_effective = {ch.lower() for ch in kept} if lowered else kept
            ok = kept_effective <= allowed
            msg = ("sanitiser keeps only [a-z0-9_] (after lower-casing): generated names are single arithmetic atoms" if ok else
                   f"sanitiser lets {sorted(kept_effective - allowed)} through: generated names are not arithmetic atoms of syntax.lark")
        else:
            msg = f"sanitiser pattern {pat!r} is not a negated character class removed from the name"
    if found is not None or not other_filters:
        obs.append(Ob("C-sanitiser", "bayesnet/code_generator.py::__generate_mapping__::charclass", f.relpath, line, f.qualname, ok, msg))
    # names must also be made unique
    ucalls = [c for c in walk_no_nested(fx) if isinstance(c, ast.Call) and call_name(c) == "get_unique_name"]
    uniq = False
    why = "two network variables may collapse to one program variable (no uniqueness step)"
    if ucalls and ucalls[0].args:
        a0 = ucalls[0].args[0]
        # the mapping that receives the result
        stores = [n for n in walk_no_nested(fx) if isinstance(n, ast.Assign) and isinstance(n.targets[0], ast.Subscript)]
        maps = {src(n.targets[0].value) for n in stores}
        uniq = isinstance(a0, ast.Call) and call_name(a0) == "values" and src(a0.func.value) in maps
        why = ("sanitised names are made unique against the program names already given (the values of the mapping)" if uniq else
               f"uniqueness is tested against `{src(a0)}`, not against the program names already given: `rain-y` and `Rainy` both become `rainy` and share one program variable")
    obs.append(Ob("C-sanitiser", "bayesnet/code_generator.py::__generate_mapping__::unique", f.relpath, ucalls[0].lineno if ucalls else f.node.lineno, f.qualname, uniq, why))
    # generated names are also kept clear of the names the CAS reads as constants (e, pi, oo): the program parser refuses them as
    # variables (and before it did, `e == 1` silently spoke about Euler's number)
    const_tests = [x for x in walk_no_nested(fx) if (isinstance(x, ast.Attribute) and x.attr in ("is_Symbol", "is_symbol")) or
                   (isinstance(x, ast.Compare) and len(x.ops) == 1 and isinstance(x.ops[0], (ast.In, ast.NotIn)) and re.search(r"(?i)reserved|constant|keyword", src(x.comparators[0])))]
    keyc = "bayesnet/code_generator.py::__generate_mapping__::constants"
    if const_tests:
        obs.append(Ob("C-sanitiser", keyc, f.relpath, const_tests[0].lineno, f.qualname, True, "sanitised names that the CAS reads as constants are altered before use"))
    else:
        obs.append(Ob("C-sanitiser", keyc, f.relpath, line, f.qualname, False,
                      "sanitised names are not tested against the constants of the CAS: a network variable `E` becomes the program variable `e`, which the program parser refuses "
                      "(it denotes Euler's number in every right-hand side and condition)"))
    # query helper names are made unique against the same program names
    for rp2 in ("bayesnet/query/exact_inference_query.py", "bayesnet/query/sampling_time_query.py"):
        for g in [x for x in repo.functions if x.relpath == rp2]:
            for c in walk_no_nested(g.node):
                if isinstance(c, ast.Call) and call_name(c) == "get_unique_name" and c.args:
                    a0 = c.args[0]
                    ok = isinstance(a0, ast.Call) and call_name(a0) == "values"
                    obs.append(Ob("C-sanitiser", f"{rp2}::{g.qualname}::unique::{src(c.args[1])[:30] if len(c.args) > 1 else ''}", rp2, c.lineno, g.qualname, ok,
                                  "auxiliary query variable is made unique against the program names" if ok else f"auxiliary name is checked against `{src(a0)}` instead of the program names"))
    return obs


def mut_sanitiser(repo: Repo) -> List[Mutant]:
    out = []

    def widen(tree):
        fn = find_def(tree, "CodeGenerator.__generate_mapping__")
        for c in ast.walk(fn):
            if isinstance(c, ast.Call) and call_name(c) == "sub" and len(c.args) >= 3:
                c.args[0] = ast.Constant(value="[^A-Za-z0-9_\\-]+")
                return True
        return False
    ov = mutate_module(repo, "bayesnet/code_generator.py", widen)
    if ov:
        out.append(Mutant("sanitiser-keeps-dash", ov, "fire", "__generate_mapping__::charclass", control=True))

    def keys_not_values(tree):
        fn = find_def(tree, "CodeGenerator.__generate_mapping__")
        for c in ast.walk(fn):
            if isinstance(c, ast.Call) and call_name(c) == "get_unique_name" and isinstance(c.args[0], ast.Call):
                c.args[0] = c.args[0].func.value
                return True
        return False
    ov = mutate_module(repo, "bayesnet/code_generator.py", keys_not_values)
    if ov:
        out.append(Mutant("unique-against-original-names", ov, "fire", "__generate_mapping__::unique"))

    def nolower(tree):
        fn = find_def(tree, "CodeGenerator.__generate_mapping__")
        for c in ast.walk(fn):
            if isinstance(c, ast.Call) and call_name(c) == "sub" and len(c.args) >= 3:
                c.args[2] = ast.Name(id="varname", ctx=ast.Load())
                return True
        return False
    ov = mutate_module(repo, "bayesnet/code_generator.py", nolower)
    if ov:
        out.append(Mutant("sanitiser-keeps-uppercase", ov, "fire", "__generate_mapping__::charclass"))
    return out


RULES = {
    "SPLICE": Rule("C-splice", rule_splice, 20, "every expression-valued hole of a text template that is parsed again is parenthesised or sits between precedence-safe neighbours", mut_splice),
    "GRAMMAR": Rule("C-grammar", rule_grammar_arithm, 10, "arithmetic sub-trees are re-stringified token by token (named terminals only, ordered join) so the CAS applies Python precedence", mut_grammar_arithm),
    "SANITISER": Rule("C-sanitiser", rule_sanitiser, 5, "Bayes-network variable names are reduced to arithmetic atoms of the program grammar and kept unique", mut_sanitiser),
}
