"""C15: Bayesian-network import (CPT assembly) and code generation obligations."""
import ast
import re
from typing import Dict, List, Optional, Set, Tuple

from ..model import Repo, FunctionInfo, AnalysisError, walk_no_nested, src, is_self_attr, call_name, dotted, parent, enclosing_stmt
from ..core import Ob, Rule, Mutant, mutate_module, find_def, replace_node, inconclusive
from ..ratfun import Normalizer, RF, Poly
from ..dataflow import Defs
from ..cfg import cfg_of
from .validate import node_for, raise_guards_before, controlling_tests

TR = "bayesnet/transformer.py"
CG = "bayesnet/code_generator.py"


def rule_cpt(repo: Repo) -> List[Ob]:
    obs = []
    cls = repo.cls("NetworkTransformer", TR)
    writers = []
    for m in cls.all_methods:
        for c in walk_no_nested(m.node):
            if isinstance(c, ast.Call) and call_name(c) in ("cpt_init", "cpt_set_entry"):
                writers.append((m, c))
    if len(writers) < 3:
        raise AnalysisError(f"only {len(writers)} CPT writer sites found")
    for m, w in writers:
        c = cfg_of(m.node)
        sink = node_for(c, w)
        row = w.args[-1]
        defs = Defs(m.node, m.params()[0])
        rroots = defs.roots(row)
        guards = [t for t in c.nodes if t.kind == "test" and "cpt_entry_sum_valid" in src(t.ast)]
        valid_guards = []
        for t, lab in c.raise_guards():
            if "cpt_entry_sum_valid" in src(t.ast):
                valid_guards.append(t)
        # paths to the sink that avoid every validity guard must pass through the NaN placeholder row
        nan_nodes = {n for n in c.nodes if n.kind == "stmt" and n.ast is not None and "NaN" in src(n.ast)}
        avoid = set(valid_guards) | nan_nodes
        bypass = c.reachable(c.entry, sink, avoid=avoid) if sink not in avoid else False
        # the validated tuple is the one written
        same_row = False
        for t in valid_guards:
            for call in ast.walk(t.ast):
                if isinstance(call, ast.Call) and call_name(call) == "cpt_entry_sum_valid" and call.args:
                    a = call.args[0]
                    if src(a) == src(row) or (defs.roots(a) & rroots & {r for r in rroots if r.startswith(("param:", "name:"))}) or \
                            (isinstance(row, ast.Call) and call_name(row) == "tuple" and row.args and src(row.args[0]) == src(a)):
                        same_row = True
        ok = bool(valid_guards) and not bypass and same_row
        obs.append(Ob("E-cpt", f"{TR}::{m.qualname}::{call_name(w)}::row-sum", TR, w.lineno, m.qualname, ok,
                      f"`{src(w)[:50]}` is reached only after the row passed the row-sum check (or is the NaN placeholder)" if ok else
                      f"`{src(w)[:50]}` can be reached with a row that was not checked to sum to 1 within the tolerance"))
    # assembly order: default -> table -> entries -> completeness
    add = cls.methods.get("__add_cpt__")
    if add is None:
        raise AnalysisError("__add_cpt__ not found")
    from ..shape import expanded
    addx = expanded(repo, add, keep=("__add_default__", "__add_table__", "__add_entry__"))
    c = cfg_of(addx)

    def first_call(name):
        for x in walk_no_nested(addx):
            if isinstance(x, ast.Call) and call_name(x) == name:
                return x
        return None
    d, t, e, nan = first_call("__add_default__"), first_call("__add_table__"), first_call("__add_entry__"), first_call("cpt_has_nan")
    ok = all(x is not None for x in (d, t, e, nan))
    if ok:
        nd, nt, ne, nn = (node_for(c, x) for x in (d, t, e, nan))
        ok = c.dominates(nd, nt) and c.dominates(nt, ne) and c.dominates(nt, nn) and not c.reachable(nn, ne) and not c.reachable(nt, nd)
        raises = any(tt is nn for tt, lab in c.raise_guards())
        ok = ok and raises and c.postdominates(nn, nt)
    obs.append(Ob("E-cpt", f"{TR}::NetworkTransformer.__add_cpt__::order", TR, add.node.lineno, add.qualname, ok,
                  "rows are filled default -> table -> entries (later notations overwrite earlier ones) and completeness is checked last, raising on NaN" if ok else
                  "CPT assembly order default -> table -> entries -> NaN check is broken"))
    # table layout: own value slowest, parents in product order
    tb = cls.methods.get("__add_table__")
    verdict, msg = None, "table indexing not recognised"
    if tb is not None:
        defs = Defs(tb.node, tb.params()[0])
        tparam = tb.params()[-1]
        subs = [x for x in ast.walk(tb.node) if isinstance(x, ast.Subscript) and isinstance(x.value, ast.Name) and x.value.id == tparam and isinstance(x.slice, ast.BinOp)]
        loops = [n for n in walk_no_nested(tb.node) if isinstance(n, ast.For)]
        rowvar = None
        for l in loops:
            if isinstance(l.iter, ast.Call) and call_name(l.iter) == "enumerate" and "product(" in src(l.iter) and isinstance(l.target, ast.Tuple) and isinstance(l.target.elts[0], ast.Name):
                rowvar = l.target.elts[0].id
        if subs and rowvar:
            nz = Normalizer()
            try:
                idx = nz(subs[0].slice)
                names = {n.id for n in ast.walk(subs[0].slice) if isinstance(n, ast.Name)} - {rowvar}
                # the other loop variable (value position) and the two sizes
                size_names = [nm for nm in names if any(isinstance(v, ast.expr) and ("reduce(" in src(v) or "prod(" in src(v)) for v in defs.defs.get(nm, []))]
                val_names = [nm for nm in names if nm not in size_names]
                if len(size_names) == 1 and len(val_names) == 1:
                    R_, I_, N_ = RF(Poly.atom(rowvar)), RF(Poly.atom(val_names[0])), RF(Poly.atom(size_names[0]))
                    if idx.equiv(R_ + I_ * N_):
                        verdict, msg = True, "table entry for (row, value i) is table[row + i * rows]: own value varies slowest, parent combinations in product order"
                    else:
                        verdict, msg = False, f"table index `{src(subs[0].slice)}` is not row + i * (number of rows): the flat table is read in the wrong order"
                elif len(names) == 2 and not size_names:
                    # row * domain_size + i : transposed layout
                    if any(isinstance(x, ast.Attribute) and x.attr == "domain_size" for x in ast.walk(subs[0].slice)):
                        verdict, msg = False, f"table index `{src(subs[0].slice)}` uses the domain size as stride: values of one row are read as adjacent although the BIF table lists the own value slowest"
            except AnalysisError:
                pass
    if verdict is None:
        obs.append(inconclusive("E-cpt", f"{TR}::NetworkTransformer.__add_table__::layout", TR, tb.node.lineno if tb else 0, "NetworkTransformer.__add_table__", msg))
    else:
        obs.append(Ob("E-cpt", f"{TR}::NetworkTransformer.__add_table__::layout", TR, tb.node.lineno, "NetworkTransformer.__add_table__", verdict, msg))
    # the tolerance predicate itself
    net = repo.function("bayesnet/bayes_network.py", "BayesNetwork.cpt_entry_sum_valid")
    rets = [r.value for r in walk_no_nested(net.node) if isinstance(r, ast.Return)]
    verdict, msg = None, "row validity predicate not recognised"
    if len(rets) == 1 and isinstance(rets[0], ast.Compare) and len(rets[0].ops) == 1:
        c0 = rets[0]
        l, r_, o = c0.left, c0.comparators[0], c0.ops[0]
        if isinstance(o, (ast.Gt, ast.GtE)):
            l, r_ = r_, l
        if isinstance(l, ast.Call) and call_name(l) == "abs" and l.args:
            nz = Normalizer(attr_cb=lambda a: None)
            try:
                d = nz(l.args[0])
                p_ = net.params()[1]
                want = nz(ast.parse(f"1 - sum({p_})").body[0].value)
                if (d.equiv(want) or d.equiv(-want)) and "tolerance" in src(r_):
                    verdict, msg = True, "a row is valid iff |1 - sum| < tolerance"
                elif "tolerance" in src(r_):
                    verdict, msg = False, f"row validity compares `{src(l.args[0])}` with the tolerance, not |1 - sum(row)|"
            except AnalysisError:
                pass
        elif "tolerance" in src(l) and isinstance(r_, ast.Call) and call_name(r_) == "abs":
            verdict, msg = False, "row validity accepts rows whose deviation from 1 EXCEEDS the tolerance"
    if verdict is None:
        obs.append(inconclusive("E-cpt", "bayesnet/bayes_network.py::BayesNetwork.cpt_entry_sum_valid::predicate", net.relpath, net.node.lineno, net.qualname, msg))
    else:
        obs.append(Ob("E-cpt", "bayesnet/bayes_network.py::BayesNetwork.cpt_entry_sum_valid::predicate", net.relpath, net.node.lineno, net.qualname, verdict, msg))
    return obs


def mut_cpt(repo: Repo) -> List[Mutant]:
    out = []

    def drop_entry_check(tree):
        fn = find_def(tree, "NetworkTransformer.__add_entry__")
        for n in ast.walk(fn):
            if isinstance(n, ast.If):
                # walk the elif chain
                cur = n
                while isinstance(cur, ast.If):
                    if "cpt_entry_sum_valid" in src(cur.test):
                        cur.test = ast.Constant(value=False)
                        return True
                    cur = cur.orelse[0] if cur.orelse and isinstance(cur.orelse[0], ast.If) else None
        return False
    ov = mutate_module(repo, TR, drop_entry_check)
    if ov:
        out.append(Mutant("entry-sum-unchecked", ov, "fire", "__add_entry__::cpt_set_entry::row-sum", control=True))

    def table_unchecked(tree):
        fn = find_def(tree, "NetworkTransformer.__add_table__")
        for n in ast.walk(fn):
            if isinstance(n, ast.If) and "cpt_entry_sum_valid" in src(n.test):
                return replace_node(fn, n, ast.Pass())
        return False
    ov = mutate_module(repo, TR, table_unchecked)
    if ov:
        out.append(Mutant("table-sum-unchecked", ov, "fire", "__add_table__::cpt_set_entry::row-sum"))

    def entries_first(tree):
        fn = find_def(tree, "NetworkTransformer.__add_cpt__")
        idx = {}
        for i, st in enumerate(fn.body):
            s = src(st)
            if "__add_table__" in s:
                idx["t"] = i
            if "__add_entry__" in s:
                idx["e"] = i
        if len(idx) == 2:
            fn.body[idx["t"]], fn.body[idx["e"]] = fn.body[idx["e"]], fn.body[idx["t"]]
            return True
        return False
    ov = mutate_module(repo, TR, entries_first)
    if ov:
        out.append(Mutant("entries-before-table", ov, "fire", "__add_cpt__::order"))

    def no_nan(tree):
        fn = find_def(tree, "NetworkTransformer.__add_cpt__")
        for n in ast.walk(fn):
            if isinstance(n, ast.If) and "cpt_has_nan" in src(n.test):
                return replace_node(fn, n, ast.Pass())
        return False
    ov = mutate_module(repo, TR, no_nan)
    if ov:
        out.append(Mutant("no-completeness-check", ov, "fire", "__add_cpt__::order"))
    return out


def _nearest_defs(defs: Defs, name: str, line: int):
    """definitions of `name` by the closest preceding binding statement (straight-line approximation)"""
    vals = defs.defs.get(name, [])
    sites = defs.def_sites.get(name, [])
    if len(vals) != len(sites):
        return vals
    before = [(getattr(st, "lineno", 0), v) for st, v in zip(sites, vals) if getattr(st, "lineno", 0) <= line]
    if not before:
        return vals
    best = max(l for l, _ in before)
    return [v for l, v in before if l == best]


def _slice_of(defs: Defs, e, line: int, depth=0) -> Optional[str]:
    """the subscript index through which `e` was selected from a parallel structure"""
    if depth > 6:
        return None
    if isinstance(e, ast.Subscript):
        sl = e.slice
        if isinstance(sl, ast.Name) and sl.id in defs.defs and sl.id not in defs.params:
            inner = None
            for v in _nearest_defs(defs, sl.id, line):
                if isinstance(v, ast.expr):
                    inner = _slice_of(defs, v, getattr(v, "lineno", line), depth + 1)
            if inner is not None:
                return inner
        return src(sl)
    if isinstance(e, ast.Attribute):
        return _slice_of(defs, e.value, line, depth + 1)
    if isinstance(e, ast.Name) and e.id in defs.defs:
        outs = set()
        for v in _nearest_defs(defs, e.id, line):
            if type(v).__name__ == "_Elem":
                outs.add(_slice_of(defs, v.expr, line, depth + 1))
            elif isinstance(v, ast.expr):
                outs.add(_slice_of(defs, v, getattr(v, "lineno", line), depth + 1))
        if len(outs) == 1:
            return outs.pop()
    return None


def rule_codegen(repo: Repo) -> List[Ob]:
    obs = []
    gen = repo.cls("CodeGenerator", CG)
    # variables are emitted in topological order
    lp = gen.methods.get("__generate_loop__")
    if lp is None:
        raise AnalysisError("__generate_loop__ not found")
    from ..shape import expanded
    loops = [n for n in walk_no_nested(expanded(repo, lp)) if isinstance(n, ast.For)]
    ok = any("__topological_sort__" in src(l.iter) and "__generate_variable__" in src(l) for l in loops)
    obs.append(Ob("E-codegen", f"{CG}::CodeGenerator.__generate_loop__::topological", CG, lp.node.lineno, lp.qualname, ok,
                  "variables are drawn in topological order (parents before children)" if ok else "variables are not emitted in topological order: a child may be drawn from stale parent values"))
    ts = gen.methods.get("__topological_sort__")
    ok = ts is not None and any(isinstance(n, ast.Assert) and "len(" in src(n.test) for n in walk_no_nested(ts.node))
    if ok:
        obs.append(Ob("E-codegen", f"{CG}::CodeGenerator.__topological_sort__::complete", CG, ts.node.lineno, "CodeGenerator.__topological_sort__", True,
                      "the sort asserts that every variable was placed (cycles are refused)"))
    else:
        obs.append(inconclusive("E-codegen", f"{CG}::CodeGenerator.__topological_sort__::complete", CG, ts.node.lineno if ts else 0, "CodeGenerator.__topological_sort__", "completeness assertion of the sort not recognised"))
    # value numbering: every value -> number conversion is <variable>.domain.index(value), paired with the same variable's name
    sites = 0
    for rp in (CG, "bayesnet/query/exact_inference_query.py", "bayesnet/query/sampling_time_query.py"):
        for f in [x for x in repo.functions if x.relpath == rp]:
            defs = None
            for c in walk_no_nested(f.node):
                if isinstance(c, ast.Call) and call_name(c) == "index" and isinstance(c.func, ast.Attribute):
                    sites += 1
                    if defs is None:
                        defs = Defs(f.node, f.params()[0])
                    recv = c.func.value
                    is_dom = isinstance(recv, ast.Attribute) and recv.attr == "domain"
                    a = c.args[0] if c.args else None
                    sv = _slice_of(defs, recv.value if is_dom else recv, c.lineno)
                    sa = _slice_of(defs, a, c.lineno) if a is not None else None
                    paired = sv is not None and sv == sa
                    if not paired and is_dom:
                        # evidence pairs: (var, val) unpacked from one tuple
                        vnames = {n.id for n in ast.walk(recv) if isinstance(n, ast.Name)}
                        for nm in list(vnames):
                            for v in defs.defs.get(nm, []):
                                vnames |= {n.id for n in ast.walk(v) if isinstance(n, ast.Name)} if isinstance(v, ast.expr) else set()
                        an = a.id if isinstance(a, ast.Name) else None
                        for nm in vnames:
                            for v in defs.defs.get(nm, []):
                                if type(v).__name__ == "_Elem" and an:
                                    for w in defs.defs.get(an, []):
                                        if type(w).__name__ == "_Elem" and w.expr is v.expr and w.index != v.index:
                                            paired = True
                    ok = is_dom and paired
                    obs.append(Ob("E-codegen", f"{rp}::{f.qualname}::numbering::{src(c)[:40]}", rp, c.lineno, f.qualname, ok,
                                  f"value `{src(a)}` is numbered by its position in the domain of the variable it belongs to" if ok else
                                  f"`{src(c)[:60]}`: the value is not looked up in the domain of its own variable (variable index {sv!r}, value index {sa!r})"))
    if sites == 0:
        obs.append(inconclusive("E-codegen", f"{CG}::numbering", CG, 0, "CodeGenerator", "no `<variable>.domain.index(value)` site recognised"))
    # categorical assignment: value i is emitted with probability cpt[comb][i]
    ga = gen.methods.get("__generate_assignment__")
    verdict, msg = None, "pairing of value and probability in the generated choice not recognised"
    if ga is not None:
        cpts = [x for x in ast.walk(ga.node) if isinstance(x, ast.Subscript) and isinstance(x.value, ast.Subscript) and isinstance(x.value.value, ast.Attribute) and x.value.value.attr == "cpt"]
        if cpts:
            pidx = src(cpts[0].slice)
            # the value emitted next to it: str(<idx>) / format argument in the same expression statement
            st = enclosing_stmt(cpts[0])
            nums = [src(x.args[0]) for x in ast.walk(st) if isinstance(x, ast.Call) and isinstance(x.func, ast.Name) and x.func.id == "str" and x.args and x.args[0] is not cpts[0]
                    and not any(y is cpts[0] for y in ast.walk(x))]
            fmt = [src(a) for x in ast.walk(st) if isinstance(x, ast.Call) and call_name(x) == "format" for a in x.args if not any(y is cpts[0] for y in ast.walk(a))]
            cands = nums + fmt
            if cands:
                if pidx in cands:
                    verdict, msg = True, "value i is emitted with probability cpt[comb][i]; the last value takes the remainder"
                else:
                    verdict, msg = False, f"the generated choice pairs value `{cands[0]}` with probability cpt[comb][{pidx}]"
    if verdict is None:
        obs.append(inconclusive("E-codegen", f"{CG}::CodeGenerator.__generate_assignment__::enumeration", CG, ga.node.lineno if ga else 0, "CodeGenerator.__generate_assignment__", msg))
    else:
        obs.append(Ob("E-codegen", f"{CG}::CodeGenerator.__generate_assignment__::enumeration", CG, ga.node.lineno, "CodeGenerator.__generate_assignment__", verdict, msg))
    # one branch per parent combination, each assigning from the row of that combination
    gv = gen.methods.get("__generate_variable__")
    verdict, msg = None, "branch generation not recognised"
    if gv is not None:
        loops = [n for n in walk_no_nested(gv.node) if isinstance(n, ast.For) and "product(" in src(n.iter)]
        if loops:
            l = loops[0]
            tnames = [x.id for x in ast.walk(l.target) if isinstance(x, ast.Name)]
            comb = tnames[-1] if tnames else None
            calls = [c for c in ast.walk(l) if isinstance(c, ast.Call) and call_name(c) == "__generate_assignment__" and len(c.args) == 2]
            condcalls = [c for c in ast.walk(l) if isinstance(c, ast.Call) and call_name(c) == "__generate_condition__" and len(c.args) >= 2]
            if calls and condcalls and comb:
                same = src(calls[0].args[1]) == comb and src(condcalls[0].args[1]) == comb
                verdict = True if same else False
                msg = "one branch per parent combination in product order, each assigning from the row of that combination" if same else \
                    f"the branch condition is generated for `{src(condcalls[0].args[1])}` but the assignment for `{src(calls[0].args[1])}`"
    if verdict is None:
        obs.append(inconclusive("E-codegen", f"{CG}::CodeGenerator.__generate_variable__::branches", CG, gv.node.lineno if gv else 0, "CodeGenerator.__generate_variable__", msg))
    else:
        obs.append(Ob("E-codegen", f"{CG}::CodeGenerator.__generate_variable__::branches", CG, gv.node.lineno, "CodeGenerator.__generate_variable__", verdict, msg))
    return obs


def mut_codegen(repo: Repo) -> List[Mutant]:
    out = []

    def no_topo(tree):
        fn = find_def(tree, "CodeGenerator.__generate_loop__")
        for n in ast.walk(fn):
            if isinstance(n, ast.For) and "__topological_sort__" in src(n.iter):
                n.iter = n.iter.args[0]
                return True
        return False
    ov = mutate_module(repo, CG, no_topo)
    if ov:
        out.append(Mutant("declaration-order", ov, "fire", "__generate_loop__::topological", control=True))

    def wrong_parent(tree):
        fn = find_def(tree, "CodeGenerator.__generate_condition__")
        for c in ast.walk(fn):
            if isinstance(c, ast.Call) and call_name(c) == "index" and "parents[i]" in src(c):
                c.args[0] = ast.parse("comb[i + 1]").body[0].value
                return True
        return False
    ov = mutate_module(repo, CG, wrong_parent)
    if ov:
        out.append(Mutant("value-of-next-parent", ov, "fire", "__generate_condition__::numbering"))

    def wrong_row(tree):
        fn = find_def(tree, "CodeGenerator.__generate_assignment__")
        for n in ast.walk(fn):
            if isinstance(n, ast.Subscript) and src(n) == "var.cpt[comb][i]":
                n.slice = ast.parse("i + 1").body[0].value
                return True
        return False
    ov = mutate_module(repo, CG, wrong_row)
    if ov:
        out.append(Mutant("probability-of-next-value", ov, "fire", "__generate_assignment__::enumeration"))
    return out


RULES = {
    "CPT": Rule("E-cpt", rule_cpt, 5, "every CPT row is written only after the row-sum check; default -> table -> entries -> completeness order; table layout", mut_cpt),
    "CODEGEN": Rule("E-codegen", rule_codegen, 6, "generated loop draws variables in topological order, numbers values by domain position of their own variable, pairs value i with cpt row entry i", mut_codegen, soft=True),
}
