"""Rules for the exponent-lattice / lattice-ideal code (C06, C07, C16): shared mutable rows, the
universal guard of the "trivially empty" shortcut, mechanisms that can never be entered, and the
dimension of the norm that is compared with the Faccin bound."""
import ast
from typing import Dict, List, Optional, Set, Tuple

from ..model import Repo, ClassInfo, FunctionInfo, AnalysisError, walk_no_nested, src, is_self_attr, call_name, dotted, parent, \
    ancestors, enclosing_stmt
from ..core import Ob, Rule, Mutant, mutate_module, find_def, replace_node, text_mutant, inconclusive
from ..dataflow import Defs
from ..cfg import cfg_of
from ..shape import resolve_alias, conjuncts
from .validate import controlling_tests, node_for

SCOPE = ("invariants/", "utils/expressions.py", "utils/algebraic_numbers.py")
MUTATORS = {"append", "add", "update", "extend", "insert", "remove", "discard", "pop", "clear", "setdefault", "sort", "reverse"}


def _is_mutable_display(e) -> bool:
    if isinstance(e, (ast.List, ast.Dict, ast.Set, ast.ListComp, ast.DictComp, ast.SetComp)):
        return True
    if isinstance(e, ast.BinOp) and isinstance(e.op, ast.Mult) and (isinstance(e.left, ast.List) or isinstance(e.right, ast.List)):
        return True
    if isinstance(e, ast.Call) and isinstance(e.func, ast.Name) and e.func.id in ("list", "dict", "set", "defaultdict", "bytearray"):
        return True
    return False


def _enclosing_scopes(n) -> List[ast.AST]:
    """loops and function bodies around n, innermost first"""
    return [a for a in ancestors(n) if isinstance(a, (ast.For, ast.While, ast.FunctionDef, ast.AsyncFunctionDef, ast.Lambda,
                                                      ast.ListComp, ast.SetComp, ast.DictComp, ast.GeneratorExp))]


# ------------------------------------------------------------------ one row object per key
def rule_aliasing(repo: Repo) -> List[Ob]:
    """`d.setdefault(k, ROW)` / `dict.fromkeys(keys, ROW)` / `[ROW] * n` where ROW is one mutable object created outside
    the loop that distributes it, and the distributed object is then written through: every key shares one row."""
    obs = []
    n_sites = 0
    for f in repo.functions:
        if not f.relpath.startswith(SCOPE):
            continue
        for c in ast.walk(f.node):
            site = None
            if isinstance(c, ast.Call) and call_name(c) == "setdefault" and len(c.args) == 2:
                site = ("setdefault", c, c.args[1])
            elif isinstance(c, ast.Call) and call_name(c) == "fromkeys" and len(c.args) == 2:
                site = ("fromkeys", c, c.args[1])
            elif isinstance(c, ast.BinOp) and isinstance(c.op, ast.Mult) and isinstance(c.left, ast.List) and len(c.left.elts) == 1 \
                    and (isinstance(c.left.elts[0], (ast.List, ast.Dict, ast.Set, ast.ListComp)) or isinstance(c.left.elts[0], ast.Name)):
                site = ("list-multiplication", c, c.left.elts[0])
            if site is None:
                continue
            kind, node, default = site
            n_sites += 1
            key = f"{f.relpath}::{f.qualname}::{kind}::{src(node)[:40]}"
            shared = None      # the one object every key receives
            if kind == "setdefault":
                if isinstance(default, ast.Name):
                    # a name: shared iff it is bound to a mutable display outside the innermost loop/function around the call
                    owner = None
                    for a in ancestors(node):
                        if isinstance(a, (ast.FunctionDef, ast.AsyncFunctionDef)):
                            for st in ast.walk(a):
                                if isinstance(st, ast.Assign) and any(isinstance(t, ast.Name) and t.id == default.id for t in st.targets):
                                    owner = st
                            if owner is not None:
                                break
                    if owner is not None and _is_mutable_display(owner.value):
                        call_scopes = _enclosing_scopes(node)
                        own_scopes = _enclosing_scopes(owner)
                        # created in the same innermost loop iteration / call as the distribution -> a fresh object per key
                        fresh = bool(call_scopes) and bool(own_scopes) and call_scopes[0] is own_scopes[0] and isinstance(call_scopes[0], (ast.For, ast.While))
                        if not fresh and (len(call_scopes) > len(own_scopes) or call_scopes[0] is not own_scopes[0]):
                            shared = src(owner)
                # a display written in place is evaluated per call: fresh
            elif kind == "fromkeys":
                if _is_mutable_display(default):
                    shared = src(default)
            else:
                if not isinstance(default, ast.Name) or True:
                    shared = src(default) if not isinstance(default, ast.Name) else None
                    if isinstance(default, ast.Name):
                        defs = Defs(f.node, None)
                        vals = [v for v in defs.defs.get(default.id, []) if isinstance(v, ast.expr)]
                        if vals and all(_is_mutable_display(v) for v in vals):
                            shared = src(vals[0])
            if shared is None:
                obs.append(Ob("G4-aliasing", key, f.relpath, node.lineno, f.qualname, True, f"{kind}: every key receives its own object", trivial=True))
                continue
            # is the distributed object written through?
            written = False
            p = parent(node)
            if kind == "setdefault":
                if isinstance(p, ast.Subscript) and isinstance(p.ctx, ast.Store):
                    written = True
                if isinstance(p, ast.Attribute) and p.attr in MUTATORS:
                    written = True
            if not written:
                # the container (or the looked-up row) is item-assigned elsewhere in the function: d[k][i] = v
                holder = None
                if kind == "setdefault" and isinstance(node.func, ast.Attribute):
                    holder = src(node.func.value)
                else:
                    st = enclosing_stmt(node)
                    if isinstance(st, ast.Assign):
                        holder = src(st.targets[0])
                if holder:
                    top = next((a for a in reversed(list(ancestors(node))) if isinstance(a, (ast.FunctionDef, ast.AsyncFunctionDef))), f.node)
                    for x in ast.walk(top):
                        if isinstance(x, ast.Subscript) and isinstance(x.ctx, ast.Store) and isinstance(x.value, ast.Subscript) and src(x.value.value) == holder:
                            written = True
                        if isinstance(x, ast.Call) and isinstance(x.func, ast.Attribute) and x.func.attr in MUTATORS and isinstance(x.func.value, ast.Subscript) \
                                and src(x.func.value.value) == holder:
                            written = True
            if written:
                obs.append(Ob("G4-aliasing", key, f.relpath, node.lineno, f.qualname, False,
                              f"{kind} hands the one object `{shared[:50]}` to every key and the rows are then written through: all keys share a single row"))
            else:
                obs.append(inconclusive("G4-aliasing", key, f.relpath, node.lineno, f.qualname, f"{kind} shares `{shared[:40]}` between keys; no write through a row was recognised"))
    # the table of multiplicities must hold one row per factor: creation site of the rows
    f = repo.function("invariants/exponent_lattice.py", "ExponentLattice.compute_basis_rational")
    rows = []
    for x in ast.walk(f.node):
        if isinstance(x, ast.Subscript) and isinstance(x.ctx, ast.Store) and isinstance(x.value, ast.Subscript):
            rows.append(x)
    if rows:
        holder = src(rows[0].value.value)
        creators = []
        for x in ast.walk(f.node):
            if isinstance(x, ast.Assign) and isinstance(x.targets[0], ast.Subscript) and src(x.targets[0].value) == holder:
                creators.append(x.value)
            if isinstance(x, ast.Call) and call_name(x) == "setdefault" and isinstance(x.func, ast.Attribute) and src(x.func.value) == holder and len(x.args) == 2:
                creators.append(x.args[1])
        fresh = [c for c in creators if _is_mutable_display(c)]
        key = "invariants/exponent_lattice.py::ExponentLattice.compute_basis_rational::row-per-factor"
        if creators and len(fresh) == len(creators):
            obs.append(Ob("G4-aliasing", key, f.relpath, rows[0].lineno, f.qualname, True, f"every factor gets a freshly built multiplicity row in `{holder}`"))
        elif creators:
            bad = [c for c in creators if not _is_mutable_display(c)]
            shared_name = isinstance(bad[0], ast.Name)
            if shared_name:
                obs.append(Ob("G4-aliasing", key, f.relpath, rows[0].lineno, f.qualname, False,
                              f"rows of `{holder}` are the one object `{src(bad[0])}`: the multiplicities of all factors are written into the same list, the linear system collapses to one equation"))
            else:
                obs.append(inconclusive("G4-aliasing", key, f.relpath, rows[0].lineno, f.qualname, f"row creation `{src(bad[0])[:40]}` not recognised"))
        else:
            obs.append(inconclusive("G4-aliasing", key, f.relpath, rows[0].lineno, f.qualname, "creation of the multiplicity rows not found"))
    return obs


def mut_aliasing(repo: Repo) -> List[Mutant]:
    out = []

    def share(tree):
        fn = find_def(tree, "ExponentLattice.compute_basis_rational")
        inner = next((n for n in ast.walk(fn) if isinstance(n, ast.FunctionDef) and n is not fn), None)
        if inner is None:
            return False
        idx = fn.body.index(inner)
        fn.body.insert(idx, ast.parse("no_multiplicities = [0] * len(self.bases)").body[0])
        loop = next(n for n in ast.walk(inner) if isinstance(n, ast.For))
        loop.body = [ast.parse("factors_to_multiplicities.setdefault(f, no_multiplicities)[i] = m").body[0]]
        return True
    ov = mutate_module(repo, "invariants/exponent_lattice.py", share)
    if ov:
        out.append(Mutant("one-row-for-all-factors", ov, "fire", "compute_basis_rational", control=True))

    def fresh(tree):
        fn = find_def(tree, "ExponentLattice.compute_basis_rational")
        inner = next((n for n in ast.walk(fn) if isinstance(n, ast.FunctionDef) and n is not fn), None)
        if inner is None:
            return False
        loop = next(n for n in ast.walk(inner) if isinstance(n, ast.For))
        loop.body = [ast.parse("factors_to_multiplicities.setdefault(f, [0] * len(self.bases))[i] = m").body[0]]
        return True
    ov = mutate_module(repo, "invariants/exponent_lattice.py", fresh)
    if ov:
        out.append(Mutant("benign-setdefault-with-fresh-row", ov, "silent"))
    return out


# ------------------------------------------------------------------ the "no relations" shortcut holds for rational bases only
def rule_trivial_shortcut(repo: Repo) -> List[Ob]:
    f = repo.function("invariants/exponent_lattice.py", "ExponentLattice.is_trivially_empty")
    selfn = f.params()[0]
    defs = Defs(f.node, selfn)
    c = cfg_of(f.node)
    key = "invariants/exponent_lattice.py::ExponentLattice.is_trivially_empty::all-rational"
    cop = [x for x in walk_no_nested(f.node) if isinstance(x, ast.Call) and call_name(x) == "are_coprime"]
    if not cop:
        return [inconclusive("F-trivial-lattice", key, f.relpath, f.node.lineno, f.qualname, "coprimality test not found")]
    node = c.node_of(cop[0])
    if node is None:
        return [inconclusive("F-trivial-lattice", key, f.relpath, cop[0].lineno, f.qualname, "coprimality test not located in the flow graph")]
    facts = []
    for t, reach in controlling_tests(c, node):
        if isinstance(t.ast, ast.expr):
            facts += conjuncts(t.ast, bool(reach))
    # a test at the same `if` as the coprimality call (`if A and are_coprime(..)`) is not a controlling fact: add the left conjuncts
    for a in ancestors(cop[0]):
        if isinstance(a, ast.BoolOp) and isinstance(a.op, ast.And):
            for v in a.values:
                if not any(x is cop[0] for x in ast.walk(v)):
                    facts.append((v, True))
    verdict = None
    detail = "no test of the bases' rationality controls the coprimality shortcut"
    for t, truth in facts:
        e = resolve_alias(t, defs)
        if isinstance(e, ast.Call) and call_name(e) in ("all", "any") and e.args and isinstance(e.args[0], (ast.ListComp, ast.GeneratorExp)) \
                and "rational" in src(e.args[0].elt).lower() and truth:
            if call_name(e) == "all":
                verdict = True
            else:
                verdict = False
                detail = f"the shortcut is entered when *some* base is rational (`{src(e)[:60]}`): irrational bases are truncated to integers by the coprimality test"
    obs_len = []
    # an early `return True` on the number of bases is right for the empty list only: a single base can be a root of unity ((-1)**2 = 1)
    for n in walk_no_nested(f.node):
        if isinstance(n, ast.If) and any(isinstance(x, ast.Return) and isinstance(x.value, ast.Constant) and x.value.value is True for x in n.body) \
                and isinstance(n.test, ast.Compare) and len(n.test.ops) == 1 and isinstance(n.test.left, ast.Call) and call_name(n.test.left) == "len":
            op, rhs = n.test.ops[0], n.test.comparators[0]
            if isinstance(rhs, ast.Constant) and isinstance(rhs.value, int):
                max_len = {ast.Eq: rhs.value, ast.LtE: rhs.value, ast.Lt: rhs.value - 1}.get(type(op))
                if max_len is not None:
                    obs_len.append(Ob("F-trivial-lattice", "invariants/exponent_lattice.py::ExponentLattice.is_trivially_empty::empty-list-only", f.relpath, n.lineno, f.qualname, max_len <= 0,
                                      "only the empty list of bases is declared trivially relation-free without looking at the bases" if max_len <= 0 else
                                      f"`{src(n.test)}`: a list of {max_len} base(s) is declared relation-free unseen, but a single root of unity (-1) has the relation (-1)**2 = 1"))
    if verdict is None:
        return obs_len + [inconclusive("F-trivial-lattice", key, f.relpath, cop[0].lineno, f.qualname, detail)]
    return obs_len + [Ob("F-trivial-lattice", key, f.relpath, cop[0].lineno, f.qualname, verdict,
               "the `no relations` shortcut (coprime numerators and denominators) is taken only if every base is rational" if verdict else detail)]


def mut_trivial_shortcut(repo: Repo) -> List[Mutant]:
    ov = text_mutant(repo, "invariants/exponent_lattice.py", "all_rational = all([b.is_Rational for b in self.bases])", "all_rational = any([b.is_Rational for b in self.bases])")
    out = [Mutant("shortcut-if-any-base-rational", ov, "fire", "is_trivially_empty::all-rational", control=True)] if ov else []
    ov = text_mutant(repo, "invariants/exponent_lattice.py", "if len(self.bases) == 0:", "if len(self.bases) <= 1:")
    if ov:
        out.append(Mutant("single-base-declared-trivial", ov, "fire", "empty-list-only"))
    return out


# ------------------------------------------------------------------ mechanisms behind an emptiness test must be enterable
def rule_dead_guard(repo: Repo) -> List[Ob]:
    """`if len(self.X) == 0: return ...` (X an initially empty container): somewhere before the test, in the same method or
    in a method it calls, X is filled.  Otherwise the code after the test can never run."""
    obs = []
    for cls in repo.classes:
        if not cls.relpath.startswith("invariants/"):
            continue
        for m in cls.all_methods:
            selfn = m.params()[0] if m.params() else "self"
            for n in walk_no_nested(m.node):
                if not isinstance(n, ast.If) or not any(isinstance(x, ast.Return) for x in n.body):
                    continue
                t = n.test
                fld = None
                if isinstance(t, ast.Compare) and len(t.ops) == 1 and isinstance(t.ops[0], ast.Eq) and isinstance(t.left, ast.Call) and call_name(t.left) == "len" \
                        and t.left.args and is_self_attr(t.left.args[0], None, selfn) and src(t.comparators[0]) == "0":
                    fld = t.left.args[0].attr
                elif isinstance(t, ast.UnaryOp) and isinstance(t.op, ast.Not) and is_self_attr(t.operand, None, selfn):
                    fld = t.operand.attr
                if fld is None:
                    continue
                # is the field (re)set to an empty container in this method before the test?  (then only fills inside the method count)
                resets = [s for s in walk_no_nested(m.node) if isinstance(s, ast.Assign) and any(is_self_attr(tg, fld, selfn) for tg in s.targets)
                          and isinstance(s.value, (ast.Dict, ast.List, ast.Set, ast.Call)) and s.lineno < n.lineno
                          and not (getattr(s.value, "keys", None) or getattr(s.value, "elts", None) or getattr(s.value, "args", None))]
                if not resets:
                    continue   # filled by the constructor's arguments or by other methods: any writer counts, not analysed here
                key = f"{cls.relpath}::{m.qualname}::emptiness-of::{fld}"

                def fills(g: FunctionInfo, gself: str) -> bool:
                    for x in walk_no_nested(g.node):
                        if isinstance(x, ast.Subscript) and isinstance(x.ctx, ast.Store) and is_self_attr(x.value, fld, gself):
                            return True
                        if isinstance(x, ast.Call) and isinstance(x.func, ast.Attribute) and x.func.attr in MUTATORS - {"clear", "pop", "remove", "discard"} \
                                and is_self_attr(x.func.value, fld, gself):
                            return True
                        if isinstance(x, ast.Assign) and any(is_self_attr(tg, fld, gself) for tg in x.targets) and x not in resets:
                            return True
                    return False
                ok = fills(m, selfn)
                seen = {m.name}
                work = [m]
                while work and not ok:
                    g = work.pop()
                    gs = g.params()[0] if g.params() else "self"
                    for x in walk_no_nested(g.node):
                        if isinstance(x, ast.Call) and isinstance(x.func, ast.Attribute) and isinstance(x.func.value, ast.Name) and x.func.value.id == gs:
                            h = cls.find_method(x.func.attr)
                            if h is not None and h.name not in seen:
                                seen.add(h.name)
                                if fills(h, h.params()[0] if h.params() else "self"):
                                    ok = True
                                work.append(h)
                obs.append(Ob("M-dead-guard", key, cls.relpath, n.lineno, m.qualname, ok,
                              f"self.{fld} can be filled before its emptiness is tested" if ok else
                              f"self.{fld} is emptied at the start of {m.name} and nothing this method runs fills it: `{src(t)}` always holds, the code after the early return "
                              "(elimination of the inverse symbols, i.e. the saturation of the lattice ideal) is dead"))
    return obs


def mut_dead_guard(repo: Repo) -> List[Mutant]:
    def no_inverse(tree):
        fn = find_def(tree, "LatticeIdeal.compute_basis")
        for n in ast.walk(fn):
            if isinstance(n, ast.Call) and call_name(n) == "get_inverse_symbol":
                return replace_node(fn, n, n.args[0])
        return False
    ov = mutate_module(repo, "invariants/lattice_ideal.py", no_inverse)
    return [Mutant("inverse-symbols-never-created", ov, "fire", "emptiness-of::inverse_symbols", control=True)] if ov else []


# ------------------------------------------------------------------ the norm compared with the bound
def rule_norm_dimension(repo: Repo) -> List[Ob]:
    """compute_basis_kauers discards vectors whose Gram-Schmidt *norm* exceeds the bound M*sqrt(n+2): a dot product of a
    vector with itself is a squared norm and must be rooted (or the bound squared) before the comparison."""
    f = repo.function("invariants/exponent_lattice.py", "ExponentLattice.compute_basis_kauers")
    defs = Defs(f.node, f.params()[0])
    obs = []
    key = "invariants/exponent_lattice.py::ExponentLattice.compute_basis_kauers::norm-vs-bound"

    def degree(e, depth=0) -> Optional[int]:
        """1: a length, 2: a squared length, None: unknown"""
        if depth > 4:
            return None
        if isinstance(e, ast.BinOp) and isinstance(e.op, ast.Pow):
            base = degree(e.left, depth + 1)
            ex = src(e.right).replace(" ", "")
            if base is not None and ex in ("(1/2)", "1/2", "0.5", "(0.5)"):
                return base // 2 if base % 2 == 0 else None
            if base is not None and ex == "2":
                return base * 2
            return None
        if isinstance(e, ast.Call) and call_name(e) in ("sqrt",) and e.args:
            d = degree(e.args[0], depth + 1)
            return d // 2 if d and d % 2 == 0 else None
        if isinstance(e, ast.Call) and call_name(e) == "dot" and isinstance(e.func, ast.Attribute) and e.args and src(e.func.value) == src(e.args[0]):
            return 2
        if isinstance(e, ast.Call) and call_name(e) in ("norm", "length"):
            return 1
        if isinstance(e, ast.Call) and "bound" in (call_name(e) or ""):
            return 1          # faccin_bound(...): the bound on the norm of a basis vector, whatever the local is called
        if isinstance(e, ast.Name):
            r = resolve_alias(e, defs)
            if r is not e:
                return degree(r, depth + 1)
            return 1 if e.id in ("upper", "M", "bound") else None
        if isinstance(e, ast.BinOp) and isinstance(e.op, ast.Mult):
            # bound = M * (n + 2) ** (1/2): a length scaled by a dimension-free factor
            l, r = degree(e.left, depth + 1), degree(e.right, depth + 1)
            cands = [d for d in (l, r) if d is not None]
            if isinstance(e.left, ast.Name) and src(e.left) == src(e.right):
                return 2 * l if l else None
            return max(cands) if cands else 1 if any(isinstance(x, ast.Name) and x.id in ("M", "upper", "bound") for x in (e.left, e.right)) else None
        return None
    comps = [cmpn for cmpn in walk_no_nested(f.node) if isinstance(cmpn, ast.Compare) and len(cmpn.ops) == 1 and isinstance(cmpn.ops[0], (ast.Gt, ast.GtE, ast.Lt, ast.LtE))
             and any(isinstance(x, ast.Call) and call_name(x) == "dot" for x in ast.walk(cmpn))]
    if not comps:
        return [inconclusive("F-norm-bound", key, f.relpath, f.node.lineno, f.qualname, "comparison of a Gram-Schmidt norm with the bound not found")]
    for cmpn in comps:
        l, r = degree(cmpn.left), degree(cmpn.comparators[0])
        if l is None or r is None:
            obs.append(inconclusive("F-norm-bound", key, f.relpath, cmpn.lineno, f.qualname, f"dimension of `{src(cmpn)[:60]}` not determined"))
        else:
            obs.append(Ob("F-norm-bound", key, f.relpath, cmpn.lineno, f.qualname, l == r,
                          "Gram-Schmidt norm and bound are compared in the same dimension" if l == r else
                          f"`{src(cmpn)[:70]}` compares a {'squared ' if l == 2 else ''}norm with a {'squared ' if r == 2 else ''}bound: "
                          "vectors between sqrt(bound) and bound are discarded and relations are lost"))
    return obs


def mut_norm_dimension(repo: Repo) -> List[Mutant]:
    ov = text_mutant(repo, "invariants/exponent_lattice.py", "gs_vectors[r].dot(gs_vectors[r]) ** (1 / 2) > upper", "gs_vectors[r].dot(gs_vectors[r]) > upper")
    out = [Mutant("squared-norm-vs-bound", ov, "fire", "norm-vs-bound", control=True)] if ov else []
    ov = text_mutant(repo, "invariants/exponent_lattice.py", "gs_vectors[r].dot(gs_vectors[r]) ** (1 / 2) > upper", "gs_vectors[r].dot(gs_vectors[r]) > upper ** 2")
    if ov:
        out.append(Mutant("benign-both-squared", ov, "silent"))
    return out


# ------------------------------------------------------------------ Mahler measure starts from the leading coefficient
def rule_mahler(repo: Repo) -> List[Ob]:
    """faccin_height is ln(M)/deg with the Mahler measure M = |lc| * prod max(1, |root|)**mult of the minimal polynomial.
    Starting the product from 1 is right for algebraic integers only (monic minimal polynomial); exponent bases are
    arbitrary algebraic numbers (2**-100 has leading coefficient 2**100)."""
    f = repo.function("utils/algebraic_numbers.py", "faccin_height")
    key = "utils/algebraic_numbers.py::faccin_height::leading-coefficient"
    defs = Defs(f.node, None)
    # the accumulator that is multiplied by max(Abs(root), 1) ** mult
    from ..shape import inline_locals
    accs = [n for n in walk_no_nested(f.node) if isinstance(n, ast.AugAssign) and isinstance(n.op, ast.Mult) and isinstance(n.target, ast.Name)
            and any(isinstance(x, ast.Call) and call_name(x) == "max" for x in ast.walk(inline_locals(n.value, defs)))]
    start = None
    if accs:
        inits = [v for v, st in zip(defs.defs.get(accs[0].target.id, []), defs.def_sites.get(accs[0].target.id, [])) if isinstance(st, ast.Assign) and isinstance(v, ast.expr)]
        start = inits[0] if inits else None
    else:
        # reduce(lambda acc, rm: acc * max(...), roots, START)  /  prod(...) * START
        for c in walk_no_nested(f.node):
            if isinstance(c, ast.Call) and call_name(c) == "reduce" and len(c.args) == 3:
                start = c.args[2]
        for hf, _, _ in __import__("polarlint.shape", fromlist=["helper_calls"]).helper_calls(repo, f, depth=1):
            for c in walk_no_nested(hf.node):
                if isinstance(c, ast.Call) and call_name(c) == "reduce" and len(c.args) == 3:
                    start = c.args[2]
                    defs = Defs(hf.node, None)
    if start is None:
        return [inconclusive("F-mahler", key, f.relpath, f.node.lineno, f.qualname, "start value of the product over the roots not recognised")]
    start = resolve_alias(start, defs)
    has_lc = any(isinstance(x, ast.Call) and call_name(x) in ("LC", "leading_coeff", "lc") for x in ast.walk(start)) or \
        any(isinstance(x, ast.Name) and any(isinstance(y, ast.Call) and call_name(y) in ("LC", "leading_coeff") for v in defs.defs.get(x.id, []) if isinstance(v, ast.expr) for y in ast.walk(v)) for x in ast.walk(start))
    if has_lc:
        return [Ob("F-mahler", key, f.relpath, start.lineno, f.qualname, True, "the Mahler measure starts from the leading coefficient of the minimal polynomial")]
    if isinstance(start, ast.Constant):
        return [Ob("F-mahler", key, f.relpath, start.lineno, f.qualname, False,
                   f"the product over the roots starts from the constant {start.value!r}: the leading coefficient of the minimal polynomial is dropped, the height (and with it the Faccin bound) of a non-integer base is too small and true generators are cut away")]
    return [inconclusive("F-mahler", key, f.relpath, start.lineno, f.qualname, f"start value `{src(start)[:40]}` not recognised")]


def mut_mahler(repo: Repo) -> List[Mutant]:
    ov = text_mutant(repo, "utils/algebraic_numbers.py", "M = poly.LC()", "M = 1")
    return [Mutant("leading-coefficient-dropped", ov, "fire", "faccin_height::leading-coefficient", control=True)] if ov else []


# ------------------------------------------------------------------ the parity coefficient belongs to the row of the factor -1
def rule_parity_row(repo: Repo) -> List[Ob]:
    """compute_basis_rational adds `2*t` to the equation of the factor -1 (its multiplicities must sum to an EVEN number) by
    writing 2 into the last row / last column.  That is only the -1 row if the other rows were built without -1 and the -1
    row was inserted at the end."""
    f = repo.function("invariants/exponent_lattice.py", "ExponentLattice.compute_basis_rational")
    key = "invariants/exponent_lattice.py::ExponentLattice.compute_basis_rational::parity-row"
    stores = [n for n in walk_no_nested(f.node) if isinstance(n, ast.Assign) and isinstance(n.targets[0], ast.Subscript) and isinstance(n.targets[0].slice, ast.Tuple)
              and src(n.targets[0].slice).replace(" ", "") in ("-1,-1", "(-1,-1)") and src(n.value) == "2"]
    if not stores:
        return [inconclusive("F-parity-row", key, f.relpath, f.node.lineno, f.qualname, "placement of the parity coefficient not recognised")]
    # rows built from the table: is the key -1 excluded?
    excl = False
    incl_all = None
    for n in walk_no_nested(f.node):
        if isinstance(n, (ast.ListComp, ast.GeneratorExp)) and any("items" in src(g.iter) or "keys" in src(g.iter) for g in n.generators):
            conds = " ".join(src(c) for g in n.generators for c in g.ifs)
            if "!= -1" in conds or "!=-1" in conds.replace(" ", "") or "> 0" in conds or "is not" in conds:
                excl = True
            elif not conds:
                incl_all = n
        if isinstance(n, ast.Call) and call_name(n) in ("list", "Matrix") and n.args and isinstance(n.args[0], ast.Call) and call_name(n.args[0]) == "values":
            incl_all = n
    appended_last = any(isinstance(c, ast.Call) and call_name(c) == "row_insert" and c.args and "shape[0]" in src(c.args[0]) and "-1" in src(c) for c in walk_no_nested(f.node))
    if excl and appended_last:
        return [Ob("F-parity-row", key, f.relpath, stores[0].lineno, f.qualname, True, "the rows of the primes are built without the factor -1 and its row is inserted last: the parity coefficient meets the -1 row")]
    if incl_all is not None and not excl:
        return [Ob("F-parity-row", key, f.relpath, stores[0].lineno, f.qualname, False,
                   f"the equation matrix is built from all factors in table order (`{src(incl_all)[:50]}`) while the parity coefficient is written into the LAST row: unless -1 happens to be the last factor met, the 2 lands in a prime's equation")]
    return [inconclusive("F-parity-row", key, f.relpath, stores[0].lineno, f.qualname, "order of the equation rows not recognised")]


def mut_parity_row(repo: Repo) -> List[Mutant]:
    def tr(tree):
        fn = find_def(tree, "ExponentLattice.compute_basis_rational")
        for n in ast.walk(fn):
            if isinstance(n, ast.Assign) and isinstance(n.targets[0], ast.Name) and n.targets[0].id == "entries":
                n.value = ast.parse("list(factors_to_multiplicities.values())").body[0].value
                return True
        return False
    ov = mutate_module(repo, "invariants/exponent_lattice.py", tr)
    return [Mutant("rows-in-table-order", ov, "fire", "parity-row", control=True)] if ov else []


# ------------------------------------------------------------------ exponent vectors are used as they come out of the lattice
def rule_row_intact(repo: Repo) -> List[Ob]:
    """LatticeIdeal.compute_basis turns every vector v of the lattice basis into the binomial prod b_i**v_i - 1.  A vector scaled down
    (v / gcd) is a different statement: (-1)**2 = 1 does not give (-1)**1 = 1.  The vectors are rescaled nowhere between the lattice and
    the binomial."""
    f = repo.function("invariants/lattice_ideal.py", "LatticeIdeal.compute_basis")
    key = "invariants/lattice_ideal.py::LatticeIdeal.compute_basis::rows-unscaled"
    from ..shape import expanded
    fx = expanded(repo, f, keep=("get_inverse_symbol",))
    loops = [l for l in walk_no_nested(fx) if isinstance(l, ast.For) and "lattice_basis" in src(l.iter) and isinstance(l.target, ast.Name)]
    if not loops:
        return [inconclusive("F-lattice-rows", key, f.relpath, f.node.lineno, f.qualname, "loop over the lattice basis not recognised")]
    loop = loops[0]
    row = loop.target.id
    scaled = []
    for st in ast.walk(loop):
        if isinstance(st, (ast.Assign, ast.AugAssign)):
            tgts = st.targets if isinstance(st, ast.Assign) else [st.target]
            if any(isinstance(t, ast.Name) and t.id == row for t in tgts):
                if any(isinstance(x, ast.BinOp) and isinstance(x.op, (ast.FloorDiv, ast.Div, ast.Mod, ast.Mult)) for x in ast.walk(st.value)) or \
                        any(isinstance(x, ast.Call) and call_name(x) in ("gcd", "igcd", "primitive", "content") for x in ast.walk(st.value)):
                    scaled.append(st)
    if scaled:
        return [Ob("F-lattice-rows", key, f.relpath, scaled[0].lineno, f.qualname, False,
                   f"`{src(scaled[0])[:70]}` rescales a lattice vector before the binomial is formed: for a negative or complex base a multiple k*v can be a relation although v is not "
                   "((-1)**2 = 1, (-2)**2 = 2**2): the binomial of v/k is reported as an invariant and is false")]
    return [Ob("F-lattice-rows", key, f.relpath, loop.lineno, f.qualname, True, "every vector of the lattice basis becomes a binomial with exactly its own exponents")]


def mut_row_intact(repo: Repo) -> List[Mutant]:
    def tr(tree):
        fn = find_def(tree, "LatticeIdeal.compute_basis")
        for n in ast.walk(fn):
            if isinstance(n, ast.For) and "lattice_basis" in src(n.iter):
                n.body[0:0] = ast.parse("d = gcd(*row)\nif d > 1:\n    row = [p // d for p in row]").body
                return True
        return False
    ov = mutate_module(repo, "invariants/lattice_ideal.py", tr)
    return [Mutant("rows-divided-by-their-gcd", ov, "fire", "rows-unscaled", control=True)] if ov else []


# ------------------------------------------------------------------ base**(C*n) is read as (base**C)**n
def rule_exp_split(repo: Repo) -> List[Ob]:
    f = repo.function("invariants/invariant_ideal.py", "InvariantIdeal.abstract_exponentials")
    key = "invariants/invariant_ideal.py::InvariantIdeal.abstract_exponentials::constant-into-base"
    selfn = f.params()[0]
    arms = []
    for iff in [n for n in walk_no_nested(f.node) if isinstance(n, ast.If)]:
        t = iff.test
        if isinstance(t, ast.Compare) and len(t.ops) == 1 and isinstance(t.ops[0], ast.Eq):
            sides = [t.left, t.comparators[0]]
            nside = [x for x in sides if is_self_attr(x, "n", selfn)]
            fac = [x for x in sides if isinstance(x, ast.Name)]
            if len(nside) == 1 and len(fac) == 1:
                for st in iff.body:
                    if isinstance(st, ast.Assign) and isinstance(st.value, ast.BinOp) and isinstance(st.value.op, ast.Pow) and isinstance(st.targets[0], ast.Name) \
                            and isinstance(st.value.left, ast.Name) and st.value.left.id == st.targets[0].id:
                        arms.append((fac[0].id, st))
    if len(arms) < 2:
        return [inconclusive("F-exp-split", key, f.relpath, f.node.lineno, f.qualname, "the two arms `factor == n` that move the constant into the base were not recognised")]
    names = {a for a, _ in arms}
    obs = []
    bad = None
    for tested, st in arms:
        others = names - {tested}
        e = st.value.right
        if not (isinstance(e, ast.Name) and e.id in others):
            bad = (tested, st)
    if bad:
        tested, st = bad
        return [Ob("F-exp-split", key, f.relpath, st.lineno, f.qualname, False,
                   f"`{src(st)}` in the arm `{tested} == n`: base**(C*n) is (base**C)**n, the new base is the old base to the power of the OTHER factor, unchanged "
                   "(2**(n/2) is sqrt(2)**n, not 4**n): the lattice is computed for the wrong bases")]
    return [Ob("F-exp-split", key, f.relpath, arms[0][1].lineno, f.qualname, True, "base**(C*n) is read as (base**C)**n in both orders of the factors")]


def mut_exp_split(repo: Repo) -> List[Mutant]:
    ov = text_mutant(repo, "invariants/invariant_ideal.py", "base = base ** factor1", "base = base ** (1 / factor1)")
    return [Mutant("reciprocal-constant-into-the-base", ov, "fire", "constant-into-base", control=True)] if ov else []


# ------------------------------------------------------------------ integer kernel: the whole left block is eliminated
def rule_kernel_columns(repo: Repo) -> List[Ob]:
    """_integer_kernel works on [matrix^T | I]: the left block has one column per equation.  The width used to BUILD the left block, the
    range of the ELIMINATION loop and the offset at which the right block is CUT OFF are the same number; an elimination that stops
    earlier leaves equations unenforced and vectors that are no relations end up in the basis."""
    f = repo.function("invariants/exponent_lattice.py", "ExponentLattice._integer_kernel")
    key = "invariants/exponent_lattice.py::ExponentLattice._integer_kernel::left-block-width"
    from ..ratfun import Normalizer
    nz = Normalizer()
    build = elim = cut = None
    for n in walk_no_nested(f.node):
        if isinstance(n, ast.ListComp) and isinstance(n.elt, ast.Call) and call_name(n.elt) == "int" and len(n.generators) == 1 and isinstance(n.generators[0].iter, ast.Call) \
                and call_name(n.generators[0].iter) == "range" and len(n.generators[0].iter.args) == 1 and any(isinstance(x, ast.Subscript) for x in ast.walk(n.elt)) and build is None:
            build = n.generators[0].iter.args[0]
        if isinstance(n, ast.For) and isinstance(n.target, ast.Name) and isinstance(n.iter, ast.Call) and call_name(n.iter) == "range" and len(n.iter.args) == 1 \
                and any(isinstance(x, ast.Subscript) and isinstance(x.slice, ast.Name) and x.slice.id == n.target.id and isinstance(x.value, ast.Subscript) for x in ast.walk(n)) and elim is None:
            elim = n.iter.args[0]
        if isinstance(n, ast.Subscript) and isinstance(n.slice, ast.Slice) and n.slice.lower is not None and n.slice.upper is not None and isinstance(n.value, ast.Name) and cut is None:
            cut = n.slice.lower
    if build is None or elim is None or cut is None:
        return [inconclusive("F-kernel", key, f.relpath, f.node.lineno, f.qualname, "construction / elimination / cut of the left block not recognised")]
    try:
        b_, e_, c_ = nz(build), nz(elim), nz(cut)
    except AnalysisError as ex:
        return [inconclusive("F-kernel", key, f.relpath, f.node.lineno, f.qualname, f"width expressions not normalisable ({ex})")]
    if b_.equiv(e_) and b_.equiv(c_):
        return [Ob("F-kernel", key, f.relpath, elim.lineno, f.qualname, True, f"left block: built with width `{src(build)}`, eliminated over the same range, right block cut off at the same offset")]
    which = f"the elimination loop runs over range({src(elim)})" if not b_.equiv(e_) else f"the right block is cut off at {src(cut)}"
    return [Ob("F-kernel", key, f.relpath, elim.lineno, f.qualname, False,
               f"the left block is built with width `{src(build)}` but {which}: equations beyond that are never enforced, vectors that are no relations (even 0) end up in the lattice basis")]


def mut_kernel_columns(repo: Repo) -> List[Mutant]:
    ov = text_mutant(repo, "invariants/exponent_lattice.py", "for col in range(num_equations):", "for col in range(min(num_equations, num_columns)):")
    return [Mutant("elimination-stops-at-the-number-of-rows", ov, "fire", "left-block-width", control=True)] if ov else []


RULES = {
    "KERNELCOLS": Rule("F-kernel", rule_kernel_columns, 1, "the integer-kernel elimination covers the whole left block (build width = elimination range = cut offset)", mut_kernel_columns, soft=True),
    "ROWINTACT": Rule("F-lattice-rows", rule_row_intact, 1, "lattice vectors are turned into binomials with their own exponents (never rescaled)", mut_row_intact, soft=True),
    "EXPSPLIT": Rule("F-exp-split", rule_exp_split, 1, "base**(C*n) is abstracted as (base**C)**n", mut_exp_split, soft=True),
    "ALIAS": Rule("G4-aliasing", rule_aliasing, 1, "rows handed out per key (setdefault / fromkeys / list multiplication) are distinct objects when they are written through; one multiplicity row per factor", mut_aliasing, soft=True),
    "TRIVIAL": Rule("F-trivial-lattice", rule_trivial_shortcut, 1, "the `trivially empty lattice` shortcut is guarded by: all bases rational", mut_trivial_shortcut, soft=True),
    "DEADGUARD": Rule("M-dead-guard", rule_dead_guard, 1, "a container emptied at the start of a method and tested for emptiness later can be filled in between (the saturation of the lattice ideal is reachable)", mut_dead_guard, soft=True),
    "MAHLER": Rule("F-mahler", rule_mahler, 1, "faccin_height multiplies the max(1,|root|) factors onto the leading coefficient of the minimal polynomial", mut_mahler, soft=True),
    "PARITYROW": Rule("F-parity-row", rule_parity_row, 1, "the parity coefficient 2 is written into the row of the factor -1 (that row is built last)", mut_parity_row, soft=True),
    "NORMDIM": Rule("F-norm-bound", rule_norm_dimension, 1, "the Gram-Schmidt norm is compared with the Faccin bound in the same dimension", mut_norm_dimension, soft=True),
}
